//! synfacts — dumps the syntax trees (syn 2, unexpanded source) of the analysed crate as JSON.
//!
//! usage: synfacts <repo-root> <out.json>
//! Files: kiki/src/**/*.rs and kiki/build.rs. Every node carries its start line.
//! Macro invocations keep their arguments parsed as expressions where possible
//! (format!/vec!/panic!/write!/matches!...), with string literals unescaped.

use proc_macro2::Span;
use quote::ToTokens;
use std::fmt::Write as _;
use syn::punctuated::Punctuated;
use syn::spanned::Spanned;
use syn::*;

#[derive(Clone)]
enum J {
    Null,
    Bool(bool),
    Num(i128),
    Str(String),
    Arr(Vec<J>),
    Obj(Vec<(&'static str, J)>),
}

fn s<T: Into<String>>(x: T) -> J {
    J::Str(x.into())
}

fn esc(out: &mut String, st: &str) {
    out.push('"');
    for c in st.chars() {
        match c {
            '"' => out.push_str("\\\""),
            '\\' => out.push_str("\\\\"),
            '\n' => out.push_str("\\n"),
            '\r' => out.push_str("\\r"),
            '\t' => out.push_str("\\t"),
            c if (c as u32) < 0x20 => {
                let _ = write!(out, "\\u{:04x}", c as u32);
            }
            c => out.push(c),
        }
    }
    out.push('"');
}

impl J {
    fn write(&self, out: &mut String) {
        match self {
            J::Null => out.push_str("null"),
            J::Bool(b) => out.push_str(if *b { "true" } else { "false" }),
            J::Num(n) => {
                let _ = write!(out, "{}", n);
            }
            J::Str(st) => esc(out, st),
            J::Arr(v) => {
                out.push('[');
                for (i, x) in v.iter().enumerate() {
                    if i > 0 {
                        out.push(',');
                    }
                    x.write(out);
                }
                out.push(']');
            }
            J::Obj(v) => {
                out.push('{');
                for (i, (k, x)) in v.iter().enumerate() {
                    if i > 0 {
                        out.push(',');
                    }
                    esc(out, k);
                    out.push(':');
                    x.write(out);
                }
                out.push('}');
            }
        }
    }
}

fn line(sp: Span) -> J {
    J::Num(sp.start().line as i128)
}

fn toks<T: ToTokens>(t: &T) -> J {
    s(t.to_token_stream().to_string())
}

fn node(k: &'static str, sp: Span, mut rest: Vec<(&'static str, J)>) -> J {
    let mut v = vec![("k", s(k)), ("line", line(sp)), ("col", J::Num(sp.start().column as i128)), ("eline", J::Num(sp.end().line as i128))];
    v.append(&mut rest);
    J::Obj(v)
}

fn attrs_j(attrs: &[Attribute]) -> J {
    J::Arr(attrs.iter().map(|a| s(a.to_token_stream().to_string())).collect())
}

fn path_j(p: &Path) -> J {
    // segments as plain idents (generic args dropped), plus full token string
    let segs: Vec<J> = p.segments.iter().map(|sg| s(sg.ident.to_string())).collect();
    J::Obj(vec![("segs", J::Arr(segs)), ("src", toks(p)), ("leading_colon", J::Bool(p.leading_colon.is_some()))])
}

fn lit_j(l: &Lit) -> J {
    match l {
        Lit::Str(x) => J::Obj(vec![("t", s("str")), ("v", s(x.value())), ("raw", J::Bool(x.token().to_string().starts_with('r')))]),
        Lit::Char(x) => J::Obj(vec![("t", s("char")), ("v", s(x.value().to_string()))]),
        Lit::Int(x) => J::Obj(vec![("t", s("int")), ("v", s(x.base10_digits())), ("suffix", s(x.suffix()))]),
        Lit::Bool(x) => J::Obj(vec![("t", s("bool")), ("v", J::Bool(x.value))]),
        Lit::Byte(x) => J::Obj(vec![("t", s("byte")), ("v", J::Num(x.value() as i128))]),
        Lit::ByteStr(x) => J::Obj(vec![("t", s("bytestr")), ("v", s(String::from_utf8_lossy(&x.value()).to_string()))]),
        Lit::Float(x) => J::Obj(vec![("t", s("float")), ("v", s(x.base10_digits()))]),
        other => J::Obj(vec![("t", s("other")), ("v", toks(other))]),
    }
}

fn pat_j(p: &Pat) -> J {
    let sp = p.span();
    match p {
        Pat::Ident(x) => node(
            "PIdent",
            sp,
            vec![
                ("name", s(x.ident.to_string())),
                ("by_ref", J::Bool(x.by_ref.is_some())),
                ("mut", J::Bool(x.mutability.is_some())),
                ("sub", x.subpat.as_ref().map(|(_, p)| pat_j(p)).unwrap_or(J::Null)),
            ],
        ),
        Pat::Lit(x) => node("PLit", sp, vec![("lit", lit_j(&x.lit))]),
        Pat::Or(x) => node("POr", sp, vec![("cases", J::Arr(x.cases.iter().map(pat_j).collect()))]),
        Pat::Paren(x) => pat_j(&x.pat),
        Pat::Path(x) => node("PPath", sp, vec![("path", path_j(&x.path))]),
        Pat::Range(x) => node(
            "PRange",
            sp,
            vec![
                ("src", toks(x)),
                ("lo", match &x.start {
                    Some(e) => expr_j(e),
                    None => J::Null,
                }),
                ("hi", match &x.end {
                    Some(e) => expr_j(e),
                    None => J::Null,
                }),
                ("inclusive", J::Bool(matches!(x.limits, RangeLimits::Closed(_)))),
            ],
        ),
        Pat::Reference(x) => node("PRef", sp, vec![("pat", pat_j(&x.pat)), ("mut", J::Bool(x.mutability.is_some()))]),
        Pat::Rest(_) => node("PRest", sp, vec![]),
        Pat::Slice(x) => node("PSlice", sp, vec![("elems", J::Arr(x.elems.iter().map(pat_j).collect()))]),
        Pat::Struct(x) => node(
            "PStruct",
            sp,
            vec![
                ("path", path_j(&x.path)),
                (
                    "fields",
                    J::Arr(
                        x.fields
                            .iter()
                            .map(|f| {
                                J::Obj(vec![
                                    ("member", toks(&f.member)),
                                    ("pat", pat_j(&f.pat)),
                                    ("shorthand", J::Bool(f.colon_token.is_none())),
                                ])
                            })
                            .collect(),
                    ),
                ),
                ("rest", J::Bool(x.rest.is_some())),
            ],
        ),
        Pat::Tuple(x) => node("PTuple", sp, vec![("elems", J::Arr(x.elems.iter().map(pat_j).collect()))]),
        Pat::TupleStruct(x) => node(
            "PTupleStruct",
            sp,
            vec![("path", path_j(&x.path)), ("elems", J::Arr(x.elems.iter().map(pat_j).collect()))],
        ),
        Pat::Type(x) => node("PType", sp, vec![("pat", pat_j(&x.pat)), ("ty", toks(&x.ty))]),
        Pat::Wild(_) => node("PWild", sp, vec![]),
        Pat::Const(x) => node("PConst", sp, vec![("src", toks(x))]),
        Pat::Macro(x) => node("PMacro", sp, vec![("src", toks(x))]),
        other => node("POther", sp, vec![("src", toks(other))]),
    }
}

fn block_j(b: &Block) -> J {
    node("Block", b.span(), vec![("stmts", J::Arr(b.stmts.iter().map(stmt_j).collect()))])
}

fn macro_j(m: &Macro, sp: Span) -> J {
    let name = m.path.segments.last().map(|x| x.ident.to_string()).unwrap_or_default();
    let mut v: Vec<(&'static str, J)> = vec![("name", s(name)), ("path", path_j(&m.path))];
    match m.parse_body_with(Punctuated::<Expr, Token![,]>::parse_terminated) {
        Ok(args) => {
            v.push(("args", J::Arr(args.iter().map(expr_j).collect())));
        }
        Err(_) => {
            v.push(("args", J::Null));
        }
    }
    if v.iter().any(|(k, x)| *k == "name" && matches!(x, J::Str(n) if n == "matches")) {
        // matches!(expr, pattern [if guard]): the pattern is kept as a pattern
        let parser = |input: syn::parse::ParseStream| -> Result<(Expr, Pat, Option<Expr>)> {
            let e: Expr = input.parse()?;
            input.parse::<Token![,]>()?;
            let p = Pat::parse_multi_with_leading_vert(input)?;
            let g = if input.peek(Token![if]) {
                input.parse::<Token![if]>()?;
                Some(input.parse::<Expr>()?)
            } else {
                None
            };
            let _ = input.parse::<Option<Token![,]>>()?;
            Ok((e, p, g))
        };
        if let Ok((e, p, g)) = syn::parse::Parser::parse2(parser, m.tokens.clone()) {
            v.push(("mexpr", expr_j(&e)));
            v.push(("mpat", pat_j(&p)));
            v.push(("mguard", match &g {
                Some(g) => expr_j(g),
                None => J::Null,
            }));
        }
    }
    v.push(("tokens", s(m.tokens.to_string())));
    node("Macro", sp, v)
}

fn stmt_j(st: &Stmt) -> J {
    match st {
        Stmt::Local(l) => {
            let mut v: Vec<(&'static str, J)> = vec![("pat", pat_j(&l.pat)), ("attrs", attrs_j(&l.attrs))];
            if let Some(init) = &l.init {
                v.push(("init", expr_j(&init.expr)));
                if let Some((_, d)) = &init.diverge {
                    v.push(("else", expr_j(d)));
                }
            }
            node("Let", l.span(), v)
        }
        Stmt::Item(i) => node("ItemStmt", i.span(), vec![("item", item_j(i))]),
        Stmt::Expr(e, semi) => node("ExprStmt", e.span(), vec![("expr", expr_j(e)), ("semi", J::Bool(semi.is_some()))]),
        Stmt::Macro(m) => node(
            "ExprStmt",
            m.span(),
            vec![("expr", macro_j(&m.mac, m.span())), ("semi", J::Bool(m.semi_token.is_some()))],
        ),
    }
}

fn opt_expr(e: &Option<Box<Expr>>) -> J {
    match e {
        Some(x) => expr_j(x),
        None => J::Null,
    }
}

fn expr_j(e: &Expr) -> J {
    let sp = e.span();
    match e {
        Expr::Array(x) => node("Array", sp, vec![("elems", J::Arr(x.elems.iter().map(expr_j).collect()))]),
        Expr::Assign(x) => node("Assign", sp, vec![("left", expr_j(&x.left)), ("right", expr_j(&x.right))]),
        Expr::Binary(x) => node(
            "Binary",
            sp,
            vec![("op", toks(&x.op)), ("left", expr_j(&x.left)), ("right", expr_j(&x.right))],
        ),
        Expr::Block(x) => node("BlockExpr", sp, vec![("block", block_j(&x.block)), ("label", J::Bool(x.label.is_some()))]),
        Expr::Break(x) => node("Break", sp, vec![("expr", opt_expr(&x.expr))]),
        Expr::Call(x) => node(
            "Call",
            sp,
            vec![("func", expr_j(&x.func)), ("args", J::Arr(x.args.iter().map(expr_j).collect()))],
        ),
        Expr::Cast(x) => node("Cast", sp, vec![("expr", expr_j(&x.expr)), ("ty", toks(&x.ty))]),
        Expr::Closure(x) => node(
            "Closure",
            sp,
            vec![
                ("inputs", J::Arr(x.inputs.iter().map(pat_j).collect())),
                ("body", expr_j(&x.body)),
                ("move", J::Bool(x.capture.is_some())),
                ("ret", match &x.output {
                    ReturnType::Default => J::Null,
                    ReturnType::Type(_, t) => toks(t),
                }),
            ],
        ),
        Expr::Continue(_) => node("Continue", sp, vec![]),
        Expr::Field(x) => node("Field", sp, vec![("base", expr_j(&x.base)), ("member", toks(&x.member))]),
        Expr::ForLoop(x) => node(
            "For",
            sp,
            vec![("pat", pat_j(&x.pat)), ("expr", expr_j(&x.expr)), ("body", block_j(&x.body))],
        ),
        Expr::Group(x) => expr_j(&x.expr),
        Expr::If(x) => node(
            "If",
            sp,
            vec![
                ("cond", expr_j(&x.cond)),
                ("then", block_j(&x.then_branch)),
                ("else", match &x.else_branch {
                    Some((_, e)) => expr_j(e),
                    None => J::Null,
                }),
            ],
        ),
        Expr::Index(x) => node("Index", sp, vec![("expr", expr_j(&x.expr)), ("index", expr_j(&x.index))]),
        Expr::Let(x) => node("LetCond", sp, vec![("pat", pat_j(&x.pat)), ("expr", expr_j(&x.expr))]),
        Expr::Lit(x) => node("Lit", sp, vec![("lit", lit_j(&x.lit))]),
        Expr::Loop(x) => node("Loop", sp, vec![("body", block_j(&x.body))]),
        Expr::Macro(x) => macro_j(&x.mac, sp),
        Expr::Match(x) => node(
            "Match",
            sp,
            vec![
                ("expr", expr_j(&x.expr)),
                (
                    "arms",
                    J::Arr(
                        x.arms
                            .iter()
                            .map(|a| {
                                node(
                                    "Arm",
                                    a.span(),
                                    vec![
                                        ("pat", pat_j(&a.pat)),
                                        ("guard", match &a.guard {
                                            Some((_, g)) => expr_j(g),
                                            None => J::Null,
                                        }),
                                        ("body", expr_j(&a.body)),
                                    ],
                                )
                            })
                            .collect(),
                    ),
                ),
            ],
        ),
        Expr::MethodCall(x) => node(
            "MethodCall",
            sp,
            vec![
                ("recv", expr_j(&x.receiver)),
                ("method", s(x.method.to_string())),
                ("turbofish", match &x.turbofish {
                    Some(t) => toks(t),
                    None => J::Null,
                }),
                ("args", J::Arr(x.args.iter().map(expr_j).collect())),
                ("mline", line(x.method.span())),
            ],
        ),
        Expr::Paren(x) => expr_j(&x.expr),
        Expr::Path(x) => node("Path", sp, vec![("path", path_j(&x.path)), ("qself", J::Bool(x.qself.is_some()))]),
        Expr::Range(x) => node(
            "Range",
            sp,
            vec![("start", opt_expr(&x.start)), ("end", opt_expr(&x.end)), ("limits", toks(&x.limits))],
        ),
        Expr::Reference(x) => node("Ref", sp, vec![("expr", expr_j(&x.expr)), ("mut", J::Bool(x.mutability.is_some()))]),
        Expr::Repeat(x) => node("Repeat", sp, vec![("expr", expr_j(&x.expr)), ("len", expr_j(&x.len))]),
        Expr::Return(x) => node("Return", sp, vec![("expr", opt_expr(&x.expr))]),
        Expr::Struct(x) => node(
            "Struct",
            sp,
            vec![
                ("path", path_j(&x.path)),
                (
                    "fields",
                    J::Arr(
                        x.fields
                            .iter()
                            .map(|f| {
                                J::Obj(vec![
                                    ("member", toks(&f.member)),
                                    ("expr", expr_j(&f.expr)),
                                    ("shorthand", J::Bool(f.colon_token.is_none())),
                                ])
                            })
                            .collect(),
                    ),
                ),
                ("rest", match &x.rest {
                    Some(r) => expr_j(r),
                    None => J::Null,
                }),
            ],
        ),
        Expr::Try(x) => node("Try", sp, vec![("expr", expr_j(&x.expr))]),
        Expr::Tuple(x) => node("Tuple", sp, vec![("elems", J::Arr(x.elems.iter().map(expr_j).collect()))]),
        Expr::Unary(x) => node("Unary", sp, vec![("op", toks(&x.op)), ("expr", expr_j(&x.expr))]),
        Expr::Unsafe(x) => node("Unsafe", sp, vec![("block", block_j(&x.block))]),
        Expr::While(x) => node("While", sp, vec![("cond", expr_j(&x.cond)), ("body", block_j(&x.body))]),
        other => node("OtherExpr", sp, vec![("src", toks(other))]),
    }
}

fn sig_j(sig: &Signature) -> Vec<(&'static str, J)> {
    let inputs: Vec<J> = sig
        .inputs
        .iter()
        .map(|a| match a {
            FnArg::Receiver(r) => J::Obj(vec![
                ("self", J::Bool(true)),
                ("ref", J::Bool(r.reference.is_some())),
                ("mut", J::Bool(r.mutability.is_some())),
                ("src", toks(r)),
            ]),
            FnArg::Typed(t) => J::Obj(vec![("pat", pat_j(&t.pat)), ("ty", toks(&t.ty))]),
        })
        .collect();
    vec![
        ("name", s(sig.ident.to_string())),
        ("inputs", J::Arr(inputs)),
        ("output", match &sig.output {
            ReturnType::Default => J::Null,
            ReturnType::Type(_, t) => toks(t),
        }),
        ("generics", toks(&sig.generics)),
        ("where", match &sig.generics.where_clause {
            Some(w) => toks(w),
            None => J::Null,
        }),
        ("unsafe", J::Bool(sig.unsafety.is_some())),
    ]
}

fn fields_j(f: &Fields) -> J {
    let (shape, list): (&str, Vec<J>) = match f {
        Fields::Named(n) => (
            "named",
            n.named
                .iter()
                .map(|x| {
                    J::Obj(vec![
                        ("name", s(x.ident.as_ref().map(|i| i.to_string()).unwrap_or_default())),
                        ("vis", toks(&x.vis)),
                        ("ty", toks(&x.ty)),
                    ])
                })
                .collect(),
        ),
        Fields::Unnamed(n) => (
            "tuple",
            n.unnamed.iter().map(|x| J::Obj(vec![("name", J::Null), ("vis", toks(&x.vis)), ("ty", toks(&x.ty))])).collect(),
        ),
        Fields::Unit => ("unit", vec![]),
    };
    J::Obj(vec![("shape", s(shape)), ("list", J::Arr(list))])
}

fn item_j(i: &Item) -> J {
    let sp = i.span();
    match i {
        Item::Fn(x) => {
            let mut v = sig_j(&x.sig);
            v.push(("vis", toks(&x.vis)));
            v.push(("attrs", attrs_j(&x.attrs)));
            v.push(("body", block_j(&x.block)));
            node("Fn", sp, v)
        }
        Item::Impl(x) => {
            let items: Vec<J> = x
                .items
                .iter()
                .map(|it| match it {
                    ImplItem::Fn(f) => {
                        let mut v = sig_j(&f.sig);
                        v.push(("vis", toks(&f.vis)));
                        v.push(("attrs", attrs_j(&f.attrs)));
                        v.push(("body", block_j(&f.block)));
                        node("Fn", f.span(), v)
                    }
                    ImplItem::Const(c) => node("Const", c.span(), vec![("name", s(c.ident.to_string())), ("ty", toks(&c.ty)), ("expr", expr_j(&c.expr))]),
                    ImplItem::Type(t) => node("TypeAlias", t.span(), vec![("name", s(t.ident.to_string())), ("ty", toks(&t.ty))]),
                    other => node("OtherImplItem", other.span(), vec![("src", toks(other))]),
                })
                .collect();
            node(
                "Impl",
                sp,
                vec![
                    ("self_ty", toks(&x.self_ty)),
                    ("trait", match &x.trait_ {
                        Some((_, p, _)) => path_j(p),
                        None => J::Null,
                    }),
                    ("generics", toks(&x.generics)),
                    ("attrs", attrs_j(&x.attrs)),
                    ("items", J::Arr(items)),
                ],
            )
        }
        Item::Struct(x) => node(
            "StructDef",
            sp,
            vec![
                ("name", s(x.ident.to_string())),
                ("vis", toks(&x.vis)),
                ("attrs", attrs_j(&x.attrs)),
                ("generics", toks(&x.generics)),
                ("fields", fields_j(&x.fields)),
            ],
        ),
        Item::Enum(x) => node(
            "EnumDef",
            sp,
            vec![
                ("name", s(x.ident.to_string())),
                ("vis", toks(&x.vis)),
                ("attrs", attrs_j(&x.attrs)),
                ("generics", toks(&x.generics)),
                (
                    "variants",
                    J::Arr(
                        x.variants
                            .iter()
                            .map(|v| {
                                J::Obj(vec![
                                    ("name", s(v.ident.to_string())),
                                    ("line", line(v.span())),
                                    ("fields", fields_j(&v.fields)),
                                    ("discr", match &v.discriminant {
                                        Some((_, e)) => expr_j(e),
                                        None => J::Null,
                                    }),
                                ])
                            })
                            .collect(),
                    ),
                ),
            ],
        ),
        Item::Const(x) => node(
            "Const",
            sp,
            vec![
                ("name", s(x.ident.to_string())),
                ("vis", toks(&x.vis)),
                ("ty", toks(&x.ty)),
                ("expr", expr_j(&x.expr)),
                ("attrs", attrs_j(&x.attrs)),
            ],
        ),
        Item::Static(x) => node(
            "Static",
            sp,
            vec![
                ("name", s(x.ident.to_string())),
                ("vis", toks(&x.vis)),
                ("ty", toks(&x.ty)),
                ("expr", expr_j(&x.expr)),
                ("mut", J::Bool(matches!(x.mutability, StaticMutability::Mut(_)))),
                ("attrs", attrs_j(&x.attrs)),
            ],
        ),
        Item::Mod(x) => node(
            "Mod",
            sp,
            vec![
                ("name", s(x.ident.to_string())),
                ("vis", toks(&x.vis)),
                ("attrs", attrs_j(&x.attrs)),
                ("inline", J::Bool(x.content.is_some())),
                ("items", match &x.content {
                    Some((_, items)) => J::Arr(items.iter().map(item_j).collect()),
                    None => J::Null,
                }),
            ],
        ),
        Item::Use(x) => node("Use", sp, vec![("src", toks(x)), ("vis", toks(&x.vis))]),
        Item::Trait(x) => node(
            "Trait",
            sp,
            vec![("name", s(x.ident.to_string())), ("vis", toks(&x.vis)), ("src", toks(x))],
        ),
        Item::Type(x) => node("TypeAlias", sp, vec![("name", s(x.ident.to_string())), ("ty", toks(&x.ty))]),
        Item::Macro(x) => node("ItemMacro", sp, vec![("mac", macro_j(&x.mac, sp))]),
        Item::ExternCrate(x) => node("ExternCrate", sp, vec![("name", s(x.ident.to_string()))]),
        other => node("OtherItem", sp, vec![("src", toks(other))]),
    }
}

fn walk(dir: &std::path::Path, out: &mut Vec<std::path::PathBuf>) {
    let mut ents: Vec<_> = match std::fs::read_dir(dir) {
        Ok(r) => r.filter_map(|e| e.ok()).map(|e| e.path()).collect(),
        Err(_) => return,
    };
    ents.sort();
    for p in ents {
        if p.is_dir() {
            walk(&p, out);
        } else if p.extension().map(|e| e == "rs").unwrap_or(false) {
            out.push(p);
        }
    }
}

/// second mode: parse snippets handed over by the rule layer (one per line: `<id>\t<kind>\t<hex of utf-8 text>`),
/// kind = file | expr | stmts.  Output: JSON object id -> {"ok": ast} | {"err": message, "line": n}
fn snippets(inp: &str, outp: &str) {
    let text = std::fs::read_to_string(inp).expect("read snippets");
    let mut res: Vec<J> = vec![];
    for l in text.lines() {
        let parts: Vec<&str> = l.split('\t').collect();
        if parts.len() != 3 {
            continue;
        }
        let bytes: Vec<u8> = (0..parts[2].len() / 2).map(|i| u8::from_str_radix(&parts[2][2 * i..2 * i + 2], 16).unwrap_or(b'?')).collect();
        let src = String::from_utf8_lossy(&bytes).to_string();
        let r: std::result::Result<J, syn::Error> = match parts[1] {
            "file" => syn::parse_file(&src).map(|f| J::Arr(f.items.iter().map(item_j).collect())),
            "expr" => syn::parse_str::<Expr>(&src).map(|e| expr_j(&e)),
            _ => syn::parse_str::<Block>(&format!("{{{}}}", src)).map(|b| block_j(&b)),
        };
        let v = match r {
            Ok(j) => J::Obj(vec![("id", s(parts[0])), ("ok", j)]),
            Err(e) => J::Obj(vec![("id", s(parts[0])), ("err", s(e.to_string())), ("line", J::Num(e.span().start().line as i128))]),
        };
        res.push(v);
    }
    let mut out = String::new();
    J::Arr(res).write(&mut out);
    std::fs::write(outp, out).expect("write");
}

fn main() {
    let args: Vec<String> = std::env::args().collect();
    if args.len() == 4 && args[1] == "--snippets" {
        snippets(&args[2], &args[3]);
        return;
    }
    if args.len() != 3 {
        eprintln!("usage: synfacts <repo-root> <out.json>");
        std::process::exit(2);
    }
    let root = std::path::Path::new(&args[1]);
    let mut files: Vec<std::path::PathBuf> = vec![];
    walk(&root.join("kiki").join("src"), &mut files);
    let b = root.join("kiki").join("build.rs");
    if b.exists() {
        files.push(b);
    }
    let mut out_files: Vec<J> = vec![];
    let mut failed = false;
    for p in files {
        let rel = p.strip_prefix(root).unwrap().to_string_lossy().to_string();
        let text = match std::fs::read_to_string(&p) {
            Ok(t) => t,
            Err(e) => {
                eprintln!("cannot read {}: {}", rel, e);
                failed = true;
                continue;
            }
        };
        match syn::parse_file(&text) {
            Ok(f) => {
                out_files.push(J::Obj(vec![
                    ("path", s(rel)),
                    ("attrs", attrs_j(&f.attrs)),
                    ("items", J::Arr(f.items.iter().map(item_j).collect())),
                ]));
            }
            Err(e) => {
                eprintln!("cannot parse {}: {}", rel, e);
                failed = true;
            }
        }
    }
    if failed {
        std::process::exit(1);
    }
    let doc = J::Obj(vec![("files", J::Arr(out_files))]);
    let mut text = String::new();
    doc.write(&mut text);
    let tmp = format!("{}.tmp.{}", args[2], std::process::id());
    std::fs::write(&tmp, text).expect("write");
    std::fs::rename(&tmp, &args[2]).expect("rename");
}
