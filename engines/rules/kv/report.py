"""Result collection, known-findings handling, evidence and replay writers."""
import hashlib
import json
import os
import time

VERIF = os.path.abspath(os.path.join(os.path.dirname(__file__), "..", "..", ".."))

# dry mode: used by the thorough tier's checker self-test (seeded changes applied to a scratch copy):
# finish() then prints nothing and writes nothing, it only records what was found.
DRY = False
REPLAY = None  # (rule, key) of one violation to re-evaluate: ./check <id> --replay <file>
LAST = None
EXTRA_COVERAGE = {}


class Violation:
    def __init__(self, rule, key, where, msg, detail=None):
        self.rule = rule
        self.key = key  # no line numbers in here
        self.where = where  # file:line (diagnostic only)
        self.msg = msg
        self.detail = detail or {}


class Result:
    """Collects rule instances examined and violations found for one property run."""

    def __init__(self, prop, tier, level, seed=0):
        self.prop = prop
        self.tier = tier
        self.level = level
        self.seed = seed
        self.t0 = time.time()
        self.instances = []  # (rule, key, where, nontrivial, note)
        self.violations = []
        self.assumptions = []
        self.rules = {}  # rule -> description
        self.counts = {}
        self.notes = []
        self.floors = []  # (name, measured, floor)
        self.obligations = []  # (name, discharged: bool)
        self.extra = {}
        self.optional_rules = set()
        self.closed = False

    def rule(self, rid, text, optional=False):
        """register a rule; unless `optional`, a run in which the rule examined no instance at all fails closed"""
        self.rules[rid] = text
        if optional:
            self.optional_rules.add(rid)

    def close(self):
        """fail closed on rules that did not engage (called once by finish)"""
        if self.closed:
            return
        self.closed = True
        seen = {r for (r, k, w, nt, n) in self.instances} | {v.rule for v in self.violations}
        for rid in self.rules:
            if rid not in seen and rid not in self.optional_rules and rid != "floor":
                self.violate("floor", "rule-engaged|%s" % rid, "", "rule %s examined no instance on this tree: its anchors were not found (the rule no longer engages; fail closed)" % rid)

    def inst(self, rule, key, where="", nontrivial=True, note=""):
        self.instances.append((rule, key, where, nontrivial, note))

    def violate(self, rule, key, where, msg, detail=None):
        self.violations.append(Violation(rule, key, where, msg, detail))

    def unanalysable(self, rule, key, where, msg, detail=None):
        d = dict(detail or {})
        d["reason"] = "unanalysable"
        self.violations.append(Violation(rule, key + "#unanalysable", where, "unanalysable: " + msg, d))

    def floor(self, name, measured, floor):
        """fail closed when a rule matched fewer sites than the count that proves it engaged"""
        self.floors.append((name, measured, floor))
        if measured < floor:
            self.violate("floor", name, "", "rule anchor/instance count %d below floor %d: %s (the rule no longer engages; fail closed)" % (measured, floor, name),
                         {"measured": measured, "floor": floor})

    def oblige(self, name, ok):
        self.obligations.append((name, bool(ok)))

    def assume(self, text):
        if text not in self.assumptions:
            self.assumptions.append(text)

    def count(self, name, n):
        self.counts[name] = n


def load_known():
    p = os.path.join(VERIF, "known_findings.json")
    if not os.path.exists(p):
        return []
    with open(p) as f:
        return json.load(f)


def finish(res, explanation, checker_cmd=None, trusted_base=None, tv=None):
    """Print verdict lines, write evidence + replay files, return exit code."""
    global LAST
    res.close()
    if DRY:
        known_keys0 = {(k["rule"], k["key"]) for k in load_known() if k.get("property") == res.prop and k.get("status") == "open"}
        LAST = [v for v in res.violations if (v.rule, v.key) not in known_keys0]
        return 1 if LAST else 0
    if REPLAY is not None:
        hit = [v for v in res.violations if (v.rule, v.key) == REPLAY]
        if hit:
            v = hit[0]
            print("%s: %s: %s [%s]" % (v.where or "-", v.rule, v.msg, v.key))
            print("REPLAY property=%s rule=%s key=%s: still violated" % (res.prop, v.rule, v.key))
            return 1
        print("REPLAY property=%s rule=%s key=%s: no longer violated on this tree" % ((res.prop,) + REPLAY))
        return 0
    known = [k for k in load_known() if k.get("property") == res.prop and k.get("status") == "open"]
    known_keys = {(k["rule"], k["key"]): k for k in known}
    ev_dir = os.path.join(VERIF, "evidence")
    rp_dir = os.path.join(ev_dir, "replay")
    os.makedirs(rp_dir, exist_ok=True)
    # remove stale replay files of this property
    for fn in os.listdir(rp_dir):
        if fn.startswith(res.prop + "-"):
            try:
                os.unlink(os.path.join(rp_dir, fn))
            except OSError:
                pass
    new_violations = []
    known_hit = []
    seen = set()
    for v in res.violations:
        if (v.rule, v.key) in seen:
            continue
        seen.add((v.rule, v.key))
        if (v.rule, v.key) in known_keys:
            known_hit.append(v)
        else:
            new_violations.append(v)
    for v in known_hit:
        k = known_keys[(v.rule, v.key)]
        print("KNOWN-FINDING: property=%s %s [%s %s] %s" % (res.prop, k.get("what", v.msg), v.rule, v.key, v.where))
    for v in new_violations:
        h = hashlib.sha256((v.rule + "|" + v.key).encode()).hexdigest()[:12]
        rp = os.path.join(rp_dir, "%s-%s-%s.json" % (res.prop, v.rule, h))
        with open(rp, "w") as f:
            json.dump({"property": res.prop, "rule": v.rule, "rule_text": res.rules.get(v.rule, ""), "key": v.key,
                       "where": v.where, "message": v.msg, "detail": v.detail}, f, indent=1, default=str)
        print("%s: %s: %s [%s]" % (v.where or "-", v.rule, v.msg, v.key))
        print("VIOLATION property=%s replay=%s" % (res.prop, rp))

    distinct_nontrivial = len({(r, k) for (r, k, w, nt, n) in res.instances if nt})
    samples = []
    per_rule = {}
    for (r, k, w, nt, n) in res.instances:
        per_rule.setdefault(r, 0)
        per_rule[r] += 1
    shown = {}
    for (r, k, w, nt, n) in res.instances:
        if shown.get(r, 0) < 3:
            shown[r] = shown.get(r, 0) + 1
            samples.append({"rule": r, "instance": k, "where": w, "note": n})
    cov = {
        "explanation": explanation,
        "evaluations": len(res.instances),
        "distinct_nontrivial": distinct_nontrivial,
        "rule": "one evaluation = one rule instance (site, path, cell or obligation) examined in the source of /repo; non-trivial = the instance exercised a rule's deciding branch (not a vacuous match); distinct = distinct (rule, instance key)",
        "samples": samples[:60],
        "rules": res.rules,
        "instances_per_rule": per_rule,
        "analysed": res.counts,
        "floors": [{"name": n, "measured": m, "floor": fl} for (n, m, fl) in res.floors],
        "known_findings_reported": [{"rule": v.rule, "key": v.key} for v in known_hit],
        "violation_list": [{"rule": v.rule, "key": v.key, "where": v.where, "msg": v.msg} for v in new_violations],
        "notes": res.notes,
    }
    cov.update(res.extra)
    cov.update(EXTRA_COVERAGE)
    if res.level == "proof":
        obl = res.obligations
        cov["obligations"] = len(obl)
        cov["discharged"] = sum(1 for (_, ok) in obl if ok)
        cov["obligation_list"] = [{"name": n, "discharged": ok} for (n, ok) in obl]
        cov["checker_cmd"] = checker_cmd or ("./check %s" % res.prop)
        cov["trusted_base"] = trusted_base or []
    if res.level == "translation_validation" and tv:
        cov.update(tv)
    ev = {
        "property_id": res.prop,
        "tier": res.tier,
        "seed": res.seed,
        "level": res.level,
        "coverage": cov,
        "assumptions": res.assumptions,
        "wall_s": round(time.time() - res.t0, 3),
        "violations": len(new_violations),
    }
    with open(os.path.join(ev_dir, res.prop + ".json"), "w") as f:
        json.dump(ev, f, indent=1, default=str)
    if new_violations:
        return 1
    print("OK property=%s tier=%s rule-instances=%d distinct-nontrivial=%d known-findings=%d" % (
        res.prop, res.tier, len(res.instances), distinct_nontrivial, len(known_hit)))
    return 0
