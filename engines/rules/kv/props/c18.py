"""C18 — the public ordered-set type behaves as a sorted mathematical set.

Proof by representation invariant I: the private vector is strictly ascending.
Decided on MIR facts: encapsulation (who may write the vector), every mutator re-establishes I,
observers are functions of the vector. Thorough tier adds compile-fail witnesses.
"""
import json
import os
import re
import shutil

from ..mir import Mir, Exprs, strip_transparent, borrow_root, place_str, reach_from
from ..report import Result, finish

SET_NAME = "Oset"

SORTS_FULL = ("std::slice::<impl [T]>::sort", "core::slice::<impl [T]>::sort_unstable")
SORTS_BY = ("std::slice::<impl [T]>::sort_by", "core::slice::<impl [T]>::sort_unstable_by")
DEDUPS = ("std::vec::Vec::<T, A>::dedup",)
BULK_WRITES = (
    "<std::vec::Vec<T, A> as std::iter::Extend<T>>::extend",
    "std::vec::Vec::<T, A>::append",
    "std::vec::Vec::<T, A>::push",
    "std::vec::Vec::<T, A>::extend_from_slice",
    "std::vec::Vec::<T, A>::extend_from_within",
    "std::vec::Vec::<T, A>::resize",
)
SINGLE_INSERT = "std::vec::Vec::<T, A>::insert"
# mutators that cannot break strict ascent (they only remove elements, keeping relative order)
ORDER_SAFE_MUT = (
    "std::vec::Vec::<T, A>::clear",
    "std::vec::Vec::<T, A>::truncate",
    "std::vec::Vec::<T, A>::pop",
    "std::vec::Vec::<T, A>::remove",
    "std::vec::Vec::<T, A>::shrink_to_fit",
    "std::vec::Vec::<T, A>::reserve",
    "std::vec::Vec::<T, A>::retain",
)
BINSEARCH = "core::slice::<impl [T]>::binary_search"


def find_set_adt(mir):
    c = [a for p, a in mir.adts.items() if p.rsplit("::", 1)[-1] == SET_NAME and a["pub"]]
    return c[0] if len(c) == 1 else None


def is_vec_place(pl, set_path, vec_local=None):
    """place denotes the vector: (*self).raw / self.raw, or the designated local"""
    if vec_local is not None and pl["l"] == vec_local and not pl["p"]:
        return True
    fs = [e for e in pl["p"] if isinstance(e, dict) and "f" in e]
    return len(fs) == 1 and fs[0].get("owner") == set_path and all(e == "deref" or (isinstance(e, dict) and "f" in e) for e in pl["p"])


def vec_events(fn, set_path, vec_local=None):
    """calls (in CFG order of blocks) that receive a borrow (or the value) of the vector"""
    ev = []
    for c in fn.calls():
        for ai, a in enumerate(c.args):
            if a["k"] not in ("copy", "move"):
                continue
            root, via = borrow_root(fn, a)
            if root is None or isinstance(via, str):
                continue
            if is_vec_place(root, set_path, vec_local):
                ty = fn.local_ty(a["pl"]["l"]) if not a["pl"]["p"] else None
                mutable = bool(ty and ty.get("mut_ref")) or (ty is not None and ty["refs"] == 0)
                ev.append({"call": c, "arg": ai, "via": via, "mutable": mutable, "byvalue": bool(ty and ty["refs"] == 0)})
    return ev


def check_bulk(fn, set_path, res, rule="R-C18-bulk"):
    """every bulk write of the vector is followed on every path by full sort then dedup, nothing after"""
    # the vector: field of self, or the local moved into the aggregate
    vec_local = None
    for b in fn.blocks:
        for st in b["stmts"]:
            if st["k"] == "assign" and st["rv"]["k"] == "agg" and st["rv"].get("adt") == set_path:
                op = st["rv"]["ops"][0]
                # follow one move
                if op["k"] in ("copy", "move") and not op["pl"]["p"]:
                    l = op["pl"]["l"]
                    ds = fn.defs(l)
                    if len(ds) == 1 and ds[0][0] == "assign" and ds[0][3]["rv"]["k"] == "use" and ds[0][3]["rv"]["op"]["k"] in ("copy", "move") and not ds[0][3]["rv"]["op"]["pl"]["p"]:
                        l = ds[0][3]["rv"]["op"]["pl"]["l"]
                    vec_local = l
    evs = vec_events(fn, set_path, vec_local)
    key = fn.path
    writes, sorts, dedups, others = [], [], [], []
    # a definition of the local vector by a call (collect / Vec::from / ...) is a bulk write, too
    if vec_local is not None:
        for d in fn.defs(vec_local):
            if d[0] == "call":
                writes.append(("def:" + str(fn.call_at(d[1]).rpath), d[1]))
            elif d[0] == "assign":
                rv = d[3]["rv"]
                writes.append(("def:assign", d[1]))
    for e in evs:
        c = e["call"]
        p = c.rpath
        full = e["via"] in ([], ["<std::vec::Vec<T, A> as std::ops::DerefMut>::deref_mut"]) and e["arg"] == 0
        if p in SORTS_FULL and full:
            sorts.append(c)
        elif p in SORTS_BY and full and is_ord_cmp(fn, c):
            sorts.append(c)
        elif p in DEDUPS and full:
            dedups.append(c)
        elif p in BULK_WRITES and e["arg"] == 0:
            writes.append((p, c.bb))
        elif not e["mutable"]:
            continue  # shared borrow: read only
        elif p == "<std::vec::Vec<T, A> as std::ops::DerefMut>::deref_mut":
            continue  # accounted for through `via` of the consumer
        else:
            others.append(c)
    res.inst(rule, key, fn.where, True, "writes=%s sorts=%d dedups=%d other-mut=%d" % ([w[0] for w in writes], len(sorts), len(dedups), len(others)))
    ok = True
    if not writes:
        res.unanalysable(rule, key, fn.where, "no bulk write of the vector recognised in a function classified as bulk writer")
        return False
    pdom = fn.postdominators()
    good_pair = None
    for s_ in sorts:
        for d_ in dedups:
            if d_.bb in pdom.get(s_.bb, ()) and d_.bb != s_.bb:
                good_pair = (s_, d_)
    if good_pair is None:
        res.violate(rule, key + "|no-sort-dedup", fn.where,
                    "bulk write of the set's vector is not followed by a full sort and then dedup on every path (strict ascent not re-established)",
                    {"writes": [w[0] for w in writes], "sorts": [c.where for c in sorts], "dedups": [c.where for c in dedups]})
        return False
    s_, d_ = good_pair
    for (wname, wbb) in writes:
        if not (s_.bb in pdom.get(wbb, ()) and s_.bb != wbb):
            res.violate(rule, key + "|write-not-covered|" + wname, fn.where,
                        "a path from the bulk write `%s` reaches the exit without passing the sort (sort does not post-dominate the write)" % wname)
            ok = False
    after = reach_from(fn, [s_.bb])
    for (wname, wbb) in writes:
        if wbb in after:
            res.violate(rule, key + "|write-after-sort|" + wname, fn.where, "the vector is written (`%s`) after it was sorted" % wname)
            ok = False
    for c in others:
        res.violate(rule, key + "|other-mut|" + str(c.rpath), c.where,
                    "unclassified mutable use of the set's vector (`%s`): cannot show strict ascent is preserved (a partial sort / sub-slice borrow lands here)" % c.rpath)
        ok = False
    return ok


def is_ord_cmp(fn, c):
    if len(c.args) < 2:
        return False
    a = c.args[1]
    return a["k"] == "const" and "fn" in a and a["fn"]["path"] == "std::cmp::Ord::cmp"


def check_insert(fn, set_path, res, rule="R-C18-insert"):
    key = fn.path
    evs = vec_events(fn, set_path)
    ex = Exprs(fn)
    inserts = []
    ok = True
    for e in evs:
        c = e["call"]
        p = c.rpath
        if not e["mutable"]:
            continue
        if p == "<std::vec::Vec<T, A> as std::ops::DerefMut>::deref_mut":
            continue
        if p == SINGLE_INSERT and e["arg"] == 0 and e["via"] == []:
            inserts.append(c)
        elif p in ORDER_SAFE_MUT:
            continue
        else:
            res.violate(rule, key + "|other-write|" + str(p), c.where,
                        "the single-element mutator writes the vector through `%s`, which is not the positional insert at the binary-search miss index" % p)
            ok = False
    res.inst(rule, key, fn.where, True, "positional inserts=%d" % len(inserts))
    if not inserts and ok:
        # no write at all: trivially preserves I (but then it is no insert); accept
        return ok
    cd = fn.control_deps()
    for c in inserts:
        idx = strip_transparent(ex.operand(c.args[1]))
        item = strip_transparent(ex.operand(c.args[2]))
        good = False
        # index must be Err payload of binary_search(vector, &item)
        if idx.k == "field" and idx.a[0].k == "downcast" and idx.a[0].a[1] == "Err":
            src = idx.a[0].a[0]
            if src.k == "call" and src.a[0] == BINSEARCH:
                bs = src.site
                root, via = borrow_root(fn, bs.args[0])
                needle = strip_transparent(ex.operand(bs.args[1]))
                if root is not None and is_vec_place(root, set_path) and repr(needle) == repr(item) and item.k == "param":
                    # the insert must be control dependent on the Err arm of that very result
                    good = any(fn.blocks[a]["term"]["k"] == "switch" for (a, s_) in cd.get(c.bb, ()))
        if not good:
            res.violate(rule, key + "|insert-index", c.where,
                        "Vec::insert index is not the Err payload of binary_search(&item) on the same vector (index expr: %r, item: %r)" % (idx, item))
            ok = False
    return ok


def check(ctx):
    tier = ctx["tier"]
    res = Result("C18", tier, "proof", ctx["seed"])
    mir = Mir(ctx["facts"]["mir"])
    run_rules(mir, res)
    if tier == "thorough":
        witnesses(ctx, res)
    return finish(
        res,
        "Representation-invariant proof over MIR facts: (1) only functions inside the set's own impls touch the private vector and every one of them is classified; (2) bulk writers sort the whole vector and dedup on every path; (3) the single-element writer inserts at the binary-search miss index only; (4) observers are computed from the vector alone and comparison traits are derived over the single field. Strict ascent then holds after every operation sequence, and a strictly ascending vector is canonical for its element set.",
        checker_cmd="./check C18 --tier " + tier,
        trusted_base=["rustc nightly MIR + Instance resolution", "std contracts of sort/sort_unstable/dedup/binary_search/Vec::insert",
                      "lawful Ord on elements, no interior mutation through &T", "Rust privacy and borrow rules (no unsafe in the module: checked)"],
    )


def run_rules(mir, res):
    res.rule("R-C18-encap", "the set has exactly one private field; every function that touches it lies in the set's impls and is classified (constructor / bulk / insert / observer / derived); no DerefMut/AsMut/BorrowMut/IndexMut impl; no method taking &mut self outside the verified mutators; no unsafe")
    res.rule("R-C18-bulk", "in every bulk writer each write of the vector is post-dominated by a full sort (sort/sort_unstable/sort_by(Ord::cmp) on the whole vector) followed by dedup, with no write after the sort")
    res.rule("R-C18-insert", "the only single-element write is Vec::insert(i, x) with i the Err payload of binary_search(&x) on the same vector")
    res.rule("R-C18-observe", "contains is binary_search(..).is_ok() or slice::contains on the vector; iteration/Deref hand out the vector's own iterators/slice; PartialEq/Eq/PartialOrd/Ord/Hash are derived")
    adt = find_set_adt(mir)
    if adt is None:
        res.floor("anchor: public ADT named Oset", 0, 1)
        return
    set_path = adt["path"]
    fields = [f for v in adt["variants"] for f in v["fields"]]
    ok = len(fields) == 1 and not fields[0]["pub"] and fields[0]["vis"].startswith("Restricted")
    res.inst("R-C18-encap", "field-private", res_where(adt), True, "fields=%s" % [(f["name"], f["vis"]) for f in fields])
    res.oblige("encap: single private field", ok)
    if not ok:
        res.violate("R-C18-encap", "field-visibility", res_where(adt), "the ordered set must have exactly one field and it must be private: %s" % [(f["name"], f["vis"]) for f in fields])
        return
    # visibility must be restricted to the defining module (not pub(crate))
    vis = fields[0]["vis"]
    modkey = adt["key"].rsplit("::", 1)[0]
    if "DefId" in vis:
        # Restricted(DefId(0:NN ~ kiki[..]::data::oset)) -> the module path is printed at the end
        if not vis.rstrip(")").endswith(modkey.replace("::", "::")[2:] if modkey.startswith("::") else modkey):
            res.violate("R-C18-encap", "field-visibility-scope", res_where(adt), "field is visible beyond the defining module: " + vis)
            res.oblige("encap: field restricted to module", False)
        else:
            res.oblige("encap: field restricted to module", True)

    # forbidden impls
    bad_traits = ("std::ops::DerefMut", "std::convert::AsMut", "std::borrow::BorrowMut", "std::ops::IndexMut")
    n_impls = 0
    bad = False
    for im in mir.impls:
        if im["self_ty"]["head"] != set_path:
            continue
        n_impls += 1
        tr = im.get("trait")
        if tr in bad_traits:
            res.violate("R-C18-encap", "impl|" + tr, parse_where(im), "impl of %s for the ordered set hands out mutable access to the sorted vector" % tr)
            bad = True
        # &mut Oset: IntoIterator yields &mut T
        if tr == "std::iter::IntoIterator" and im["self_ty"].get("mut_ref"):
            res.violate("R-C18-encap", "impl|IntoIterator-for-&mut", parse_where(im), "IntoIterator for &mut set hands out &mut elements")
            bad = True
    res.inst("R-C18-encap", "impls-scanned", "", True, "%d impls with the set as self type" % n_impls)
    res.oblige("encap: no mutable-access trait impl", not bad)
    res.floor("impls of the ordered set", n_impls, 3)

    # classify every function that touches the field or aggregates the type
    touch = []
    for fn in mir.fns.values():
        t = touches(fn, set_path)
        if t:
            touch.append((fn, t))
    res.count("functions touching the vector", len(touch))
    res.floor("functions touching the vector", len(touch), 4)
    set_methods = [fn for fn in mir.fns.values() if fn.impl and fn.impl["self_ty"]["head"] == set_path and fn.kind == "AssocFn"]
    res.count("methods in the set's impls", len(set_methods))
    derived_ok = {"std::clone::Clone", "std::cmp::PartialEq", "std::cmp::Eq", "std::cmp::PartialOrd", "std::cmp::Ord", "std::hash::Hash", "std::fmt::Debug"}
    classified = {}
    for fn, t in touch:
        if fn.impl is None or fn.impl["self_ty"]["head"] != set_path:
            # closures inside methods of the set are attributed to their root
            root = mir.fns.get(fn.root) if fn.root else None
            if not (root and root.impl and root.impl["self_ty"]["head"] == set_path):
                res.violate("R-C18-encap", "outside-writer|" + fn.path, fn.where, "function outside the set's impls touches the private vector (%s)" % ",".join(sorted(t)))
                continue
        if fn.derived:
            if fn.trait in derived_ok:
                classified[fn.key] = "derived:" + fn.trait
                res.inst("R-C18-observe", "derived|" + fn.trait, fn.where, True, "derived over the single field")
            else:
                res.violate("R-C18-encap", "derived|" + str(fn.trait), fn.where, "unexpected derive touching the vector")
            continue
        cls = classify(fn, t, set_path, mir)
        classified[fn.key] = cls
        res.inst("R-C18-encap", "classified|" + fn.path, fn.where, True, cls)
        if cls == "empty-constructor":
            res.oblige("ctor %s establishes I (empty vector)" % fn.path, True)
        elif cls == "bulk":
            res.oblige("bulk %s re-establishes I" % fn.path, check_bulk(fn, set_path, res))
        elif cls == "insert":
            res.oblige("insert %s preserves I" % fn.path, check_insert(fn, set_path, res))
        elif cls.startswith("observer"):
            res.oblige("observer %s reads only" % fn.path, check_observer(fn, set_path, res, cls))
        elif cls == "consume":
            res.oblige("consumer %s moves the vector out" % fn.path, True)
        else:
            res.violate("R-C18-encap", "unclassified|" + fn.path, fn.where, "function touches the private vector in a way the proof does not cover: " + cls)
            res.oblige("classify " + fn.path, False)
    # every &mut self method must be one of the verified mutators
    for fn in set_methods:
        if fn.derived:
            continue
        if fn.inputs and fn.inputs[0].get("mut_ref") and fn.inputs[0]["head"] == set_path:
            if classified.get(fn.key) not in ("bulk", "insert"):
                res.violate("R-C18-encap", "mut-method|" + fn.path, fn.where, "method takes &mut self but is not a verified mutator (classified: %s)" % classified.get(fn.key))
        if fn.output and fn.output.get("mut_ref"):
            res.violate("R-C18-encap", "mut-return|" + fn.path, fn.where, "method returns a type containing &mut: " + fn.output["s"])
        if fn.output and any("IterMut" in a or "Drain" in a for a in fn.output["adts"]):
            res.violate("R-C18-encap", "mut-iter-return|" + fn.path, fn.where, "method returns a mutable iterator: " + fn.output["s"])
        if fn.j.get("unsafe"):
            res.violate("R-C18-encap", "unsafe-fn|" + fn.path, fn.where, "unsafe fn in the set's impl")
    # comparison traits must be derived (or absent), never hand-written
    for im in mir.impls:
        if im["self_ty"]["head"] != set_path:
            continue
        tr = im.get("trait")
        if tr in ("std::cmp::PartialEq", "std::cmp::Eq", "std::cmp::PartialOrd", "std::cmp::Ord", "std::hash::Hash"):
            res.inst("R-C18-observe", "cmp-impl|" + tr, parse_where(im), True, "derived=%s" % im["derived"])
            res.oblige("comparison impl %s is derived" % tr, im["derived"])
            if not im["derived"]:
                res.violate("R-C18-observe", "handwritten|" + tr, parse_where(im), "hand-written %s for the ordered set: equality/order must be the derived one over the canonical vector" % tr)
    # unsafe calls inside the module
    for fn in set_methods:
        for c in fn.calls():
            if c.callee and c.callee.get("unsafe") and not (c.exp and not c.term["span"].get("def_site_local", True)):
                res.violate("R-C18-encap", "unsafe-call|" + fn.path + "|" + str(c.rpath), c.where, "call of an unsafe function inside the set's impl")
    # the crate's own element types: the proof trusts "a lawful Ord on elements" for foreign T; for every local type
    # the crate itself stores in the set, the order and the equality must agree (cmp == Equal iff ==), which the
    # derives guarantee and a hand-written impl guarantees only if it reads every field the other one reads
    ELEM = "R-C18-elem"
    res.rule(ELEM, "every local type stored in the ordered set has PartialEq/Eq/PartialOrd/Ord all derived, or hand-written impls that read the same fields as the derived / hand-written counterpart (order and equality agree)")
    inst = set()
    pat = re.compile(re.escape(set_path) + r"<([^<>]*(?:<[^<>]*>)?[^<>]*)>")
    for fn in mir.fns.values():
        for l in fn.locals:
            for mm in pat.finditer(l["ty"]["s"]):
                inst.add(mm.group(1).lstrip("&").strip())
    for a in mir.adts.values():
        for v in a.get("variants", []):
            for fl in v["fields"]:
                for mm in pat.finditer(fl["ty"]["s"]):
                    inst.add(mm.group(1).lstrip("&").strip())
    local_elems = sorted(x for x in inst if x in mir.adts)
    res.count("local element types of the set", len(local_elems))
    for T in local_elems:
        adt_t = mir.adts[T]
        all_fields = sorted({f["name"] for v in adt_t.get("variants", []) for f in v["fields"]})
        impls_t = {im.get("trait"): im for im in mir.impls if im["self_ty"]["head"] == T and im.get("trait") in ("std::cmp::PartialEq", "std::cmp::Eq", "std::cmp::PartialOrd", "std::cmp::Ord")}
        hand = sorted(tr for tr, im in impls_t.items() if not im["derived"])
        read = {}
        for tr in hand:
            if tr == "std::cmp::Eq":
                continue
            fs_ = set()
            for fn in mir.fns.values():
                if fn.impl and fn.impl.get("key") == impls_t[tr]["key"] or (fn.kind == "Closure" and fn.parent and mir.fns.get(fn.parent) is not None and mir.fns[fn.parent].impl and mir.fns[fn.parent].impl.get("key") == impls_t[tr]["key"]):
                    for b in fn.blocks:
                        for s_ in b["stmts"]:
                            for m_ in re.finditer(r'"name": "(\w+)", "owner": "%s"' % re.escape(T), json.dumps(s_)):
                                fs_.add(m_.group(1))
                        for m_ in re.finditer(r'"name": "(\w+)", "owner": "%s"' % re.escape(T), json.dumps(b["term"])):
                            fs_.add(m_.group(1))
            read[tr] = sorted(fs_)
        ok_t = all(read[tr] == all_fields for tr in read)
        # the two orders agree: PartialOrd and Ord are derived together, or the hand-written pair delegates one to the other
        ho, hp = "std::cmp::Ord" in hand, "std::cmp::PartialOrd" in hand
        order_split = None
        if ho != hp and "std::cmp::Ord" in impls_t and "std::cmp::PartialOrd" in impls_t:
            order_split = "Ord is %s while PartialOrd is %s" % ("hand-written" if ho else "derived", "hand-written" if hp else "derived")
        elif ho and hp:
            deleg = False
            for fn in mir.fns.values():
                if fn.impl and fn.impl.get("key") in (impls_t["std::cmp::PartialOrd"]["key"], impls_t["std::cmp::Ord"]["key"]):
                    rr = canon_(fn)
                    if re.search(r"(Ord|PartialOrd)[@\w]*::(cmp|partial_cmp)\(param1, param2\)", rr):
                        deleg = True
            if not deleg:
                order_split = "hand-written Ord and PartialOrd do not delegate one to the other"
        if order_split:
            res.oblige("element type %s: one order" % T, False)
            res.violate(ELEM, "element|%s|order-split" % T, res_where(adt_t), "`%s` is stored in the ordered set but %s: the set sorts with one order (`<`) and searches with the other (`cmp`), so members are reported absent and re-inserted" % (T.rsplit("::", 1)[-1], order_split))
        res.inst(ELEM, "element|" + T, res_where(adt_t), True, "comparison impls %s; hand-written: %s reading %s; fields %s" % (sorted(x.rsplit("::", 1)[-1] for x in impls_t), [h.rsplit("::", 1)[-1] for h in hand], read, all_fields))
        res.oblige("element type %s: order and equality agree" % T, ok_t)
        if not ok_t:
            bad_tr = [tr for tr in read if read[tr] != all_fields][0]
            res.violate(ELEM, "element|%s|%s" % (T, bad_tr.rsplit("::", 1)[-1]), res_where(adt_t), "`%s` is stored in the ordered set but its hand-written %s reads only %s of the fields %s while the other comparison impls cover all of them: two values can compare Equal without being ==, so `Oset<%s>` keeps both on bulk construction and drops one on insert (it no longer behaves as a set)" % (T.rsplit("::", 1)[-1], bad_tr.rsplit("::", 1)[-1], read[bad_tr], all_fields, T.rsplit("::", 1)[-1]))
    res.floor("local element types of the set", len(local_elems), 3)
    kinds = sorted(set(classified.values()))
    res.count("classification kinds", len(kinds))
    res.extra["classification"] = {mir.fns[k].path: v for k, v in classified.items()}
    n_bulk = sum(1 for v in classified.values() if v == "bulk")
    n_ins = sum(1 for v in classified.values() if v == "insert")
    res.floor("bulk writers verified", n_bulk, 1)
    res.floor("single-element writers verified", n_ins, 1)


def canon_(fn):
    from ..mir import canon
    return canon(Exprs(fn).local(0))


def res_where(adt):
    from ..mir import parse_at
    f, l = parse_at(adt["span"]["at"])
    return "%s:%d" % (f, l)


def parse_where(im):
    from ..mir import parse_at
    f, l = parse_at(im["span"]["at"])
    return "%s:%d" % (f, l)


def touches(fn, set_path):
    t = set()
    for b in fn.blocks:
        if b["cleanup"]:
            continue
        for st in b["stmts"]:
            if st["k"] != "assign":
                continue
            if _pl_touches(st["pl"], set_path):
                t.add("write")
            rv = st["rv"]
            if rv["k"] == "agg" and rv.get("adt") == set_path:
                t.add("aggregate")
            if rv["k"] == "ref" and _pl_touches(rv["pl"], set_path):
                t.add("borrow-mut" if rv["bk"] == "mut" else "borrow")
            if rv["k"] == "rawptr" and _pl_touches(rv["pl"], set_path):
                t.add("rawptr")
            for fld in ("op",):
                if fld in rv and isinstance(rv[fld], dict) and rv[fld]["k"] in ("copy", "move") and _pl_touches(rv[fld]["pl"], set_path):
                    t.add("move-out" if rv[fld]["k"] == "move" else "copy-out")
            if rv["k"] == "agg":
                for o in rv["ops"]:
                    if o["k"] in ("copy", "move") and _pl_touches(o["pl"], set_path):
                        t.add("move-out")
        tm = b["term"]
        if tm["k"] == "call":
            for a in tm["args"]:
                if a["k"] in ("copy", "move") and _pl_touches(a["pl"], set_path):
                    t.add("move-out")
            if _pl_touches(tm["dest"], set_path):
                t.add("write")
    return t


def _pl_touches(pl, set_path):
    return any(isinstance(e, dict) and "f" in e and e.get("owner") == set_path for e in pl["p"])


def classify(fn, t, set_path, mir):
    ex = Exprs(fn)
    if "rawptr" in t:
        return "raw pointer to the vector"
    if "aggregate" in t and not (t - {"aggregate"}):
        # what is the operand?
        for b in fn.blocks:
            for st in b["stmts"]:
                if st["k"] == "assign" and st["rv"]["k"] == "agg" and st["rv"].get("adt") == set_path:
                    e = strip_transparent(ex.operand(st["rv"]["ops"][0]))
                    # the local that becomes the vector: any mutable use between its creation and the
                    # aggregate makes this a bulk writer, whatever it was created from
                    op0 = st["rv"]["ops"][0]
                    vl = None
                    if op0["k"] in ("copy", "move") and not op0["pl"]["p"]:
                        vl = op0["pl"]["l"]
                        ds = fn.defs(vl)
                        if len(ds) == 1 and ds[0][0] == "assign" and ds[0][3]["rv"]["k"] == "use" and ds[0][3]["rv"]["op"]["k"] in ("copy", "move") and not ds[0][3]["rv"]["op"]["pl"]["p"]:
                            vl = ds[0][3]["rv"]["op"]["pl"]["l"]
                    mutated = vl is not None and any(ev["mutable"] for ev in vec_events(fn, set_path, vl))
                    if mutated:
                        return "bulk"
                    if e.k == "call" and e.a[0] in ("std::vec::Vec::<T>::new", "std::vec::Vec::<T>::with_capacity") :
                        return "empty-constructor"
                    if e.k == "agg" and e.a[0] == "array" and not e.a[2]:
                        return "empty-constructor"
                    return "bulk"
    if "borrow-mut" in t or "write" in t:
        evs = vec_events(fn, set_path)
        paths = {e["call"].rpath for e in evs if e["mutable"]}
        if any(p in BULK_WRITES for p in paths):
            return "bulk"
        return "insert"
    if "move-out" in t and not (t - {"move-out"}):
        return "consume"
    if t <= {"borrow", "copy-out"}:
        return "observer:" + (fn.name or "?")
    return "unknown:" + ",".join(sorted(t))


def check_observer(fn, set_path, res, cls):
    rule = "R-C18-observe"
    name = fn.name
    ex = Exprs(fn)
    ret = ex.local(0)
    key = fn.path
    ok = True
    if fn.output and fn.output["s"] == "bool":
        # membership: binary_search(vec, item).is_ok()  or  <[T]>::contains(vec, item)
        e = strip_transparent(ret)
        good = False
        if e.k == "call" and e.a[0] == "std::result::Result::<T, E>::is_ok":
            inner = strip_transparent(e.a[1][0])
            if inner.k == "call" and inner.a[0] == BINSEARCH:
                root, via = borrow_root(fn, inner.site.args[0])
                needle = strip_transparent(ex.operand(inner.site.args[1]))
                good = root is not None and is_vec_place(root, set_path) and needle.k == "param"
        elif e.k == "call" and e.a[0] == "core::slice::<impl [T]>::contains":
            root, via = borrow_root(fn, e.site.args[0])
            needle = strip_transparent(ex.operand(e.site.args[1]))
            good = root is not None and is_vec_place(root, set_path) and needle.k == "param"
        res.inst(rule, "membership|" + key, fn.where, True, repr(e)[:200])
        if not good:
            res.unanalysable(rule, "membership|" + key, fn.where, "boolean observer is neither binary_search(item).is_ok() nor slice::contains(item) on the vector: %r" % e)
            ok = False
        return ok
    # other observers: must only hand out views/iterators of the vector itself
    e = strip_transparent(ret)
    allowed_views = ("core::slice::<impl [T]>::iter", "core::slice::iter::<impl std::iter::IntoIterator for &'a [T]>::into_iter",
                     "<&'a std::vec::Vec<T, A> as std::iter::IntoIterator>::into_iter", "core::slice::<impl [T]>::len", "std::vec::Vec::<T, A>::len",
                     "std::vec::Vec::<T, A>::is_empty", "core::slice::<impl [T]>::is_empty", "core::slice::<impl [T]>::first", "core::slice::<impl [T]>::last",
                     "core::slice::<impl [T]>::get")
    good = False
    if e.k == "field" and e.a[2] == set_path:
        good = True  # a view of the field itself (Deref)
    elif e.k == "call" and e.a[0] in allowed_views:
        inner = strip_transparent(e.a[1][0])
        good = inner.k == "field" and inner.a[2] == set_path
    res.inst(rule, "view|" + key, fn.where, True, repr(e)[:200])
    if not good:
        res.unanalysable(rule, "view|" + key, fn.where, "observer result is not a plain view/iterator of the vector: %r" % e)
        ok = False
    return ok


# ------------------------------------------------------------------ compile-fail witnesses (thorough)

WITNESS_LIB = '''//! Compile-fail witnesses for kiki::Oset (generated by /verif/engines/rules/kv/props/c18.py).
//! Every witness has a compiling twin that differs only by the offending line.

/// twin: reading is fine
/// ```
/// let mut s: kiki::Oset<u32> = [3u32, 1, 2].into_iter().collect();
/// s.insert(0);
/// let _n = s.len();
/// let _first = s[0];
/// ```
///
/// private field
/// ```compile_fail,E0616
/// let mut s: kiki::Oset<u32> = [3u32, 1, 2].into_iter().collect();
/// s.insert(0);
/// let _n = s.raw.len();
/// ```
///
/// twin
/// ```
/// let s: kiki::Oset<u32> = [3u32, 1, 2].into_iter().collect();
/// let x = s[0]; let _ = x;
/// ```
///
/// no IndexMut / DerefMut: element assignment through the slice view
/// ```compile_fail,E0594
/// let mut s: kiki::Oset<u32> = [3u32, 1, 2].into_iter().collect();
/// s[0] = 9;
/// ```
///
/// twin
/// ```
/// let s: kiki::Oset<u32> = [3u32, 1, 2].into_iter().collect();
/// let _ = s.iter().count();
/// ```
///
/// no DerefMut: in-place slice mutators are unavailable
/// ```compile_fail,E0596
/// let mut s: kiki::Oset<u32> = [3u32, 1, 2].into_iter().collect();
/// s.reverse();
/// ```
///
/// twin
/// ```
/// let mut s: kiki::Oset<u32> = kiki::Oset::new();
/// s.insert(1);
/// ```
///
/// no Vec API: push does not exist on the set
/// ```compile_fail,E0599
/// let mut s: kiki::Oset<u32> = kiki::Oset::new();
/// s.push(1);
/// ```
///
/// twin
/// ```
/// let s: kiki::Oset<u32> = [1u32].into_iter().collect();
/// for x in &s { let _: &u32 = x; }
/// ```
///
/// no mutable iteration
/// ```compile_fail,E0277
/// let mut s: kiki::Oset<u32> = [1u32].into_iter().collect();
/// for x in &mut s { *x += 1; }
/// ```
///
/// twin
/// ```
/// let s: kiki::Oset<u32> = kiki::Oset::new();
/// let _ = s;
/// ```
///
/// no literal construction from outside
/// ```compile_fail,E0451
/// let s: kiki::Oset<u32> = kiki::Oset { raw: vec![2, 1] };
/// let _ = s;
/// ```
pub struct Witnesses;
'''


def witnesses(ctx, res):
    rule = "R-C18-witness"
    res.rule(rule, "compile_fail doc-tests from an external crate (field access E0616, slice element assignment E0594, in-place slice mutation E0596, Vec API E0599, &mut iteration E0277, literal construction E0451), each with a compiling twin")
    d = os.path.join(ctx["scratch"], "witness")
    os.makedirs(os.path.join(d, "src"), exist_ok=True)
    with open(os.path.join(d, "Cargo.toml"), "w") as f:
        f.write('[package]\nname = "oset_witness"\nversion = "0.0.0"\nedition = "2021"\n\n[workspace]\n\n[dependencies]\nkiki = { path = "%s" }\n' % os.path.join(ctx["repo"], "kiki"))
    with open(os.path.join(d, "src", "lib.rs"), "w") as f:
        f.write(WITNESS_LIB)
    lock = os.path.join(ctx["repo"], "Cargo.lock")
    if os.path.exists(lock):
        shutil.copy(lock, os.path.join(d, "Cargo.lock"))
    rc, out = ctx["run"](["cargo", "+nightly", "test", "--doc", "--offline"], cwd=d, env={"CARGO_TARGET_DIR": os.path.join(ctx["scratch"], "witness-target")}, timeout=1200)
    import re
    passed = len(re.findall(r"^test .* \.\.\. ok$", out, re.M))
    failed = re.findall(r"^test (.*) \.\.\. FAILED$", out, re.M)
    m = re.search(r"test result: (\w+)\. (\d+) passed; (\d+) failed", out)
    if m is None:
        res.unanalysable(rule, "witness-run", "", "doc-test run produced no result line: " + out[-1500:])
        return
    res.count("witness doctests passed", int(m.group(2)))
    for i in range(int(m.group(2))):
        res.inst(rule, "doctest#%d" % i, "", True, "compile_fail witness or compiling twin")
    res.oblige("compile-fail witnesses and twins (12 doc-tests)", int(m.group(3)) == 0 and int(m.group(2)) >= 12)
    if int(m.group(3)) != 0 or int(m.group(2)) < 12:
        for t in failed or ["?"]:
            res.violate(rule, "witness|" + re.sub(r"\(line \d+\)", "", t).strip(), "", "compile-fail witness (or its twin) did not behave as required: %s — encapsulation of the ordered set is broken\n%s" % (t, out[-1200:]))
