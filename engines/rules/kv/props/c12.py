"""C12 — outer attributes are reproduced verbatim on the matching emitted type."""
import re

from ..syn import Syn, nodes, ident_of, path_str, unparse, method_chain
from .. import tpl
from ..report import Result, finish
from ..flatten import check_flatteners
from .c03 import load_templates


def run_rules(ctx, res):
    SPAN, IMM, ORD, PLACE = "R-C12-span", "R-C12-immut", "R-C12-order", "R-C12-place"
    res.rule(SPAN, "the attribute token's text is src[s..e] with s the `#` and e just past the closing bracket: imported from C08 (attribute rows of R-C08-table incl. multi-byte classes, R-C08-abs, R-C08-stack, the finisher's emitted text)")
    res.rule(IMM, "the text field of the attribute type is written only where the attribute is aggregated in the tokenizer; it is never assigned, borrowed mutably or passed to a String mutator; it only flows through moves and Clone")
    res.rule(ORD, "the left-recursive attribute list becomes a vector by converting the left part first and appending the right element; the validated copies of the attribute vectors are plain clones")
    res.rule(PLACE, "the attribute printer emits each element's text followed by a newline, in iteration order, with no other text; it is called exactly at the sites where a user type definition is opened, with the attribute list of the same declaration whose name follows, and its placeholder immediately precedes `pub struct|enum {that name}`; every template opening a user type has such a placeholder; no other code reads an attribute list after validation")
    syn = Syn(ctx["facts"]["syn"], ctx.get("synfacts_bin"))
    # ---- span: C08 verdict
    from .c08 import run_rules as c08_rules
    from ..report import Result as R2
    r8 = R2("C08", "quick", "other")
    c08_rules(syn, r8)
    from .c08 import check_entry as c08_entry
    c08_entry(ctx, r8)  # the text the spans index is the caller's own text (generate tokenises its argument unmodified)
    bad = r8.violations
    res.inst(SPAN, "C08-verdict", "", True, "C08 rules: %d instances, %d violations" % (len(r8.instances), len(bad)))
    for v in bad[:6]:
        res.violate(SPAN, "c08|" + v.key, v.where, "attribute text extent is only byte-exact if the tokenizer's table holds; C08 fails: %s: %s" % (v.rule, v.msg[:300]))
    # ---- order
    n = check_flatteners(syn, res, ORD, only_target="Attribute")
    res.floor("attribute list conversion found", n, 1)
    # ---- MIR: immutability and readers
    from ..mir import Mir, Exprs, canon
    mir = Mir(ctx["facts"]["mir"])
    attr = [p for p in mir.adts if p.endswith("token::Attribute")]
    if len(attr) != 1:
        res.floor("anchor: attribute type", len(attr), 1)
        return
    attr = attr[0]
    text_field = "src"
    n_agg = 0
    readers = {}
    for fn in mir.fns.values():
        if fn.derived:
            continue
        ex = None
        for b in fn.blocks:
            if b["cleanup"]:
                continue
            for s_ in b["stmts"]:
                if s_["k"] != "assign":
                    continue
                rv = s_["rv"]
                if rv["k"] == "agg" and rv.get("adt") == attr:
                    n_agg += 1
                    ex = ex or Exprs(fn)
                    vals = dict(zip(rv["fields"], [canon(ex.operand(o)) for o in rv["ops"]]))
                    in_tok = fn.file.endswith("tokenize.rs")
                    res.inst(IMM, "aggregate|%s" % fn.path, fn.where, True, "%s" % {k: v[:80] for k, v in vals.items()})
                    if not in_tok:
                        res.violate(IMM, "aggregate-outside-tokenizer|%s" % fn.path, fn.where, "an attribute is constructed outside the tokenizer: its text is not the source text")
                    else:
                        m = re.match(r"^traits::index\((.*)\.src, Range::Range\{(param\d+)\.0, (param\d+)\.0\}\)$", vals.get(text_field, ""))
                        if not m or vals.get("position") != m.group(2):
                            res.violate(IMM, "aggregate-text|%s" % fn.path, fn.where, "the attribute text must be the untransformed slice src[start..end] with position = start; found src=`%s`, position=`%s`" % (vals.get(text_field), vals.get("position")))
                def touches(pl):
                    return any(isinstance(e, dict) and e.get("owner") == attr and e.get("name") == text_field for e in pl["p"])
                if touches(s_["pl"]):
                    res.violate(IMM, "assign|%s" % fn.path, fn.where, "the attribute text is assigned after construction")
                if rv["k"] == "ref" and rv["bk"] == "mut" and touches(rv["pl"]):
                    res.violate(IMM, "mut-borrow|%s" % fn.path, fn.where, "the attribute text is borrowed mutably")
                # readers of the text
                pls = []
                if "pl" in rv:
                    pls.append(rv["pl"])
                for fld in ("op", "a", "b"):
                    o = rv.get(fld)
                    if isinstance(o, dict) and o.get("k") in ("copy", "move"):
                        pls.append(o["pl"])
                for pl in pls:
                    if touches(pl):
                        readers.setdefault(fn.key, fn)
        for c in fn.calls():
            for a in c.args:
                if a["k"] in ("copy", "move") and any(isinstance(e, dict) and e.get("owner") == attr and e.get("name") == text_field for e in a["pl"]["p"]):
                    readers.setdefault(fn.key, fn)
    res.floor("attribute aggregate sites", n_agg, 1)
    # what readers do with the text: only display/clone/len (span table)
    for k, fn in readers.items():
        ex = Exprs(fn)
        for c in fn.calls():
            for ai, a in enumerate(c.args):
                e = canon(ex.operand(a))
                if re.search(r"\.src$", e) and (fn.locals[a["pl"]["l"]]["ty"]["s"].endswith("String") or "String" in fn.locals[a["pl"]["l"]]["ty"]["s"]) if a["k"] in ("copy", "move") and not a["pl"]["p"] else False:
                    nm = (c.rpath or "").rsplit("::", 1)[-1]
                    okc = nm in ("new_display", "clone", "len", "deref", "as_str", "fmt", "to_string", "to_owned", "as_ref", "borrow", "eq", "hash", "ne")
                    res.inst(IMM, "reader|%s|%s" % (fn.path, nm), c.where, True, "")
                    if not okc:
                        res.violate(IMM, "reader|%s|%s" % (fn.path, nm), c.where, "the attribute text is passed to `%s`: it may be transformed before being printed" % c.rpath)
    # readers of an `attributes` list after validation
    post = []
    for fn in mir.fns.values():
        if fn.derived:
            continue
        hit = False
        for b in fn.blocks:
            if b["cleanup"]:
                continue
            for s_ in b["stmts"]:
                if s_["k"] == "assign":
                    txt = str(s_)
                    if "'name': 'attributes'" in txt:
                        hit = True
            t_ = b["term"]
            if t_["k"] == "call" and "'name': 'attributes'" in str(t_["args"]):
                hit = True
        if hit:
            post.append(fn)
    allowed_files = ("cst_to_ast.rs", "table_to_rust.rs", "terminal_enum.rs", "nonterminals.rs")
    for fn in post:
        f = fn.file.rsplit("/", 1)[-1]
        res.inst(PLACE, "attributes-reader|%s" % fn.path, fn.where, True, f)
        if f not in allowed_files and "/tests" not in fn.file:
            res.violate(PLACE, "attributes-reader|%s" % fn.path, fn.where, "attribute lists are read in %s (expected only: CST->AST conversion, validation clones, the emitter's type-definition sites)" % fn.path)
    # validation clones the lists unchanged
    for fn in mir.fns.values():
        if fn.derived or not fn.file.endswith(("terminal_enum.rs",)):
            continue
        ex = Exprs(fn)
        for b in fn.blocks:
            for s_ in b["stmts"]:
                if s_["k"] == "assign" and s_["rv"]["k"] == "agg" and s_["rv"].get("adt", "").endswith("validated_file::TerminalEnum"):
                    vals = dict(zip(s_["rv"]["fields"], [canon(ex.operand(o)) for o in s_["rv"]["ops"]]))
                    ok = re.match(r"^param1\.attributes$", vals.get("attributes", "")) is not None
                    res.inst(ORD, "validated-terminal-enum-attributes", fn.where, True, vals.get("attributes", "")[:80])
                    if not ok:
                        res.violate(ORD, "validated-terminal-enum-attributes", fn.where, "the validated terminal enum must carry a plain clone of the declared attribute list; found `%s`" % vals.get("attributes"))
    # ---- place (templates)
    syn2, efile, ts, consts = load_templates(ctx)
    if efile is None:
        res.floor("anchor: emitter file", 0, 1)
        return
    fmt = [t for t in ts if t.is_format]
    # the printer: fn(&[Attribute]) -> String
    printer = None
    for (p, impl, fn) in syn.all_fns(path=efile):
        if impl is None and "String" in (fn["output"] or "") and len(fn["inputs"]) == 1 and "Attribute" in (fn["inputs"][0].get("ty") or ""):
            printer = fn
    if printer is None:
        res.floor("anchor: attribute printer", 0, 1)
        return
    pw = "%s:%d" % (efile, printer["line"])
    param = printer["inputs"][0]["pat"]["name"]
    body = printer["body"]["stmts"]
    okp = False
    pexpr = None
    if len(body) == 1 and body[0]["k"] == "ExprStmt":
        pexpr = body[0]["expr"]
    elif len(body) == 2 and body[0]["k"] == "Let" and body[0]["pat"].get("k") == "PIdent" and body[0].get("init") is not None and body[1]["k"] == "ExprStmt" and ident_of(body[1]["expr"]) == body[0]["pat"]["name"]:
        pexpr = body[0]["init"]  # `let out = <chain>; out` (also what an accumulator loop is read as)
    if pexpr is not None:
        root, chain = method_chain(pexpr)
        names = [c[1] for c in chain if c[0] == "call"]
        if ident_of(root) == param and names in (["iter", "map", "collect"], ["into_iter", "map", "collect"]):
            clo = [c for c in chain if c[1] == "map"][0][2][0]
            if clo["k"] == "Closure" and len(clo["inputs"]) == 1 and clo["body"]["k"] == "Macro" and clo["body"]["name"] == "format":
                a = clo["body"]["args"]
                pn = clo["inputs"][0].get("name")
                okp = len(a) == 2 and a[0]["k"] == "Lit" and a[0]["lit"]["v"] == "{}\n" and unparse(a[1]).replace(" ", "") in ("&%s.src" % pn, "%s.src" % pn)
    res.inst(PLACE, "printer", pw, True, "each attribute's text followed by a newline, in order, nothing else: %s" % okp)
    if not okp:
        res.violate(PLACE, "printer", pw, "the attribute printer must be `attributes.iter().map(|a| format!(\"{}\\n\", &a.src)).collect()` (each text verbatim, one per line, in order); found `%s`" % " ; ".join(unparse(s_.get("expr") or s_.get("init"))[:120] for s_ in body))
    # call sites and placement
    n_sites = 0
    for t in fmt:
        toks = tpl.lex_segments(t.segs)
        for i, tok in enumerate(toks):
            if tok.k == "ident" and tok.s in ("struct", "enum") and i >= 1 and toks[i - 1].s == "pub" and i + 1 < len(toks) and toks[i + 1].k in ("ph", "mixed"):
                nt = toks[i + 1]
                first = nt.parts[0][1] if nt.k == "mixed" else nt.ph
                nd = tpl.resolve_text(t, first)
                if not (re.match(r"^expr:&?\w+\.name\.name$", nd) or nd == "self.terminal_enum_name"):
                    continue
                n_sites += 1
                key = "typedef|%s|%s" % (tok.s, nd)
                prev = toks[i - 2] if i >= 2 else None
                if prev is None or prev.k != "ph":
                    res.violate(PLACE, key + "|no-attributes", t.where, "the template opening `pub %s {%s}` is not immediately preceded by the declaration's attributes: attributes of such declarations are dropped" % (tok.s, first))
                    continue
                ab = tpl.binding(t, prev.ph)
                atxt = unparse(ab[1]).replace(" ", "") if ab is not None and ab[0] == "let" and ab[1] is not None else "?"
                m = re.match(r"^%s\(&(.*)\.attributes\)$" % re.escape(printer["name"]), atxt)
                if nd == "self.terminal_enum_name":
                    want_owner = "file.terminal_enum"
                else:
                    want_owner = re.match(r"^expr:&?(\w+)\.name\.name$", nd).group(1)
                ok = m is not None and re.sub(r"^self\.", "", m.group(1)) == want_owner  # (`file` = `self.file`)
                res.inst(PLACE, key, t.where, True, "attributes from `%s`, name from `%s`" % (atxt, nd))
                if not ok:
                    res.violate(PLACE, key, t.where, "the attributes printed before `pub %s {%s}` come from `%s`; they must be the printer applied to the attribute list of the same declaration (`%s.attributes`)" % (tok.s, first, atxt, want_owner))
                # nothing between the placeholder and `pub` except the line structure: tokens adjacent
    res.floor("user type definition sites with attributes", n_sites, 3)
    # the printer is not called anywhere else
    calls = 0
    for (p, impl, fn) in syn.all_fns(path=efile):
        for c in nodes(fn["body"], "Call"):
            if path_str(c["func"]) == printer["name"]:
                calls += 1
    res.inst(PLACE, "printer-call-sites", efile, True, "%d" % calls)
    if calls != n_sites:
        res.violate(PLACE, "printer-call-sites", efile, "the attribute printer is called %d times but there are %d user type definition sites: attributes are printed somewhere else or not everywhere" % (calls, n_sites))


def check(ctx):
    res = Result("C12", ctx["tier"], "other", ctx["seed"])
    run_rules(ctx, res)
    return finish(res, "Verbatim reproduction decided as: exact byte span of the attribute token (C08's table over multi-byte classes and its finisher rules), immutability of the text from the tokenizer's aggregate to the printer (MIR who-writes / who-reads), order-preserving list conversion and plain clones in validation, and placement (the printer's output placeholder immediately before `pub struct|enum {name}` of the same declaration at every type-definition site and nowhere else).")
