"""C04 (clause) — no table conflict that the automaton contains can be lost between detection and
generate's caller.  Not decided: that the automaton's look-ahead sets are exactly LALR(1) (C17)."""
from ..mir import Mir
from ..report import Result, finish
from ..conflict import find_stage, check_writer, check_eq, check_scan, check_guards, check_key_types
from ..errdisc import check_err_discipline


def check(ctx):
    res = Result("C04", ctx["tier"], "other", ctx["seed"])
    mir = Mir(ctx["facts"]["mir"])
    res.rule("R-C04-writer", "the (state, look-ahead) -> action map is written in exactly one function, and there only by an insert that is control-dependent on a lookup of the same key having missed")
    res.rule("R-C04-eq", "on a hit the only way to Ok is equality of the stored and the new *action*; the other branch builds the conflict error; every local type in the action map's type derives PartialEq / Eq / Hash (keys are equal exactly when they name the same cell)")
    res.rule("R-C04-scan", "on every call path from the table builder to the conflict detector there is no narrowing iterator adaptor, the loops range over all states and over the whole item set of each state, and no call towards the detector is guarded by a value read from the builder (only by the item's / rule's shape and by `?`)")
    res.rule("R-ERR-discipline", "every Result<_, KikiErr> produced in code reachable from generate is propagated by `?`, returned, or passed through an error-preserving combinator; never dropped, swallowed or type-erased")
    st = find_stage(mir, res, "R-C04-writer")
    if st is not None:
        check_writer(st, res, "R-C04-writer")
        check_eq(st, res, "R-C04-eq")
        check_key_types(st, res, "R-C04-eq")
        check_scan(st, res, "R-C04-scan")
        check_guards(st, res, "R-C04-scan")
        res.count("functions on call paths generate -> conflict detector", len(st.chain))
        reach = mir.reachable_from([st.generate.key], include_trait_impls=True)
        n = check_err_discipline(mir, reach, res)
        res.floor("calls producing Result<_, KikiErr> tracked", n, 20)
    # necessary conditions of the LALR(1) construction this property presupposes (imported from C17's clause check)
    from .c17 import run_rules as c17_rules
    from ..report import Result as _R2
    r17 = _R2("C17", ctx["tier"], "other")
    c17_rules(ctx, r17)
    res.rule("R-C17-* (imported)", "the six structural necessary conditions of the LALR(1) construction (C17 clauses N1-N6: symmetric core equality, change flag covers all mutated components, re-enqueue exactly on growth, closure/look-ahead augmentation, a transition per symbol, FIRST-of-sequence clears the nullable flag on every early exit) — this property's statement presupposes the automaton is the LALR(1) automaton")
    res.inst("R-C17-* (imported)", "C17-clauses", "", True, "%d instances, %d violations" % (len(r17.instances), len(r17.violations)))
    for v in r17.violations:
        res.violate(v.rule, v.key, v.where, v.msg, v.detail)
    res.assume("not decided here: exactness of the automaton's look-ahead sets and state merging (C17), hence not the 'never rejects a conflict-free grammar' half")
    return finish(res, "Clause-level decision on MIR: single writer of the action map guarded by a miss on the same key; equality of actions is the only non-error outcome of a hit; the state/item scan is exhaustive; every KikiErr-carrying Result on every path to generate's caller is propagated. Together: a conflict present in the automaton handed to the table builder cannot go unreported. The look-ahead computation itself is out of scope (declined under C17).")
