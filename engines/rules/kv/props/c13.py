"""C13 — terminal payload types are reproduced faithfully everywhere they are used."""
import re

from ..syn import Syn, nodes, ident_of, path_str, unparse, method_chain
from .. import tpl
from ..report import Result, finish
from ..flatten import check_flatteners
from .c03 import load_templates


def lex_plain(s_):
    return [t.s for t in tpl.lex_segments([("text", s_)])]


def find_printer(syn):
    """the function matching on the type AST enum (variants Unit / Path / Complex) returning String"""
    out = []
    for (p, impl, fn) in syn.all_fns():
        if impl is not None or "String" not in (fn["output"] or ""):
            continue
        ms = nodes(fn["body"], "Match")
        if len(ms) == 1 and len(fn["body"]["stmts"]) == 1:
            vs = [a["pat"]["path"]["segs"] for a in ms[0]["arms"] if a["pat"]["k"] in ("PPath", "PTupleStruct")]
            if vs and all(len(v) == 2 and v[0] == "Type" for v in vs) and {v[1] for v in vs} >= {"Unit", "Path"}:
                out.append((p, fn, ms[0]))
    return out


def join_chain(e):
    """for `X.iter().map(F).collect::<Vec<_>>().join(LIT)` return (X expr, F expr, LIT) else None"""
    if e["k"] != "MethodCall" or e["method"] != "join" or len(e["args"]) != 1 or e["args"][0]["k"] != "Lit":
        return None
    sep = e["args"][0]["lit"]["v"]
    root, chain = method_chain(e["recv"])
    names = [c[1] for c in chain if c[0] == "call"]
    if names != ["iter", "map", "collect"]:
        return None
    mp = [c for c in chain if c[1] == "map"][0]
    base = chain[0][3]["recv"] if chain[0][0] == "call" else None
    # the receiver of iter(): everything before
    it = [c for c in chain if c[1] == "iter"][0][3]
    return it["recv"], mp[2][0], sep


from ..mir import parse_at


def run_printer_rules(ctx, res):
    PR, FL, SITE, IMM = "R-C13-printer", "R-C13-flatten", "R-C13-site", "R-C13-immut"
    res.rule(PR, "the type printer has one arm per variant of the type AST and no wildcard; unit prints a literal lexing to `(` `)`; a path prints the names of all segments in order joined by a literal lexing to `::`; a generic prints callee, `<`, all arguments in order each through the printer itself joined by a literal lexing to `,`, then `>` (compared as Rust tokens)")
    res.rule(FL, "each CST list conversion converts the left part first and appends the right element at the end (no insert(0), rev, sort, loop)")
    res.rule(SITE, "every payload-type placeholder in a template is bound to `.type_` of the same iteration variable whose name is printed beside it, or to get_type(&f.name) where f is the very field being rendered; get_type compares the full terminal name; on MIR, get_type is keyed by the name of a Terminal symbol and a value read from `.type_`/get_type only reaches the formatting machinery (opaque: never tested, compared or transformed)")
    res.rule(IMM, "the rendered type string is written once, at validation, from the printer applied to the same variant's type, and never mutated afterwards")
    syn = Syn(ctx["facts"]["syn"], ctx.get("synfacts_bin"))
    pr = find_printer(syn)
    res.floor("anchor: type printer (match on Type returning String)", len(pr), 1)
    printer_names = {x[1]["name"] for x in pr}
    # every function that prints a type by cases is held to the printer rule (a second, laxer printer used for
    # some positions is exactly how a nested type gets printed wrongly); keys are suffixed for all but the first
    for pi_, (pfile, pfn, pm) in enumerate(sorted(pr, key=lambda x: (x[0], x[1]["line"]))):
        PRK = "" if len(pr) == 1 else "%s|" % pfn["name"]
        fns = {fn["name"]: fn for (p, impl, fn) in syn.all_fns(path=pfile)}
        where = "%s:%d" % (pfile, pfn["line"])
        variants = {}
        for a in pm["arms"]:
            if a["pat"]["k"] in ("PWild", "PIdent") or a["guard"] is not None:
                res.violate(PR, PRK + "wildcard-arm", "%s:%d" % (pfile, a["line"]), "wildcard or guarded arm in the type printer: a kind of type can be printed wrongly without notice")
                continue
            variants[a["pat"]["path"]["segs"][1]] = a
        res.inst(PR, PRK + "arms", where, True, "%s" % sorted(variants))
        if set(variants) != {"Unit", "Path", "Complex"}:
            res.violate(PR, PRK + "arms", where, "the type printer must have exactly the arms Unit, Path, Complex; found %s" % sorted(variants))
        # Unit
        if "Unit" in variants:
            b = variants["Unit"]["body"]
            if b["k"] == "Call" and path_str(b["func"]) in ("String::from", "std::string::String::from") and len(b["args"]) == 1:
                b = b["args"][0]  # String::from("()") is "()".to_string()
            root, chain = method_chain(b)
            lit = root["lit"]["v"] if root["k"] == "Lit" and root["lit"]["t"] == "str" else None
            ok = lit is not None and lex_plain(lit) == ["(", ")"] and all(c[1] in ("to_string", "to_owned", "into") for c in chain)
            res.inst(PR, PRK + "unit", "%s:%d" % (pfile, variants["Unit"]["line"]), True, "prints %r" % lit)
            if not ok:
                res.violate(PR, PRK + "unit", "%s:%d" % (pfile, variants["Unit"]["line"]), "the unit type must be printed as `()`; found %s" % unparse(b))

        def path_printer_ok(fname, key):
            fn = fns.get(fname)
            if fn is None or len(fn["body"]["stmts"]) != 1 or fn["body"]["stmts"][0]["k"] != "ExprStmt":
                res.unanalysable(PR, key, where, "path printer `%s` is not a single expression" % fname)
                return
            jc = join_chain(fn["body"]["stmts"][0]["expr"])
            param = fn["inputs"][0]["pat"].get("name") if fn["inputs"] else None
            ok = jc is not None and ident_of(jc[0]) == param and lex_plain(jc[2]) == ["::"]
            if ok:
                clo = jc[1]
                ok = clo["k"] == "Closure" and len(clo["inputs"]) == 1
                if ok:
                    pn = clo["inputs"][0].get("name")
                    body = clo["body"]
                    if body["k"] == "BlockExpr" and len(body["block"]["stmts"]) == 1:
                        body = body["block"]["stmts"][0]["expr"]
                    ok = unparse(body).replace(" ", "") in ("&%s.name" % pn, "%s.name.as_str()" % pn, "&*%s.name" % pn, "%s.name.clone()" % pn)
            res.inst(PR, key, "%s:%d" % (pfile, fn["line"]), True, "all segments in order joined by `::`: %s" % ok)
            if not ok:
                res.violate(PR, key, "%s:%d" % (pfile, fn["line"]), "a path must be printed as the names of all its segments in order joined by `::`; found `%s`" % unparse(fn["body"]["stmts"][0]["expr"])[:160])

        path_fn = None
        if "Path" in variants:
            a = variants["Path"]
            b = a["body"]
            binder = a["pat"]["elems"][0].get("name") if a["pat"]["k"] == "PTupleStruct" else None
            if b["k"] == "Call" and b["func"]["k"] == "Path" and len(b["args"]) == 1 and ident_of(b["args"][0]) == binder:
                path_fn = path_str(b["func"])
                path_printer_ok(path_fn, PRK + "path")
            else:
                res.unanalysable(PR, PRK + "path", "%s:%d" % (pfile, a["line"]), "Path arm does not delegate to a path printer with its own payload: %s" % unparse(b))
        if "Complex" in variants:
            a = variants["Complex"]
            b = a["body"]
            binder = a["pat"]["elems"][0].get("name") if a["pat"]["k"] == "PTupleStruct" else None
            cfn = fns.get(path_str(b["func"])) if b["k"] == "Call" and b["func"]["k"] == "Path" and len(b["args"]) == 1 and ident_of(b["args"][0]) == binder else None
            if cfn is None:
                res.unanalysable(PR, PRK + "complex", "%s:%d" % (pfile, a["line"]), "Complex arm does not delegate to a generic-type printer with its own payload: %s" % unparse(b))
            else:
                cw = "%s:%d" % (pfile, cfn["line"])
                param = cfn["inputs"][0]["pat"].get("name")
                lets = {}
                for st in cfn["body"]["stmts"]:
                    if st["k"] == "Let" and st["pat"]["k"] == "PIdent" and st.get("init") is not None:
                        lets[st["pat"]["name"]] = st["init"]
                last = cfn["body"]["stmts"][-1]
                fm = last["expr"] if last["k"] == "ExprStmt" and last["expr"]["k"] == "Macro" and last["expr"]["name"] == "format" else None
                if fm is None or not fm["args"] or fm["args"][0]["k"] != "Lit":
                    res.unanalysable(PR, PRK + "complex|template", cw, "the generic-type printer does not end in a format! template")
                else:
                    segs = tpl.parse_format(fm["args"][0]["lit"]["v"]) or []
                    toks = tpl.lex_segments(segs)
                    shape = [t_.s if t_.k != "ph" else "{}" for t_ in toks]
                    ok = shape == ["{}", "<", "{}", ">"]
                    callee_ph = toks[0].ph if ok else None
                    args_ph = toks[2].ph if ok else None
                    res.inst(PR, PRK + "complex|template", cw, True, "token shape %s" % shape)
                    if not ok:
                        res.violate(PR, PRK + "complex|template", cw, "a generic type must be printed as callee `<` arguments `>`; template `%s` lexes to %s" % (fm["args"][0]["lit"]["v"], shape))
                    else:
                        ce = lets.get(callee_ph)
                        okc = ce is not None and ce["k"] == "Call" and path_str(ce["func"]) == path_fn and unparse(ce["args"][0]).replace(" ", "") == "&%s.callee" % param
                        res.inst(PR, PRK + "complex|callee", cw, True, unparse(ce) if ce else "?")
                        if not okc:
                            res.violate(PR, PRK + "complex|callee", cw, "the callee of a generic type must be printed by the path printer from `.callee`; found `%s`" % (unparse(ce) if ce else None))
                        ae = lets.get(args_ph)
                        jc = join_chain(ae) if ae is not None else None
                        oka = jc is not None and unparse(jc[0]).replace(" ", "") == "%s.args" % param and ident_of(jc[1]) in printer_names and lex_plain(jc[2]) == [","]
                        res.inst(PR, PRK + "complex|args", cw, True, unparse(ae)[:120] if ae else "?")
                        if not oka:
                            res.violate(PR, PRK + "complex|args", cw, "the arguments of a generic type must be printed as all of `.args` in order, each through the type printer itself, joined by `,`; found `%s`" % (unparse(ae)[:160] if ae else None))
    n = check_flatteners(syn, res, FL)
    res.floor("CST list conversions checked", n, 6)
    return syn


def run_rules(ctx, res):
    PR, FL, SITE, IMM = "R-C13-printer", "R-C13-flatten", "R-C13-site", "R-C13-immut"
    syn = run_printer_rules(ctx, res)
    # ---- sites
    syn2, efile, ts, consts = load_templates(ctx)
    n_sites = 0
    if efile is not None:
        for t in [x for x in ts if x.is_format]:
            for ph in t.placeholders():
                b = tpl.binding(t, ph)
                d = tpl.resolve_text(t, ph)
                is_type = False
                if b is not None and b[0] == "let" and b[1] is not None:
                    txt = unparse(b[1]).replace(" ", "")
                    m1 = re.match(r"^&(\w+)\.type_$", txt)
                    m2 = re.match(r"^self\.file\.terminal_enum\.get_type\(&(\w+)\.name\)(?:\.unwrap\(\)|\?)$", txt)
                    if m1:
                        is_type = True
                        n_sites += 1
                        var = m1.group(1)
                        # the name printed beside it comes from the same variable
                        others = [tpl.resolve_text(t, p2) for p2 in t.placeholders() if p2 != ph]
                        names = [o for o in others if re.match(r"^expr:&?%s\.dollarless_name\.raw\(\)$" % var, o) or o == "self.%s" % o]
                        key = "site|%s|%s" % (t.fn, t.text.strip()[:40])
                        okn = bool(names) or "method_name" in t.placeholders() or "variant_name_original_case" in t.placeholders()
                        if not names and "variant_name_original_case" in t.placeholders():
                            vb = tpl.resolve_text(t, "variant_name_original_case")
                            okn = bool(re.match(r"^expr:&?%s\.dollarless_name\.raw\(\)$" % var, vb))
                        res.inst(SITE, key, t.where, True, "type of `%s`, name from the same variable: %s" % (var, okn))
                        if not okn:
                            res.violate(SITE, key, t.where, "payload type `%s.type_` is printed beside a name that does not come from the same terminal variant (%s)" % (var, others))
                    elif m2:
                        is_type = True
                        n_sites += 1
                        var = m2.group(1)
                        # `var` must be the field's own symbol bound by the enclosing arm
                        bb = tpl.binding(t, var)
                        key = "site|%s|%s" % (t.fn, t.text.strip()[:40])
                        okv = bb is not None and bb[0] == "variant-payload" and "Terminal" in bb[2]
                        res.inst(SITE, key, t.where, True, "get_type(&%s.name), %s bound by %s" % (var, var, bb[2] if bb else None))
                        if not okv:
                            res.violate(SITE, key, t.where, "payload type looked up under `%s.name`, but `%s` is not the terminal symbol of the field being rendered" % (var, var))
                    elif re.search(r"\.type_\b|get_type\(", txt):
                        n_sites += 1
                        res.violate(SITE, "site|%s|unrecognised" % t.fn, t.where, "payload type placeholder `{%s}` is bound to `%s`, which is neither `<variant>.type_` nor `get_type(&<field symbol>.name).unwrap()`" % (ph, txt[:100]))
    res.count("payload-type use sites recognised in templates", n_sites)
    # get_type compares the full name (MIR, shared with C07)
    from ..mir import Mir, Exprs, canon, strip_transparent, TRANSPARENT_CALLS, is_clone_path
    from .c07 import check_get_type
    mir = Mir(ctx["facts"]["mir"])
    check_get_type(mir, res, SITE)
    from ..roles import roles_of
    GT = roles_of(mir).terminal_get_type
    # the emitter treats the rendered payload type as opaque text: a value read from `.type_` / get_type(..)
    # only reaches the formatting machinery (it is printed), never a test, a comparison or a transformation;
    # and get_type is looked up under the name of a Terminal symbol
    FMT_OK = ("core::fmt::rt::Argument::<'_>::new_display", "std::fmt::Arguments::<'a>::new", "std::fmt::format", "std::hint::must_use",
              "std::option::Option::<T>::unwrap", "std::option::Option::<T>::expect", "<std::option::Option<T> as std::ops::Try>::branch",
              "<std::option::Option<T> as std::ops::FromResidual<std::option::Option<std::convert::Infallible>>>::from_residual",
              "std::string::String::as_str", "<str as std::string::ToString>::to_string", "<std::string::String as std::fmt::Display>::fmt",
              "<str as std::fmt::Display>::fmt", "std::string::String::push_str", "<std::string::String as std::ops::Deref>::deref")

    def tainted(e, depth=0):
        if depth > 40:
            return False
        if e.k == "field" and e.a[1] == "type_" and str(e.a[2]).endswith("TerminalVariant"):
            return True
        if e.k == "call":
            if GT is not None and e.site is not None and e.site.local and e.site.rkey == GT.key:
                return True
            if e.a[0] == "std::fmt::format":
                return False  # the result is emitted text
        if e.k == "phi":
            return any(tainted(y, depth + 1) for y in e.a[0])
        if e.k in ("partial", "cycle", "param", "const"):
            return False
        for y in e.a:
            if hasattr(y, "k"):
                if tainted(y, depth + 1):
                    return True
            elif isinstance(y, (list, tuple)):
                for z in y:
                    if hasattr(z, "k") and tainted(z, depth + 1):
                        return True
        return False

    n_disp = 0
    n_lookup = 0
    efile_s = efile or "table_to_rust.rs"
    # the emitter = everything reachable from the stage that returns the emitted text (by role, wherever it lives)
    emit = roles_of(mir).stage_emit
    scope = set(mir.reachable_from([emit.key], include_trait_impls=False)) if emit is not None else set()
    for fn in mir.fns.values():
        if fn.derived or not (fn.key in scope or fn.file.endswith(efile_s.rsplit("/", 1)[-1])) or "/parser.rs" in fn.file:
            continue
        fex = None
        for c in fn.calls():
            rp = c.rpath or c.path or "?"
            if GT is not None and c.local and c.rkey == GT.key and len(c.args) >= 2:
                fex = fex or Exprs(fn)
                ke = strip_transparent(fex.operand(c.args[1]))
                good = ke.k == "field" and ke.a[1] == "name" and "as Terminal" in canon(ke)
                n_lookup += 1
                res.inst(SITE, "lookup-key|%s" % fn.path, c.where, True, canon(ke)[:100])
                if not good:
                    res.violate(SITE, "lookup-key|%s" % fn.path, c.where, "payload type looked up under `%s`, which is not the name of a terminal symbol" % canon(ke)[:120])
                continue
            for a_ in c.args:
                if a_["k"] not in ("copy", "move"):
                    continue
                fex = fex or Exprs(fn)
                if not tainted(fex.operand(a_)):
                    continue
                okc = rp in FMT_OK or rp in TRANSPARENT_CALLS or is_clone_path(rp) or (c.path or "") in TRANSPARENT_CALLS
                if rp.endswith("new_display"):
                    n_disp += 1
                res.inst(SITE, "opaque|%s|%s" % (fn.path, rp.rsplit("::", 1)[-1]), c.where, rp.endswith("new_display"), "")
                if not okc:
                    res.violate(SITE, "opaque|%s|%s" % (fn.path.rsplit("::", 2)[-2] if fn.kind == "Closure" else fn.name, rp.rsplit("::", 1)[-1]), c.where,
                                "the rendered payload type is handed to `%s` in the emitter: it must only be printed, never tested, compared or transformed (what is emitted would then depend on how the type is spelled)" % rp)
        for b in fn.blocks:
            if b["cleanup"]:
                continue
            for s_ in b["stmts"]:
                if s_["k"] == "assign" and s_["rv"]["k"] == "bin":
                    fex = fex or Exprs(fn)
                    if tainted(fex.operand(s_["rv"]["a"])) or tainted(fex.operand(s_["rv"]["b"])):
                        f_, l_ = parse_at(s_["span"]["at"])
                        res.violate(SITE, "opaque|%s|bin" % fn.name, "%s:%d" % (f_, l_), "the rendered payload type enters `%s` in the emitter" % s_["rv"]["op"])
    # the field use sites: the type-definition renderers print a terminal-typed field as the payload type of that very
    # field and have no other exit (C06's box rule on the same facts)
    from . import c06
    from ..report import Result as _R2
    r06 = _R2("C06", "quick", "other")
    c06.run_rules(ctx, r06)
    vb = [v for v in r06.violations if v.rule == "R-C06-box" or (v.rule == "floor" and "R-C06-box" in v.key) or (v.rule == "R-C06-pubfield" and v.key.startswith("dispatcher"))]
    res.inst(SITE, "field-use-sites (C06 box rule)", "", True, "%d violations" % len(vb))
    for v in vb:
        res.violate(SITE, "field-site|" + v.key, v.where, v.msg)
    res.floor("payload-type values reaching a Display argument in the emitter", n_disp, 3)
    res.floor("get_type look-ups in the emitter", n_lookup, 1)
    for v in res.violations:
        if v.key == "D-tref|get_type":
            v.rule = SITE
    run_immut_rules(ctx, res, mir)


def run_immut_rules(ctx, res, mir=None):
    from ..mir import Mir, Exprs, canon, strip_transparent, TRANSPARENT_CALLS, is_clone_path
    PR, FL, SITE, IMM = "R-C13-printer", "R-C13-flatten", "R-C13-site", "R-C13-immut"
    mir = mir or Mir(ctx["facts"]["mir"])
    # ---- immut: the type_ field of the validated terminal variant
    owner = [p for p in mir.adts if p.endswith("validated_file::TerminalVariant")]
    if len(owner) != 1:
        res.floor("anchor: validated terminal variant type", len(owner), 1)
        return
    owner = owner[0]
    n_w = 0
    for fn in mir.fns.values():
        if fn.derived:
            continue
        ex = None
        for b in fn.blocks:
            if b["cleanup"]:
                continue
            for s_ in b["stmts"]:
                if s_["k"] != "assign":
                    continue
                rv = s_["rv"]
                if rv["k"] == "agg" and rv.get("adt") == owner:
                    ex = ex or Exprs(fn)
                    n_w += 1
                    vals = dict(zip(rv["fields"], [canon(ex.operand(o)) for o in rv["ops"]]))
                    tv, nv = vals.get("type_"), vals.get("dollarless_name")
                    m = re.match(r"^type_to_string::type_to_string\((.*)\.type_\)$", tv or "")
                    okw = bool(m) and nv is not None and m.group(1) in nv
                    res.inst(IMM, "write|%s" % fn.path, fn.where, True, "type_ = %s ; name = %s" % (tv, (nv or "")[:80]))
                    if not okw and "/tests" not in fn.file and "test" not in fn.path:
                        res.violate(IMM, "write|%s" % fn.path, fn.where, "the payload type string must be the printer applied to the type of the same variant whose name is stored beside it; found type_ = `%s`, name = `%s`" % (tv, nv))
                if any(isinstance(e, dict) and e.get("owner") == owner and e.get("name") == "type_" for e in s_["pl"]["p"]):
                    res.violate(IMM, "field-assign|%s" % fn.path, fn.where, "the payload type string is assigned after construction")
                if rv["k"] == "ref" and rv["bk"] == "mut" and any(isinstance(e, dict) and e.get("owner") == owner and e.get("name") == "type_" for e in rv["pl"]["p"]):
                    res.violate(IMM, "mut-borrow|%s" % fn.path, fn.where, "the payload type string is borrowed mutably")
    res.floor("construction sites of the validated terminal variant", n_w, 1)


def check(ctx):
    res = Result("C13", ctx["tier"], "other", ctx["seed"])
    run_rules(ctx, res)
    return finish(res, "Structural decision: the type printer covers every node of the type AST in order with token-correct separators (compared as Rust tokens); the CST list conversions keep order; every payload-type placeholder of the emitter is the type of the same terminal whose name is printed beside it (or of the field being rendered, looked up by full-name equality); the rendered string is written once from the printer and never mutated. No fixture has a generic payload type, so the whole generic branch is otherwise untested.")
