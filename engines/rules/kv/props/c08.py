"""C08 — source text is tokenised exactly per the documented lexical rules.

The tokenizer's declared transition relation (state variant x character class -> outcome, plus the
end-of-input column) is read off the syntax tree by abstract interpretation (concrete class
representative, symbolic byte indices) and compared cell by cell with a reference table
transcribed in this file from USER_GUIDE.md and the property statement.
"""
from ..syn import Syn, nodes, ident_of, path_str, method_chain, unparse, lit_of
from ..tok import extract as tok_extract
from ..tokinterp import (Interp, Outcome, run_all, Unanalysable, V, Lin, L, K, norm, is_whitespace, is_ascii_alphabetic,
                         is_ascii_alphanumeric)
from ..report import Result, finish

# class representatives: every predicate the tokenizer may legitimately use is constant on each class
REPRESENTATIVES = [
    ("newline", "\n"), ("space", " "), ("tab", "\t"), ("cr", "\r"), ("vt", "\x0b"), ("ff", "\x0c"),
    ("nel U+0085", "\u0085"), ("nbsp U+00A0", " "), ("ogham space U+1680", " "), ("em space U+2003", " "),
    ("line sep U+2028", " "), ("ideographic space U+3000", "　"),
    ("slash", "/"), ("lower letter", "a"), ("lower letter z", "z"), ("upper letter", "Z"), ("upper letter A", "A"), ("underscore", "_"),
    ("digit 0", "0"), ("digit 9", "9"), ("dollar", "$"), ("colon", ":"), ("pound", "#"),
    ("comma", ","), ("lparen", "("), ("rparen", ")"), ("lcurly", "{"), ("rcurly", "}"), ("langle", "<"), ("rangle", ">"),
    ("lsquare", "["), ("rsquare", "]"),
    ("bang", "!"), ("dquote", '"'), ("semicolon", ";"), ("backslash", "\\"), ("quote", "'"), ("minus", "-"), ("equals", "="),
    ("dot", "."), ("star", "*"), ("at", "@"), ("backtick", "`"), ("tilde", "~"), ("pipe", "|"), ("question", "?"), ("plus", "+"),
    ("nul", "\x00"), ("del", "\x7f"), ("escape", "\x1b"),
    ("latin letter e-acute (2 bytes)", "é"), ("sharp s (2 bytes)", "ß"), ("greek omega (2 bytes)", "Ω"),
    ("euro sign (3 bytes)", "€"), ("cjk (3 bytes)", "中"), ("zero width space U+200B (3 bytes, not White_Space)", "​"),
    ("emoji (4 bytes)", "\U0001F600"), ("fullwidth digit (3 bytes)", "１"), ("arabic-indic digit (2 bytes)", "١"),
]

RESERVED_REF = {"_": "Underscore", "start": "StartKw", "struct": "StructKw", "enum": "EnumKw", "terminal": "TerminalKw"}
PUNCT_REF = {",": "Comma", "(": "LParen", ")": "RParen", "{": "LCurly", "}": "RCurly", "<": "LAngle", ">": "RAngle"}
# ':' is handled by the colon state; a ':' entry in the single-char table is unreachable but harmless
PUNCT_OPTIONAL = {":": "Colon"}

ROLES = ("MAIN", "SLASH", "COMMENT", "IDENT", "DOLLAR", "TIDENT", "COLON", "POUND", "ATTR")


def idx(l):
    return V("idx", l)


def W(c):
    return len(c.encode("utf-8"))


def text(a, b):
    return V("text", idx(a), idx(b))


class Ref:
    """reference outcomes in the interpreter's value vocabulary; state variants by role"""

    def __init__(self, role_to_variant):
        self.v = role_to_variant

    def st(self, role, *payload):
        return V("state", self.v[role], tuple(payload))

    # each function returns dict: frozenset(assumptions) -> (result, state, emits)
    def main(self, c, emits=()):
        cur = L("cur")
        e = list(emits)
        if is_whitespace(c):
            return (("ok",), self.st("MAIN"), e)
        if c == "/":
            return (("ok",), self.st("SLASH", idx(cur)), e)
        if is_ascii_alphabetic(c) or c == "_":
            return (("ok",), self.st("IDENT", idx(cur), idx(cur + K(W(c)))), e)
        if c == "$":
            return (("ok",), self.st("DOLLAR", idx(cur)), e)
        if c == ":":
            return (("ok",), self.st("COLON", idx(cur)), e)
        if c == "#":
            return (("ok",), self.st("POUND", idx(cur)), e)
        if c in PUNCT_REF:
            return (("ok",), self.st("MAIN"), e + [V("tok", PUNCT_REF[c], idx(cur))])
        return (("err", V("kikierr", "Lex", idx(cur), V("some", V("char", c)))), None, e)

    def cell(self, role, c):
        """c: a character, or None for end of input.  returns {assumption-set: outcome}"""
        cur = L("cur") if c is not None else L("len")
        p0, p1, p2, n = L("p0"), L("p1"), L("p2"), L("n")
        some_c = V("some", V("char", c)) if c is not None else V("none")
        after_flush = (lambda emits: self.main(c, emits)) if c is not None else (lambda emits: (("ok",), self.st("MAIN"), list(emits)))
        A = frozenset
        if role == "MAIN":
            return {A(): self.main(c)} if c is not None else {A(): (("ok",), self.st("MAIN"), [])}
        if role == "SLASH":
            if c == "/":
                return {A(): (("ok",), self.st("COMMENT"), [])}
            return {A(): (("err", V("kikierr", "Lex", idx(p0), V("some", V("char", "/")))), None, [])}
        if role == "COMMENT":
            if c == "\n" or c is None:
                return {A(): (("ok",), self.st("MAIN"), [])}
            return {A(): (("ok",), self.st("COMMENT"), [])}
        if role == "IDENT":
            if c is not None and (is_ascii_alphanumeric(c) or c == "_"):
                return {A(): (("ok",), self.st("IDENT", idx(p0), idx(p1 + K(W(c)))), [])}
            t = text(p0, p1)
            rk = ("reserved", norm(t))
            return {
                A([(rk, True)]): after_flush([V("tok", V("reserved-token-of", t), idx(p0))]),
                A([(rk, False)]): after_flush([V("tok", "Ident", V("struct", "Ident", {"name": t, "position": idx(p0)}))]),
            }
        if role == "DOLLAR":
            if c is not None and (is_ascii_alphabetic(c) or c == "_"):
                return {A(): (("ok",), self.st("TIDENT", idx(p0), idx(p0 + K(1 + W(c)))), [])}
            return {A(): (("err", V("kikierr", "Lex", idx(p0), V("some", V("char", "$")))), None, [])}
        if role == "TIDENT":
            if c is not None and (is_ascii_alphanumeric(c) or c == "_"):
                return {A(): (("ok",), self.st("TIDENT", idx(p0), idx(p1 + K(W(c)))), [])}
            nm = V("dollarless", text(p0, p1))
            rk = ("reserved", norm(nm))
            return {
                A([(rk, True)]): (("err", V("kikierr", "Lex", idx(cur), some_c)), None, []),
                A([(rk, False)]): after_flush([V("tok", "TerminalIdent", V("struct", "TerminalIdent", {"name": nm, "dollarless_position": idx(p0 + K(1))}))]),
            }
        if role == "COLON":
            if c == ":":
                return {A(): (("ok",), self.st("MAIN"), [V("tok", "DoubleColon", idx(p0))])}
            return {A(): after_flush([V("tok", "Colon", idx(p0))])}
        if role == "POUND":
            if c == "[":
                return {A(): (("ok",), self.st("ATTR", idx(p0), V("count", K(1)), idx(cur + K(1))), [])}
            return {A(): (("err", V("kikierr", "Lex", idx(p0), V("some", V("char", "#")))), None, [])}
        if role == "ATTR":
            fin_ok = lambda s, e: (("ok",), self.st("MAIN"), [V("tok", "OuterAttribute", V("text", idx(s), idx(e)), idx(s))])
            fin_err = (("err", V("finish-error"), V("finish-error")), None, [])
            fk = ("finish-ok", 1)
            if c is None:
                return {A([(fk, True)]): fin_ok(p0, p2), A([(fk, False)]): fin_err}
            w = K(W(c))
            if c in "([{":
                return {A(): (("ok",), self.st("ATTR", idx(p0), V("count", n + K(1)), idx(p2 + w)), [])}
            if c in ")]}":
                d1 = ("depth-is-one",)
                return {
                    A([(d1, True), (fk, True)]): fin_ok(p0, p2 + w),
                    A([(d1, True), (fk, False)]): fin_err,
                    A([(d1, False)]): (("ok",), self.st("ATTR", idx(p0), V("count", n - K(1)), idx(p2 + w)), []),
                }
            if c == "\n":
                return {A(): (("err", V("kikierr", "Lex", idx(cur), V("some", V("char", "\n")))), None, [])}
            return {A(): (("ok",), self.st("ATTR", idx(p0), V("count", n), idx(p2 + w)), [])}
        raise KeyError(role)


def invariants(role, eof):
    """substitution that holds whenever the tokenizer is in `role` looking at the char at `cur`"""
    cur = L("len") if eof else L("cur")
    m = {}
    if eof:
        m["cur"] = L("len")
    if role in ("SLASH", "DOLLAR", "COLON", "POUND"):
        m["p0"] = cur - K(1)
    if role in ("IDENT", "TIDENT"):
        m["p1"] = cur
    if role == "ATTR":
        m["p2"] = cur
    return m


def symbolic_state(tf, variant):
    tys = tf.state_payload_types.get(variant, [])
    vals = []
    for i, t in enumerate(tys):
        if t == "ByteIndex":
            vals.append(V("idx", L("p%d" % i)))
        elif t == tf.count_newtype:
            vals.append(V("count", L("n")))
        else:
            raise Unanalysable(0, "state payload of unknown type %s" % t)
    return V("state", variant, tuple(vals))


def outcome_key(o):
    return frozenset((k if isinstance(k, tuple) else (k,), v) for k, v in o.assume.items())


def norm_outcome(res, state, emits, m):
    r = norm(res, m)
    if res[0] == "err":
        return (r, None, norm(list(emits), m) if False else None)
    return (r, norm(state, m), norm(list(emits), m))


def discover_roles(tf, finish_name, res):
    """state variants by role, found by following the transitions from the initial state"""
    roles = {"MAIN": tf.initial_state}

    def next_state(variant, c):
        outs = run_all(tf, finish_name, tf.dispatcher["name"], [V("char", c), V("idx", L("cur"))], symbolic_state(tf, variant))
        sts = {o.state.a[0] for o in outs if o.result == ("ok",)}
        return sts.pop() if len(sts) == 1 else None

    m = tf.initial_state
    for role, c in (("SLASH", "/"), ("IDENT", "a"), ("DOLLAR", "$"), ("COLON", ":"), ("POUND", "#")):
        roles[role] = next_state(m, c)
    if roles.get("SLASH"):
        roles["COMMENT"] = next_state(roles["SLASH"], "/")
    if roles.get("DOLLAR"):
        roles["TIDENT"] = next_state(roles["DOLLAR"], "a")
    if roles.get("POUND"):
        roles["ATTR"] = next_state(roles["POUND"], "[")
    return roles


def find_finish(tf):
    """the attribute finisher: a method with a loop over a sub-slice's char_indices and a local stack"""
    out = []
    for name, fn in tf.fns.items():
        if fn is tf.driver:
            continue
        if nodes(fn["body"], "For") and name != tf.driver["name"]:
            out.append(name)
    return out


def check_driver_shape(tf, res, rule):
    d = tf.driver
    where = "%s:%d" % (tf.file, d["line"])
    loop = nodes(d["body"], "For")[0]
    ok = True
    # for (i, c) in self.src.char_indices() { self.dispatch(c, ByteIndex(i))?; }
    p = loop["pat"]
    names = [e["name"] for e in p["elems"]] if p["k"] == "PTuple" and all(e["k"] == "PIdent" for e in p["elems"]) else None
    call = tf.dispatch_call
    good = names is not None and len(names) == 2 and len(call["args"]) == 2 and ident_of(call["args"][0]) == names[1] and call["args"][1]["k"] == "Call" and path_str(call["args"][1]["func"]) == "ByteIndex" and ident_of(call["args"][1]["args"][0]) == names[0]
    # the call must be `?`-propagated
    tries = [t for t in nodes(loop["body"], "Try") if t["expr"] is call]
    good = good and len(tries) == 1 and len(loop["body"]["stmts"]) == 1
    res.inst(rule, "driver|per-char-dispatch", where, True, "dispatch(c, ByteIndex(i))? for every (i, c) of char_indices: %s" % good)
    if not good:
        res.violate(rule, "driver|per-char-dispatch", where, "the driver must hand every (byte offset, char) of the source, in order and unfiltered, to the dispatcher and propagate its error")
    root, chain = method_chain(loop["expr"])
    if [c[1] for c in chain] != [tf.src_field, "char_indices"]:
        res.violate(rule, "driver|iteration", where, "the character loop must range over the whole source (`self.%s.char_indices()` without adaptors), found %s" % (tf.src_field, unparse(loop["expr"])))
    if tf.flush is not None:
        fc = tf.flush_call
        good = len(fc["args"]) == 2 and fc["args"][0]["k"] == "Path" and fc["args"][0]["path"]["segs"] == ["None"] and unparse(fc["args"][1]).replace(" ", "") == "ByteIndex(self.%s.len())" % tf.src_field
        tries = [t for t in nodes(d["body"], "Try") if t["expr"] is fc]
        good = good and len(tries) == 1
        res.inst(rule, "driver|flush-at-eof", where, True, "flush(None, ByteIndex(src.len()))?: %s" % good)
        if not good:
            res.violate(rule, "driver|flush-at-eof", where, "after the loop the driver must flush the pending lexeme with (None, ByteIndex(src.len())) and propagate its error")
    # other statements in the driver: none
    if len(d["body"]["stmts"]) != 3:
        res.violate(rule, "driver|extra-statements", where, "the driver has statements besides the character loop, the end-of-input flush and the result")


def check_finish(tf, fname, res):
    """R-C08-abs / R-C08-stack / bracket pairing / emitted text of the attribute finisher"""
    fn = tf.fns[fname]
    where = lambda n: "%s:%d" % (tf.file, n["line"])
    params = [i["pat"]["name"] for i in fn["inputs"] if "pat" in i]
    if len(params) != 2:
        res.unanalysable("R-C08-abs", "finish|params", where(fn), "attribute finisher does not take (start, end)")
        return
    start_p, end_p = params
    stmts = fn["body"]["stmts"]
    # let-bound names (simple)
    lets = {}
    for st in stmts:
        if st["k"] == "Let" and st["pat"]["k"] == "PIdent" and st.get("init") is not None:
            lets[st["pat"]["name"]] = st["init"]
    loops = [st["expr"] for st in stmts if st["k"] == "ExprStmt" and st["expr"]["k"] == "For"]
    if len(loops) != 1:
        res.unanalysable("R-C08-abs", "finish|loop", where(fn), "expected exactly one scan loop in the attribute finisher")
        return
    loop = loops[0]
    root, chain = method_chain(loop["expr"])
    names = [c[1] for c in chain]
    # self.src[a..b].char_indices()
    slice_e = None
    if root["k"] == "Index" and names == ["char_indices"]:
        slice_e = root
    if slice_e is None or unparse(slice_e["expr"]) != "self.%s" % tf.src_field or slice_e["index"]["k"] != "Range":
        res.violate("R-C08-abs", "finish|scan-iterator", where(loop), "the bracket scan must iterate `self.%s[a..b].char_indices()` (byte offsets); found `%s` — a char count (chars().enumerate()) is not a byte offset" % (tf.src_field, unparse(loop["expr"])[:80]))
        return
    a_e, b_e = slice_e["index"]["start"], slice_e["index"]["end"]
    pat = loop["pat"]
    if not (pat["k"] == "PTuple" and len(pat["elems"]) == 2 and all(e["k"] == "PIdent" for e in pat["elems"])):
        res.unanalysable("R-C08-abs", "finish|scan-pattern", where(loop), "scan loop pattern is not (index, char)")
        return
    i_name, ch_name = pat["elems"][0]["name"], pat["elems"][1]["name"]

    def resolve(e):
        """expand let-bound identifiers and `.0` of ByteIndex(..) to a canonical string"""
        if e["k"] == "Field" and e["member"] == "0":
            b = e["base"]
            if ident_of(b) in lets and lets[ident_of(b)]["k"] == "Call" and path_str(lets[ident_of(b)]["func"]) == "ByteIndex":
                return resolve(lets[ident_of(b)]["args"][0])
            return unparse(e)
        if e["k"] == "Binary" and e["op"] == "+":
            return "+".join(sorted([resolve(e["left"]), resolve(e["right"])]))
        if e["k"] == "MethodCall" and e["method"] in ("len", "len_utf8") and e["recv"]["k"] == "Lit":
            return str(len(e["recv"]["lit"]["v"].encode("utf-8")))
        if e["k"] == "Lit" and e["lit"]["t"] == "int":
            return e["lit"]["v"]
        return unparse(e)

    a_s, b_s = resolve(a_e), resolve(b_e)
    want_a = "+".join(sorted(["%s.0" % start_p, "1"]))
    res.inst("R-C08-abs", "finish|scan-range", where(loop), True, "scan covers src[%s .. %s]" % (a_s, b_s))
    if a_s != want_a or b_s != "%s.0" % end_p:
        res.violate("R-C08-abs", "finish|scan-range", where(loop), "the bracket scan must cover the attribute from just after `#` to its end (src[start+1 .. end]); found src[%s .. %s]" % (a_s, b_s))
    # error exits inside the loop
    n_err = 0
    for r in nodes(loop["body"], "Return"):
        e = r["expr"]
        if not (e and e["k"] == "Call" and path_str(e["func"]) == "Err"):
            res.unanalysable("R-C08-abs", "finish|return", where(r), "unexpected return in the scan loop")
            continue
        ke = e["args"][0]
        if not (ke["k"] == "Call" and path_str(ke["func"]) == "KikiErr::Lex" and len(ke["args"]) == 2):
            res.violate("R-C08-abs", "finish|error-variant", where(r), "scan errors must be KikiErr::Lex(index, Some(char))")
            continue
        n_err += 1
        ie, ce = ke["args"]
        got = resolve(ie["args"][0]) if ie["k"] == "Call" and path_str(ie["func"]) == "ByteIndex" else unparse(ie)
        want = "+".join(sorted(a_s.split("+") + [i_name]))
        res.inst("R-C08-abs", "finish|error-index#%d" % n_err, where(r), True, "index %s (absolute = slice start + offset)" % got)
        if "+".join(sorted(got.split("+"))) != want:
            res.violate("R-C08-abs", "finish|relative-index", where(r), "error index `%s` is relative to the scanned sub-slice; the absolute position is slice start + offset (`%s`)" % (got, want))
        if not (ce["k"] == "Call" and path_str(ce["func"]) == "Some" and ident_of(ce["args"][0]) == ch_name):
            res.violate("R-C08-abs", "finish|error-char", where(r), "scan error must carry the offending bracket itself, found %s" % unparse(ce))
    res.floor("error exits of the bracket scan", n_err, 1)
    # bracket sets
    ms = [m for m in nodes(loop["body"], "Match") if ident_of(m["expr"]) == ch_name]
    if len(ms) != 1:
        res.unanalysable("R-C08-table", "finish|match", where(loop), "scan loop is not a match on the scanned character")
    else:
        openers, closers = set(), set()
        for a in ms[0]["arms"]:
            lits = [a["pat"]] if a["pat"]["k"] == "PLit" else (a["pat"]["cases"] if a["pat"]["k"] == "POr" else [])
            cs = {l["lit"]["v"] for l in lits if l["k"] == "PLit"}
            body_txt = unparse(a["body"])
            pushes = [m for m in nodes(a["body"], "MethodCall") if m["method"] == "push"]
            pops = [m for m in nodes(a["body"], "MethodCall") if m["method"] == "pop"]
            if pushes and not pops:
                openers |= cs
            elif pops:
                closers |= cs
                # pair relation
                pm = [m for m in nodes(a["body"], "Match") if m["expr"]["k"] == "Tuple"]
                pairs = set()
                fused_pop = False
                for m2 in pm:
                    # `match (stack.pop(), current)`: the popped Option is matched together with the closer
                    e0 = m2["expr"]["elems"][0] if m2["expr"].get("elems") else None
                    fused = e0 is not None and e0["k"] == "MethodCall" and e0["method"] == "pop"
                    others_return = True
                    any_guard = any(a2_["guard"] is not None for a2_ in m2["arms"])
                    for a2 in m2["arms"]:
                        cases = a2["pat"]["cases"] if a2["pat"]["k"] == "POr" else [a2["pat"]]
                        is_pair_arm = False
                        for cse in cases:
                            if cse["k"] == "PTuple" and len(cse["elems"]) == 2 and all(x["k"] == "PLit" for x in cse["elems"]) and not fused:
                                if not nodes(a2["body"], "Return"):
                                    pairs.add((cse["elems"][0]["lit"]["v"], cse["elems"][1]["lit"]["v"]))
                            if fused and cse["k"] == "PTuple" and len(cse["elems"]) == 2 and cse["elems"][1]["k"] == "PLit" and cse["elems"][0]["k"] == "PTupleStruct" and cse["elems"][0]["path"]["segs"] == ["Some"] and len(cse["elems"][0]["elems"]) == 1 and cse["elems"][0]["elems"][0]["k"] == "PLit":
                                if not nodes(a2["body"], "Return"):
                                    pairs.add((cse["elems"][0]["elems"][0]["lit"]["v"], cse["elems"][1]["lit"]["v"]))
                                    is_pair_arm = True
                        if fused and not is_pair_arm and not nodes(a2["body"], "Return"):
                            others_return = False
                    if fused and others_return and not any_guard:
                        fused_pop = True  # every other case, the empty stack (None) included, leaves with the error
                res.inst("R-C08-table", "finish|pairs", where(a), True, "accepted pairs %s" % sorted(pairs))
                if pairs != {("(", ")"), ("[", "]"), ("{", "}")}:
                    res.violate("R-C08-table", "finish|pairs", where(a), "bracket kinds must match pairwise ( ) [ ] { }; the scan accepts %s" % sorted(pairs))
                # pop on empty stack is an error
                if not fused_pop and not any(st.get("else") is not None for st in nodes(a["body"], "Let")):
                    res.violate("R-C08-table", "finish|pop-empty", where(a), "a closing bracket on an empty stack must be an error (let … else)")
        res.inst("R-C08-table", "finish|bracket-sets", where(loop), True, "openers %s closers %s" % (sorted(openers), sorted(closers)))
        if openers != set("([{") or closers != set(")]}"):
            res.violate("R-C08-table", "finish|bracket-sets", where(loop), "openers/closers of the scan are %s / %s, documented: ( [ {  /  ) ] }" % (sorted(openers), sorted(closers)))
    # after the loop: emptiness test before success
    after = stmts[stmts.index([st for st in stmts if st["k"] == "ExprStmt" and st["expr"] is loop][0]) + 1:]
    guard_ok = False
    for st in after:
        if st["k"] == "ExprStmt" and st["expr"]["k"] == "If":
            c = unparse(st["expr"]["cond"]).replace(" ", "")
            rets = nodes(st["expr"]["then"], "Return")
            if c.startswith("!") and c.endswith(".is_empty()") and rets:
                e = rets[0]["expr"]
                txt = unparse(e).replace(" ", "")
                guard_ok = txt == "Err(KikiErr::Lex(%s,None))" % end_p
                res.inst("R-C08-stack", "finish|open-at-end", where(st), True, "if !stack.is_empty() -> %s" % txt)
                if not guard_ok:
                    res.violate("R-C08-stack", "finish|open-at-end-payload", where(st), "an attribute still open when its text ends must be reported as Lex(<end of input>, None); found %s" % txt)
                    guard_ok = True
            break
        if st["k"] == "ExprStmt" and (".push(" in unparse(st["expr"]) or st["expr"]["k"] == "Assign"):
            break
    if not guard_ok:
        res.violate("R-C08-stack", "finish|open-at-end", where(fn), "the success path of the attribute finisher is not guarded by an emptiness test of the bracket stack: an attribute still open at end of input is accepted")
    # success effects
    succ_txt = " ; ".join(unparse(st.get("expr") or st.get("init")) for st in after)
    want_tok = "self.%s.push(Token::OuterAttribute(Attribute { src: self.%s[%s.0..%s.0].to_string(), position: %s }))" % (tf.out_field, tf.src_field, start_p, end_p, start_p)
    want_state = "self.%s = %s::%s" % (tf.state_field, tf.state_enum, tf.initial_state)
    from ..syn import norm_owned_text
    has_tok = any(norm_owned_text(unparse(st.get("expr"))) == norm_owned_text(want_tok) for st in after if st["k"] == "ExprStmt")
    has_state = any(st["k"] == "ExprStmt" and st["expr"]["k"] == "Assign" and (unparse(st["expr"]["left"]) + " = " + unparse(st["expr"]["right"])).replace(" ", "") == want_state.replace(" ", "") for st in after)
    res.inst("R-C08-table", "finish|success", where(fn), True, "emits OuterAttribute{src[start..end], start} and returns to the initial state: %s" % (has_tok and has_state))
    if not has_tok:
        res.violate("R-C08-table", "finish|token", where(fn), "on success the finisher must emit OuterAttribute { src: src[start..end] (verbatim), position: start }")
    if not has_state:
        res.violate("R-C08-table", "finish|state", where(fn), "on success the finisher must return to the initial state")


def run_rules(syn, res):
    T, EXH, ADV, ABS, STK = "R-C08-table", "R-C08-exh", "R-C08-adv", "R-C08-abs", "R-C08-stack"
    res.rule(T, "extracted transition table (state variant x character class, plus end-of-input column) == reference table, cell by cell, modulo the state invariants (end payload == current index, one-char states start at current-1)")
    res.rule(EXH, "dispatcher and flush match every state variant without wildcard; reserved-word and punctuation tables equal the documented lists")
    res.rule(ADV, "every new end index adds the UTF-8 width of the consumed character (checked per class with multi-byte representatives; part of the table comparison: its instances are the multi-byte cells of R-C08-table)", optional=True)
    res.rule(ABS, "every index reaching a Lex error from the bracket scan is absolute (slice start + offset) and the scan iterates byte offsets")
    res.rule(STK, "the attribute finisher tests the bracket stack for emptiness before its success path and reports Lex(end, None)")
    tf = tok_extract(syn)
    for (k, line, msg) in tf.problems:
        res.unanalysable(T, "extract|" + k, "%s:%d" % (tf.file or "?", line), msg)
    if tf.problems or tf.dispatcher is None or tf.flush is None or tf.initial_state is None:
        res.floor("tokenizer anchors (driver, dispatcher, flush, initial state)", 0, 1)
        return tf, None
    fins = find_finish(tf)
    finish_name = fins[0] if len(fins) == 1 else None
    if finish_name is None:
        res.unanalysable(T, "anchor|finisher", tf.file, "expected exactly one scanning helper (attribute finisher), found %s" % fins)
        return tf, None
    check_driver_shape(tf, res, T)
    # R-C08-exh
    for (nm, fn) in (("dispatcher", tf.dispatcher), ("flush", tf.flush)):
        ms = [m for m in nodes(fn["body"], "Match") if m["expr"]["k"] == "Field" and ident_of(m["expr"]["base"]) == "self" and m["expr"]["member"] == tf.state_field]
        if len(ms) != 1:
            res.unanalysable(EXH, nm + "|match", "%s:%d" % (tf.file, fn["line"]), "no single `match self.%s` in the %s" % (tf.state_field, nm))
            continue
        vs = []
        for a in ms[0]["arms"]:
            if a["pat"]["k"] in ("PWild", "PIdent") or a["guard"] is not None:
                res.violate(EXH, nm + "|wildcard", "%s:%d" % (tf.file, a["line"]), "wildcard or guarded arm in the %s's match on the state: a state variant can go unhandled silently" % nm)
            else:
                vs.append(a["pat"]["path"]["segs"][-1])
        res.inst(EXH, nm + "|arms", "%s:%d" % (tf.file, fn["line"]), True, "%d explicit arms" % len(vs))
        if sorted(vs) != sorted(tf.state_payload_types):
            res.violate(EXH, nm + "|coverage", "%s:%d" % (tf.file, fn["line"]), "%s arms %s, state variants %s" % (nm, sorted(vs), sorted(tf.state_payload_types)))
    res.inst(EXH, "reserved-words", tf.file, True, "%s" % sorted(tf.reserved.items()))
    if tf.reserved != RESERVED_REF:
        res.violate(EXH, "reserved-words", tf.file, "reserved-word table is %s, documented: %s" % (sorted(tf.reserved.items()), sorted(RESERVED_REF.items())))
    got_p = dict(tf.punct)
    for k, v in PUNCT_OPTIONAL.items():
        if got_p.get(k) == v:
            del got_p[k]
    res.inst(EXH, "punctuation", tf.file, True, "%s" % sorted(tf.punct.items()))
    if got_p != PUNCT_REF:
        res.violate(EXH, "punctuation", tf.file, "single-character punctuation table is %s, documented: %s" % (sorted(tf.punct.items()), sorted(PUNCT_REF.items())))
    # roles
    try:
        roles = discover_roles(tf, finish_name, res)
    except Unanalysable as u:
        res.unanalysable(T, "roles", "%s:%d" % (tf.file, u.line), "cannot discover the state roles: " + u.msg)
        return tf, None
    except (IndexError, KeyError, TypeError, AttributeError, ValueError, RecursionError) as ex:
        res.unanalysable(T, "roles", tf.file, "cannot discover the state roles: the tokenizer has a shape the interpreter cannot evaluate (%s: %s)" % (type(ex).__name__, str(ex)[:80]))
        return tf, None
    missing = [r for r in ROLES if not roles.get(r)]
    res.inst(T, "state-roles", tf.file, True, "%s" % roles)
    if missing or len(set(roles.values())) != len(ROLES) or set(roles.values()) != set(tf.state_payload_types):
        res.violate(T, "state-roles", tf.file, "cannot map the state variants %s onto the documented lexer states (missing roles %s, mapping %s)" % (sorted(tf.state_payload_types), missing, roles))
        return tf, None
    ref = Ref(roles)
    variant_role = {v: r for r, v in roles.items()}
    cells = 0
    bad = 0
    for role in ROLES:
        variant = roles[role]
        for (cname, c) in REPRESENTATIVES + [("end of input", None)]:
            cells += 1
            key = "cell|%s|%s" % (role, cname)
            try:
                st0 = symbolic_state(tf, variant)
                if c is not None:
                    outs = run_all(tf, finish_name, tf.dispatcher["name"], [V("char", c), V("idx", L("cur"))], st0)
                else:
                    outs = run_all(tf, finish_name, tf.flush["name"], [V("none"), V("idx", L("len"))], st0)
            except Unanalysable as u:
                bad += 1
                res.unanalysable(T, key, "%s:%d" % (tf.file, u.line), "state %s on %s: %s" % (variant, cname, u.msg))
                continue
            except (IndexError, KeyError, TypeError, AttributeError, ValueError, RecursionError) as ex:
                # a shape the abstract interpreter was not written for: the cell is undecided, not the run broken
                bad += 1
                res.unanalysable(T, key, tf.file, "state %s on %s: the handler has a shape the interpreter cannot evaluate (%s: %s)" % (variant, cname, type(ex).__name__, str(ex)[:80]))
                continue
            m = invariants(role, c is None)
            got = {}
            for o in outs:
                k = frozenset((norm(kk, m), vv) for kk, vv in o.assume.items())
                r = o.result
                if r[0] == "err":
                    got[k] = (norm(r, m), None, None)
                else:
                    got[k] = (norm(r, m), norm(o.state, m), norm(o.emits, m))
            want_raw = ref.cell(role, c)
            want = {}
            for k, (r, s_, em) in want_raw.items():
                kk = frozenset((norm(a, m), b) for a, b in k)
                if r[0] == "err":
                    want[kk] = (norm(r, m), None, None)
                else:
                    want[kk] = (norm(r, m), norm(s_, m), norm(em, m))
            if got != want:
                bad += 1
                res.violate(T, key, "%s:%d" % (tf.file, tf.fns[handler_of(tf, variant)]["line"] if handler_of(tf, variant) in tf.fns else 0),
                            "lexer state %s (%s) on %s: extracted outcome differs from the documented rule.\n    extracted: %s\n    reference: %s" % (role, variant, cname, describe(got), describe(want)),
                            {"extracted": repr(got), "reference": repr(want)})
            res.inst(T, key, tf.file, c is not None and ord(c) > 127 or cells % 7 == 0, "")
    res.count("table cells compared (state x class incl. EOF)", cells)
    res.count("cells differing", bad)
    res.floor("table cells compared", cells, 9 * 30)
    check_finish(tf, finish_name, res)
    return tf, roles


def handler_of(tf, variant):
    if tf.dispatch_match is None:
        return None
    for a in tf.dispatch_match["arms"]:
        if a["pat"]["k"] in ("PPath", "PTupleStruct") and a["pat"]["path"]["segs"][-1] == variant:
            b = a["body"]
            if b["k"] == "MethodCall":
                return b["method"]
            ms = nodes(b, "MethodCall")
            if ms:
                return ms[0]["method"]
    return None


def describe(d):
    out = []
    for k, (r, s_, em) in sorted(d.items(), key=lambda x: repr(x[0])):
        asm = ", ".join("%s=%s" % (a[0][0] if isinstance(a[0], tuple) else a[0], a[1]) for a in sorted(k, key=repr))
        out.append("%s%s; next state %s; emits %s" % ("[if %s] " % asm if asm else "", short(r), short(s_), short(em)))
    return " || ".join(out)


def short(x):
    s_ = pretty(x)
    return s_ if len(s_) < 400 else s_[:400] + "…"


def pretty(x):
    """readable rendering of a normalised outcome component"""
    if x is None:
        return "-"
    if isinstance(x, tuple) and x and x[0] == "lin":
        terms, const = x[1], x[2]
        parts = []
        for (k, v) in terms:
            nm = {"cur": "cur", "len": "len", "p0": "payload0", "p1": "payload1", "p2": "payload2", "n": "depth"}.get(k, k)
            parts.append(nm if v == 1 else "%d*%s" % (v, nm))
        if const or not parts:
            parts.append(str(const))
        return "+".join(parts).replace("+-", "-")
    if isinstance(x, tuple) and x and isinstance(x[0], str):
        tag = x[0]
        rest = x[1:]
        if tag == "idx":
            return pretty(rest[0])
        if tag == "state":
            return "%s(%s)" % (rest[0], ", ".join(pretty(a) for a in rest[1]))
        if tag == "count":
            return "depth=" + pretty(rest[0])
        if tag == "tok":
            return "%s(%s)" % (pretty(rest[0]) if not isinstance(rest[0], str) else rest[0], ", ".join(pretty(a) for a in rest[1:]))
        if tag == "struct":
            return "{%s}" % ", ".join("%s: %s" % (k, pretty(v)) for (k, v) in rest[1])
        if tag == "text":
            return "src[%s..%s]" % (pretty(rest[0]), pretty(rest[1]))
        if tag == "dollarless":
            return "dollarless(%s)" % pretty(rest[0])
        if tag == "reserved-token-of":
            return "keyword-token-of(%s)" % pretty(rest[0])
        if tag == "kikierr":
            return "%s(%s)" % (rest[0], ", ".join(pretty(a) for a in rest[1:]))
        if tag == "some":
            return "Some(%s)" % pretty(rest[0])
        if tag == "none":
            return "None"
        if tag == "char":
            return repr(rest[0])
        if tag in ("ok",):
            return "Ok"
        if tag == "err":
            return "Err(%s)" % ", ".join(pretty(a) for a in rest)
        if tag == "finish-error":
            return "<error from the bracket scan>"
        return "%s(%s)" % (tag, ", ".join(pretty(a) for a in rest))
    if isinstance(x, (tuple, list)):
        return "[%s]" % ", ".join(pretty(a) for a in x)
    return str(x)


def check(ctx):
    res = Result("C08", ctx["tier"], "other", ctx["seed"])
    syn = Syn(ctx["facts"]["syn"])
    run_rules(syn, res)
    check_entry(ctx, res)
    res.assume("the reference table in engines/rules/kv/props/c08.py transcribes USER_GUIDE.md and the property statement; 'first offending character' follows the convention pinned by the 22 tokenizer tests (a lexeme that cannot be completed blames the character that began it)")
    res.assume("char predicates are evaluated on class representatives with the checker's own definitions (Unicode White_Space list fixed in the checker)")
    return finish(res, "The tokenizer's transition relation is extracted from its syntax tree by abstract interpretation (concrete class representative incl. 2/3/4-byte characters, symbolic byte indices, explicit assumptions for 'pending text is a reserved word' / 'bracket depth is one' / 'bracket kinds match') and compared with a reference table cell by cell; the bracket scan and the driver loop are checked structurally; generate must hand the unmodified source to the tokenizer.")


def check_entry(ctx, res):
    """generate passes its own `src` parameter unmodified to the tokenizer (MIR)"""
    from ..mir import Mir, Exprs, strip_transparent
    rule = "R-C08-entry"
    res.rule(rule, "generate hands its `src` parameter itself (no normalisation, trimming or replacement) to the tokenizer, so reported byte indices refer to the caller's text")
    mir = Mir(ctx["facts"]["mir"])
    gens = [f for f in mir.fns.values() if f.pub and f.name == "generate" and f.kind == "Fn"]
    if len(gens) != 1:
        res.floor("anchor: pub fn generate", len(gens), 1)
        return
    g = gens[0]
    ex = Exprs(g)
    n = 0
    for c in g.calls():
        if c.local and c.args and mir.fns[c.rkey].output and "Token" in mir.fns[c.rkey].output["s"] and "Vec" in mir.fns[c.rkey].output["s"] and mir.fns[c.rkey].inputs and mir.fns[c.rkey].inputs[0]["s"] == "&str":
            n += 1
            e = ex.operand(c.args[0])
            e2 = e
            while e2.k in ("ref", "deref"):
                e2 = e2.a[0]
            good = e2.k == "param" and e2.a[0] == 1
            res.inst(rule, "tokenize-arg", c.where, True, "argument expression: %r" % e)
            if not good:
                res.violate(rule, "tokenize-arg", c.where, "the tokenizer does not receive generate's own `src` parameter but %r: byte indices in errors no longer refer to the caller's text" % e)
    res.floor("call of the tokenizer in generate", n, 1)
