"""C11 — a table-conflict error pinpoints a real conflict in the automaton the tables were being
filled from: provenance of every field of the error (MIR def-use, role-anchored)."""
import re

from ..mir import Mir, Exprs, canon, strip_transparent, Call
from ..report import Result, finish
from ..conflict import value_projections, find_stage, check_writer, check_eq


def param_of_type(fn, suffix, ref=None):
    out = []
    for i, t in enumerate(fn.inputs):
        if t["head"].endswith(suffix) and (ref is None or (t["refs"] > 0) == ref):
            out.append(i + 1)
    return out


def check(ctx):
    res = Result("C11", ctx["tier"], "other", ctx["seed"])
    mir = Mir(ctx["facts"]["mir"])
    SITE, FIELDS, FWD, LA, CTX = "R-C11-site", "R-C11-fields", "R-C11-forward", "R-C11-la", "R-C11-context"
    res.rule(SITE, "the conflict error is aggregated in exactly one function, on the branch where the stored action differs from the new one")
    res.rule(FIELDS, "state_index is the function's own state parameter, which is also the first component of the key of the failed lookup; the item pair is (item stored in the looked-up entry, the function's own item parameter); file and machine are clones of the builder context's references")
    res.rule(FWD, "along every call chain from the per-state loop to the conflict detector the state and item arguments are the caller's own parameters unchanged; at the top the item is the loop variable of an iteration over states[state_index].items with the same state_index, and state_index is the loop counter over 0..states.len()")
    res.rule(LA, "the look-ahead under which an action is entered is, per action kind: reduce -> the item's own look-ahead, shift -> the terminal at the item's own dot in the item's own rule (destination = the transition from this state on that terminal), accept -> end of input; the reduced rule is the item's own rule")
    res.rule(CTX, "in generate the automaton handed to table filling is the value returned by automaton construction from the validated file, and the file handed over is that same validated file; the builder context stores exactly these two references")
    st = find_stage(mir, res, SITE)
    if st is None:
        return finish(res, "anchor missing")
    w = st.writer
    check_writer(st, res, SITE)
    check_eq(st, res, SITE)
    ex = Exprs(w)
    # ---- fields
    rv = st.agg_stmt["rv"]
    fields = dict(zip(rv["fields"], [ex.operand(o) for o in rv["ops"]]))
    sp = param_of_type(w, "::StateIndex")
    ip = param_of_type(w, "::StateItem")
    qp = param_of_type(w, "::Quasiterminal")
    ap = param_of_type(w, "::Action")
    if not (len(sp) == 1 and len(ip) == 1 and len(qp) == 1 and len(ap) == 1):
        res.unanalysable(FIELDS, "writer-signature", w.where, "conflict detector does not take exactly one state index, one look-ahead, one item and one action")
        return finish(res, "signature")
    sp, ip, qp, ap = sp[0], ip[0], qp[0], ap[0]
    want_key = "tuple{param%d, param%d}" % (sp, qp)
    res.inst(FIELDS, "lookup-key", st.get.where if hasattr(st, "get") else w.where, True, "key of the failed lookup: %s" % getattr(st, "key_expr", "?"))
    if getattr(st, "key_expr", None) != want_key:
        res.violate(FIELDS, "lookup-key", w.where, "the lookup key must be (own state parameter, own look-ahead parameter) = %s, found %s" % (want_key, getattr(st, "key_expr", None)))
    expect = {
        "state_index": "param%d" % sp,
        "items": "tuple{(HashMap::get(param1.%s, %s) as Some).0%s, param%d}" % (st.map_field, want_key, value_projections(st)[0], ip),
    }
    for f, wv in expect.items():
        got = canon(fields[f]) if f in fields else None
        res.inst(FIELDS, "field|" + f, w.where, True, "%s" % got)
        if got != wv:
            res.violate(FIELDS, "field|" + f, w.where, "conflict error field `%s` is `%s`; it must be `%s`" % (f, got, wv))
    # file / machine: clones of references held by the builder's context
    ctx_fields = {}
    for f in ("file", "machine"):
        got = canon(fields[f]) if f in fields else None
        m = re.match(r"^param1\.(\w+)\.(\w+)$", got or "")
        res.inst(FIELDS, "field|" + f, w.where, True, "%s" % got)
        if not m:
            res.violate(FIELDS, "field|" + f, w.where, "conflict error field `%s` is `%s`; it must be a clone of a reference stored in the builder's context" % (f, got))
        else:
            ctx_fields[f] = (m.group(1), m.group(2))
    extra = set(fields) - {"state_index", "items", "file", "machine"}
    if extra:
        res.unanalysable(FIELDS, "extra-fields", w.where, "conflict error has fields the rule does not know: %s" % sorted(extra))

    # ---- forwarding chain
    chain_fns = [mir.fns[k] for k in st.chain if k != w.key]
    n_fwd = 0
    tops = []
    from ..mir import closure_loop_context, lift_closure_canon
    for fn in chain_fns:
        fex = Exprs(fn)
        fsp, fip = param_of_type(fn, "::StateIndex"), param_of_type(fn, "::StateItem")
        # a closure handed to try_for_each / for_each is the body of a loop in its parent: read it in the parent's terms
        cctx = closure_loop_context(mir, fn) if fn.kind == "Closure" else None
        if cctx is not None:
            fsp, fip = param_of_type(cctx[0], "::StateIndex"), param_of_type(cctx[0], "::StateItem")
        for c in fn.calls():
            if not (c.local and c.rkey in st.chain | {w.key}):
                continue
            callee = mir.fns[c.rkey]
            if callee.kind == "Closure" and closure_loop_context(mir, callee) is not None:
                continue
            csp, cip = param_of_type(callee, "::StateIndex"), param_of_type(callee, "::StateItem")
            for (kind, cps, fps) in (("state", csp, fsp), ("item", cip, fip)):
                for cp in cps:
                    got = canon(fex.operand(c.args[cp - 1]))
                    if cctx is not None:
                        got = lift_closure_canon(got, cctx)
                    n_fwd += 1
                    key = "%s->%s|%s" % (fn.path.rsplit("::", 1)[-1], callee.path.rsplit("::", 1)[-1], kind)
                    if fps:
                        ok = got == "param%d" % fps[0]
                        res.inst(FWD, key, c.where, True, got)
                        if not ok:
                            res.violate(FWD, key, c.where, "%s argument passed to %s is `%s`, not the caller's own %s parameter" % (kind, callee.path, got, kind))
                    else:
                        tops.append((fn, c, kind, got))
    for (fn, c, kind, got) in tops:
        key = "top|%s|%s" % (fn.path.rsplit("::", 1)[-1], kind)
        cctx = closure_loop_context(mir, fn) if fn.kind == "Closure" else None
        if cctx is not None:
            fn = cctx[0]
        if kind == "state":
            ok = bool(re.match(r"^StateIndex::StateIndex\{\(range::next\(IntoIterator@\w+::into_iter\(Range::Range\{const\(0_usize\), (slice|Vec)::len\((Deref@Oset::deref\()?param1\.(\w+)\.states\)?\)\}\)\) as Some\)\.0\}$", got))
            ok = ok or bool(re.match(r"^StateIndex::StateIndex\{\(Iterator@Enumerate::next\(IntoIterator@\w+::into_iter\(Iterator::enumerate\(slice::iter\((Deref@Oset::deref\()?param1\.(\w+)\.states\)?\)\)\)\) as Some\)\.0\.0\}$", got))
            msg = "the state index handed down must be the loop counter over 0..states.len() of the automaton in the context"
        else:
            fsp = param_of_type(fn, "::StateIndex")
            ok = bool(fsp) and bool(re.match(r"^\(Iterator@\w+::next\(IntoIterator@\w+::into_iter\((?:slice::iter\()?(?:Deref@Oset::deref\()?(?:Deref@Oset::deref\()?param1\.(\w+)\.states\)?\[param%d\.0\]\.items\)?\)?\)\) as Some\)\.0$" % fsp[0], got))
            if not ok:
                # ... or over states[i].items with i the counter of the enclosing loop over 0..states.len(), the state index
                # handed down being StateIndex(i) of that same counter (the two scans merged into one function)
                CNT = r"\(range::next\(IntoIterator@\w+::into_iter\(Range::Range\{const\(0_usize\), (?:slice|Vec)::len\((?:Deref@Oset::deref\()?param1\.(\w+)\.states\)?\)\}\)\) as Some\)\.0"
                mi = re.match(r"^\(Iterator@\w+::next\(IntoIterator@\w+::into_iter\((?:slice::iter\()?(?:Deref@Oset::deref\()?(?:Deref@Oset::deref\()?param1\.(\w+)\.states\)?\[(%s)\]\.items\)?\)?\)\) as Some\)\.0$" % CNT, got)
                if mi:
                    sts = [g2 for (f2, c2, k2, g2) in tops if f2 is fn and k2 == "state"]
                    ok = bool(sts) and all(g2 == "StateIndex::StateIndex{%s}" % mi.group(2) for g2 in sts)
            if not ok:
                # ... or over the items of a `&State` parameter that every caller fills with the state paired with the index
                from ..conflict import state_param_is_own_state
                mp = re.match(r"^\(Iterator@\w+::next\(IntoIterator@\w+::into_iter\((?:slice::iter\()?(?:Deref@Oset::deref\()?param(\d+)\.items\)?\)?\)\) as Some\)\.0$", got)
                ok = bool(mp) and fn.inputs[int(mp.group(1)) - 1]["head"].endswith("::State") and state_param_is_own_state(st, fn, int(mp.group(1)))
            msg = "the item handed down must be the loop variable of an iteration over states[<own state parameter>].items of the automaton in the context"
        res.inst(FWD, key, c.where, True, got)
        if not ok:
            res.violate(FWD, key, c.where, "%s; found `%s`" % (msg, got))
    res.floor("forwarded state/item arguments checked", n_fwd, 8)

    # ---- look-ahead and action per call site of the conflict detector
    from ..roles import roles_of
    R = roles_of(mir)
    n_sites = 0
    for fn in chain_fns:
        fex = Exprs(fn)
        for c in fn.calls():
            if not (c.local and c.rkey == w.key):
                continue
            n_sites += 1
            q = canon(fex.operand(c.args[qp - 1]))
            a = canon(fex.operand(c.args[ap - 1]))
            fip = param_of_type(fn, "::StateItem")
            fsp = param_of_type(fn, "::StateIndex")
            item = "param%d" % fip[0] if fip else "?"
            state = "param%d" % fsp[0] if fsp else "?"
            key = "site|%s" % fn.path.rsplit("::", 1)[-1]
            res.inst(LA, key, c.where, True, "look-ahead %s ; action %s" % (q, a))
            if a.startswith("Action::Reduce{"):
                if q != "%s(%s.lookahead)" % (R.nm("lookahead_as_quasiterminal"), item):
                    res.violate(LA, key + "|reduce-lookahead", c.where, "a reduce action must be entered under the item's own look-ahead (`as_quasiterminal(%s.lookahead)`), found `%s`" % (item, q))
                # the rule: a parameter that the caller filled from item.rule_index
                m = re.match(r"^Action::Reduce\{(param\d+)\}$", a)
                if not m and a == "Action::Reduce{(%s.rule_index as Original).0}" % item:
                    pass  # read off the item in place (the filler inlined into the function that holds the item)
                elif not m:
                    res.violate(LA, key + "|reduce-rule", c.where, "the reduced rule must be the rule index forwarded from the item, found `%s`" % a)
                else:
                    check_rule_index_origin(mir, st, fn, int(m.group(1)[5:]), res, LA)
            elif a.startswith("Action::Shift{"):
                m = re.match(r"^Quasiterminal::Terminal\{(param\d+)\}$", q)
                tparam = m.group(1) if m else None
                TERM_AT_DOT = "(%s(Index@Vec::index(param1.rules, (%s.rule_index as Original).0).fieldset, %s.dot) as Terminal).0.name" % (R.nm("symbol_accessor"), item, item)
                if not m and q == "Quasiterminal::Terminal{%s}" % TERM_AT_DOT:
                    # the terminal at the item's own dot in its own rule, read off in place (the shift filler inlined)
                    want_a = "Action::Shift{Option::unwrap(%s(param1.%s, %s, %s))}" % (R.nm("machine_shift_dest"), ctx_fields.get("machine", ("?", "machine"))[1], state, TERM_AT_DOT)
                    if a != want_a:
                        res.violate(LA, key + "|shift-dest", c.where, "the shift destination must be the transition from this very state on this very terminal (`%s`), found `%s`" % (want_a, a))
                elif not m:
                    res.violate(LA, key + "|shift-lookahead", c.where, "a shift action must be entered under the terminal at the item's dot, found `%s`" % q)
                else:
                    want_a = "Action::Shift{Option::unwrap(%s(param1.%s, %s, %s))}" % (R.nm("machine_shift_dest"), ctx_fields.get("machine", ("?", "machine"))[1], state, tparam)
                    if a != want_a:
                        res.violate(LA, key + "|shift-dest", c.where, "the shift destination must be the transition from this very state on this very terminal (`%s`), found `%s`" % (want_a, a))
                    check_terminal_origin(mir, st, fn, int(tparam[5:]), res, LA)
            elif a.startswith("Action::Accept"):
                if q != "Quasiterminal::Eof{}":
                    res.violate(LA, key + "|accept-lookahead", c.where, "accept must be entered under end of input, found `%s`" % q)
            else:
                res.unanalysable(LA, key + "|action", c.where, "unrecognised action expression `%s`" % a)
    res.floor("call sites of the conflict detector", n_sites, 3)

    # ---- context
    g = st.generate
    gex = Exprs(g)
    tb = [c for c in g.calls() if c.local and c.rkey in st.chain]
    if len(tb) != 1:
        res.unanalysable(CTX, "generate-call", g.where, "expected exactly one call from generate into the table-filling stage")
    else:
        c = tb[0]
        args = [canon(gex.operand(a)) for a in c.args]
        res.inst(CTX, "generate-args", c.where, True, "%s" % args)
        callee = mir.fns[c.rkey]
        mi = [i for i, t in enumerate(callee.inputs) if t["head"].endswith("::Machine")]
        fi = [i for i, t in enumerate(callee.inputs) if t["head"].endswith("validated_file::File")]
        ok = len(mi) == 1 and len(fi) == 1
        if ok:
            fa = args[fi[0]]
            ma = args[mi[0]]
            okf = bool(re.match(r"^\(Try@Result::branch\(%s\(.*\)\) as Continue\)\.0$" % R.sp("stage_validate"), fa))
            okm = bool(re.match(r"^%s\(%s\)$" % (R.sp("stage_machine"), re.escape(fa)), ma))
            if not okf:
                res.violate(CTX, "file-arg", c.where, "the grammar handed to table filling must be the value returned by validation, found `%s`" % fa)
            if not okm:
                res.violate(CTX, "machine-arg", c.where, "the automaton handed to table filling must be the one constructed from that same validated file, found `%s` (file: `%s`)" % (ma, fa))
        else:
            res.unanalysable(CTX, "entry-signature", callee.where, "table-filling entry does not take (automaton, file)")
        # the context constructor stores its two parameters
        for fn in chain_fns + [mir.fns[k] for k in mir.callgraph().get(c.rkey, ())]:
            for b in fn.blocks:
                for s_ in b["stmts"]:
                    if s_["k"] == "assign" and s_["rv"]["k"] == "agg" and s_["rv"].get("adt") == ctx_owner(mir, st):
                        fex = Exprs(fn)
                        vals = dict(zip(s_["rv"]["fields"], [canon(fex.operand(o)) for o in s_["rv"]["ops"]]))
                        fm = [i + 1 for i, t in enumerate(fn.inputs) if t["head"].endswith("::Machine")]
                        ff = [i + 1 for i, t in enumerate(fn.inputs) if t["head"].endswith("validated_file::File")]
                        good = fm and ff and vals.get(ctx_fields.get("machine", (0, "machine"))[1]) == "param%d" % fm[0] and vals.get(ctx_fields.get("file", (0, "file"))[1]) == "param%d" % ff[0]
                        res.inst(CTX, "context-ctor|" + fn.path, fn.where, True, "%s" % vals)
                        if not good:
                            res.violate(CTX, "context-ctor|" + fn.path, fn.where, "the builder context must store the automaton and file it was given: %s" % vals)
    # necessary conditions of the LALR(1) construction this property presupposes (imported from C17's clause check)
    from .c17 import run_rules as c17_rules
    from ..report import Result as _R2
    r17 = _R2("C17", ctx["tier"], "other")
    c17_rules(ctx, r17)
    res.rule("R-C17-* (imported)", "the six structural necessary conditions of the LALR(1) construction (C17 clauses N1-N6: symmetric core equality, change flag covers all mutated components, re-enqueue exactly on growth, closure/look-ahead augmentation, a transition per symbol, FIRST-of-sequence clears the nullable flag on every early exit) — this property's statement presupposes the automaton is the LALR(1) automaton")
    res.inst("R-C17-* (imported)", "C17-clauses", "", True, "%d instances, %d violations" % (len(r17.instances), len(r17.violations)))
    for v in r17.violations:
        res.violate(v.rule, v.key, v.where, v.msg, v.detail)
    # the automaton attached to the error is the normalised one: renumbering must be consistent (C01's rule, same facts)
    from . import c01 as _c01
    r01 = _R2("C01", ctx["tier"], "other")
    _c01.check_renumber(mir, r01, "R-C01-renumber")
    res.rule("R-C01-renumber (imported)", "start, state order and every transition end go through the updater of one sort of the automaton's own state list (C01's rule): the attached automaton's start and transitions name the states they mean")
    res.inst("R-C01-renumber (imported)", "C01 renumbering rule", "", True, "%d instances, %d violations" % (len(r01.instances), len(r01.violations)))
    for v in r01.violations:
        res.violate(v.rule, v.key, v.where, v.msg, v.detail)
    res.assume("not decided here: that the attached automaton is *the LALR(1)* automaton of the grammar (C17); decided: it is the automaton the tables were being filled from, built from the validated input")
    return finish(res, "Provenance of every field of the conflict error decided by intra-procedural value reconstruction on MIR along the whole call chain from the per-state loop to the single construction site, plus the look-ahead/action pairing at each of the three call sites of the conflict detector and the wiring in generate. No test ever constructs this error.")


def ctx_owner(mir, st):
    """the table-filling context type, by role: the one struct with a field holding the automaton and a field holding
    the validated file (both by reference)"""
    out = []
    for path, adt in mir.adts.items():
        vs = adt.get("variants", [])
        if len(vs) != 1:
            continue
        tys = [f["ty"].get("s", "") for f in vs[0]["fields"]]
        if any("machine::Machine" in t and t.startswith("&") for t in tys) and any("validated_file::File" in t and t.startswith("&") for t in tys):
            out.append(path)
    return out[0] if len(out) == 1 else None


def check_rule_index_origin(mir, st, fn, pidx, res, rule):
    """the rule index parameter `pidx` of fn is filled by every caller from item.rule_index"""
    for caller in [mir.fns[k] for k in st.chain]:
        cex = Exprs(caller)
        for c in caller.calls():
            if c.local and c.rkey == fn.key:
                got = canon(cex.operand(c.args[pidx - 1]))
                ip = param_of_type(caller, "::StateItem")
                item = "param%d" % ip[0] if ip else "?"
                key = "rule-origin|%s->%s" % (caller.path.rsplit("::", 1)[-1], fn.path.rsplit("::", 1)[-1])
                if re.match(r"^param\d+$", got) and got != item:
                    res.inst(rule, key, c.where, True, "forwarded %s" % got)
                    check_rule_index_origin(mir, st, caller, int(got[5:]), res, rule)
                    continue
                ok = got == "(%s.rule_index as Original).0" % item
                res.inst(rule, key, c.where, True, got)
                if not ok:
                    res.violate(rule, key, c.where, "the rule to reduce by must be the item's own rule (`(%s.rule_index as Original).0`), found `%s`" % (item, got))


def check_terminal_origin(mir, st, fn, pidx, res, rule):
    for caller in [mir.fns[k] for k in st.chain]:
        cex = Exprs(caller)
        for c in caller.calls():
            if c.local and c.rkey == fn.key:
                got = canon(cex.operand(c.args[pidx - 1]))
                ip = param_of_type(caller, "::StateItem")
                item = "param%d" % ip[0] if ip else "?"
                key = "terminal-origin|%s->%s" % (caller.path.rsplit("::", 1)[-1], fn.path.rsplit("::", 1)[-1])
                from ..roles import roles_of
                m = re.match(r"^\(%s\(Index@Vec::index\(param1\.rules, (param\d+)\)\.fieldset, %s\.dot\) as Terminal\)\.0\.name$" % (roles_of(mir).sp("symbol_accessor"), re.escape(item)), got)
                res.inst(rule, key, c.where, True, got)
                if not m:
                    res.violate(rule, key, c.where, "the shifted terminal must be the symbol at the item's own dot in its own rule, found `%s`" % got)
                else:
                    check_rule_index_origin(mir, st, caller, int(m.group(1)[5:]), res, rule)
