"""C16 — whitespace, line endings and comments never influence the result (non-interference).

Layout can reach the result only through (i) the token stream, (ii) positions, (iii) the raw text.
"""
import re

from ..syn import Syn
from ..report import Result, finish
from ..tokinterp import is_whitespace

POST_VALIDATION = ("validated_ast_to_machine/", "normalize_machine.rs", "sort_and_get_index_updater.rs", "machine_to_table.rs", "table_to_rust.rs",
                   "data/machine.rs", "data/table.rs", "data/oset.rs", "data/index_updater.rs", "data/unnormalized_machine.rs", "data/validated_file.rs")
CMP_TRAITS = ("std::cmp::PartialEq", "std::cmp::Eq", "std::cmp::PartialOrd", "std::cmp::Ord", "std::hash::Hash")


def run_rules(ctx, res):
    LEX, POS, SRC = "R-C16-lex", "R-C16-pos", "R-C16-src"
    res.rule(LEX, "from the extracted tokenizer table (C08): in the initial state every whitespace class stays without emission; every comment-state cell emits nothing and only `\\n` leaves it; the end-of-input cells of both are Ok without emission; for every token-in-progress state the flush outcome is the same for all separator classes")
    res.rule(POS, "position information is payload only: no comparison/hash of the byte-index type or of position-carrying identifier/attribute types is called from non-derived code reachable from generate; no position field is read and no byte index enters arithmetic in the post-validation stages; in validation a byte index is only copied into an error or stored as a map value")
    res.rule(SRC, "the raw text is read only by the tokenizer, by the error-span conversion and by sha256::digest: in generate the `src` parameter has exactly these three uses, and the emitter's grammar-source field is read only as the digest's argument")
    syn = Syn(ctx["facts"]["syn"], ctx.get("synfacts_bin"))
    # ---- lex: C08 table verdict restricted to the layout cells, plus a self-check of the reference
    from .c08 import run_rules as c08_rules, Ref, REPRESENTATIVES, ROLES
    from ..report import Result as R2
    r8 = R2("C08", "quick", "other")
    tf, roles = c08_rules(syn, r8)
    layout_classes = {name for (name, c) in REPRESENTATIVES if is_whitespace(c) or c == "/"} | {"end of input"}
    sep_classes = {name for (name, c) in REPRESENTATIVES if is_whitespace(c) or c in "/,(){}<>:#$"}
    n_cells = 0
    for v in r8.violations:
        k = v.key
        m = re.match(r"^cell\|(\w+)\|(.*?)(#unanalysable)?$", k)
        relevant = False
        if m:
            role, cls = m.group(1), m.group(2)
            if role in ("MAIN", "SLASH") and cls in layout_classes:
                relevant = True
            if role == "COMMENT":
                relevant = True
            if role in ("IDENT", "TIDENT", "COLON", "DOLLAR", "POUND") and (cls in sep_classes or cls == "end of input"):
                relevant = True
        else:
            relevant = v.rule in ("R-C08-table", "R-C08-exh", "floor") or "unanalysable" in k
        if relevant:
            res.violate(LEX, "c08|" + k, v.where, "layout neutrality of the tokenizer cannot be established: C08 %s fails: %s" % (v.rule, v.msg[:400]))
    cells = [i for i in r8.instances if i[1].startswith("cell|")]
    for (r, k, w, nt, note) in cells:
        m = re.match(r"^cell\|(\w+)\|(.*)$", k)
        if m and ((m.group(1) in ("MAIN", "SLASH") and m.group(2) in layout_classes) or m.group(1) == "COMMENT" or (m.group(1) in ("IDENT", "TIDENT", "COLON") and m.group(2) in sep_classes)):
            n_cells += 1
            res.inst(LEX, k, w, m.group(1) == "COMMENT" or not m.group(2).isascii(), "")
    res.count("layout-relevant table cells", n_cells)
    res.floor("layout-relevant table cells", n_cells, 100)
    # self-check of the reference table (the oracle itself must be layout-neutral)
    if roles:
        ref = Ref(roles)
        ok = True
        for (name, c) in REPRESENTATIVES:
            if is_whitespace(c):
                o = ref.cell("MAIN", c)[frozenset()]
                ok = ok and o[0] == ("ok",) and o[1].a[0] == roles["MAIN"] and o[2] == []
            o = ref.cell("COMMENT", c)[frozenset()]
            ok = ok and o[0] == ("ok",) and o[2] == [] and (o[1].a[0] == roles["COMMENT"]) == (c != "\n")
        res.inst(LEX, "reference-self-check", "", True, "reference table is layout-neutral: %s" % ok)
        if not ok:
            res.violate(LEX, "reference-self-check", "", "the checker's own reference table is not layout-neutral (checker defect)")
    # ---- pos / src on MIR
    from ..mir import Mir, Exprs, canon, parse_at, strip_transparent
    mir = Mir(ctx["facts"]["mir"])
    gens = [f for f in mir.fns.values() if f.pub and f.name == "generate" and f.kind == "Fn"]
    if len(gens) != 1:
        res.floor("anchor: pub fn generate", len(gens), 1)
        return
    g = gens[0]
    reach = mir.reachable_from([g.key], include_trait_impls=True)
    bi = [p for p in mir.adts if p.endswith("::ByteIndex")]
    if len(bi) != 1:
        res.floor("anchor: byte-index type", len(bi), 1)
        return
    bi = bi[0]
    # position-carrying local types: closure over fields containing ByteIndex
    carriers = set()
    changed = True
    while changed:
        changed = False
        for p, a in mir.adts.items():
            if p in carriers:
                continue
            for v in a["variants"]:
                for f in v["fields"]:
                    if bi in f["ty"]["adts"] or any(c in f["ty"]["adts"] for c in carriers):
                        carriers.add(p)
                        changed = True
    carriers.add(bi)
    # result/error types legitimately carry positions; so do tokens and CST/AST
    res.count("position-carrying types", len(carriers))
    n_cmp = 0
    for k in sorted(reach):
        fn = mir.fns[k]
        if fn.derived or "/parser.rs" in fn.file:
            continue
        for c in fn.calls():
            r = c.resolved or {}
            tr = r.get("impl_trait") or (c.callee or {}).get("trait") or ""
            if tr in CMP_TRAITS:
                n_cmp += 1
                st = (c.callee or {}).get("self_ty") or {}
                adts = set(st.get("adts", []))
                hit = adts & carriers
                if hit:
                    res.violate(POS, "compare|%s|%s" % (fn.path, sorted(hit)[0]), c.where, "`%s` compares/hashes a value of position-carrying type %s: two layouts of the same token sequence can compare differently" % (c.rpath, sorted(hit)[0]))
    res.inst(POS, "comparisons-scanned", "", True, "%d comparison/hash calls in non-derived reachable code, none on a position-carrying type" % n_cmp)
    res.floor("comparison/hash calls scanned", n_cmp, 10)
    # hash maps / sets keyed by position-carrying types
    for k in sorted(reach):
        fn = mir.fns[k]
        if "/parser.rs" in fn.file:
            continue
        for l in fn.locals:
            ty = l["ty"]
            if ty["head"] in ("std::collections::HashMap", "std::collections::HashSet", "std::collections::BTreeMap", "std::collections::BTreeSet") and ty.get("targs"):
                key_ty = ty["targs"][0]
                if any(c.rsplit("::", 1)[-1] in re.findall(r"\w+", key_ty) and c in " ".join(ty["adts"]) for c in carriers if c != bi) or "ByteIndex" in key_ty:
                    res.violate(POS, "keyed-by-position|%s|%s" % (fn.path, key_ty[:40]), fn.where, "a map/set in %s is keyed by `%s`, which carries a position" % (fn.path, key_ty[:80]))
    # field reads of positions in post-validation stages
    n_reads = 0
    for k in sorted(reach):
        fn = mir.fns[k]
        if fn.derived or not any(s_ in fn.file for s_ in POST_VALIDATION):
            continue
        txt_hits = []
        for b in fn.blocks:
            if b["cleanup"]:
                continue
            objs = list(b["stmts"]) + [b["term"]]
            for o in objs:
                s_ = str(o)
                if "'name': 'position'" in s_ or "'name': 'dollarless_position'" in s_ or ("'owner': '%s'" % bi) in s_:
                    sp = o.get("span", {}).get("at") if isinstance(o, dict) else None
                    txt_hits.append(sp)
        n_reads += 1
        for sp in txt_hits:
            f_, l_ = parse_at(sp) if sp else (fn.file, fn.line)
            res.violate(POS, "position-read|%s" % fn.path, "%s:%d" % (f_, l_), "a position is read in the post-validation stage (%s): layout can influence the automaton, the tables or the emitted text" % fn.path)
    res.inst(POS, "post-validation-bodies-scanned", "", True, "%d bodies" % n_reads)
    res.floor("post-validation bodies scanned", n_reads, 60)
    # arithmetic / comparison on byte indices in validation
    for k in sorted(reach):
        fn = mir.fns[k]
        if fn.derived or "/validate_ast/" not in fn.file:
            continue
        ex = None
        for b in fn.blocks:
            if b["cleanup"]:
                continue
            for s_ in b["stmts"]:
                if s_["k"] == "assign" and s_["rv"]["k"] == "bin":
                    ex = ex or Exprs(fn)
                    a, b2 = canon(ex.operand(s_["rv"]["a"])), canon(ex.operand(s_["rv"]["b"]))
                    if re.search(r"position(\.0)?$", a) or re.search(r"position(\.0)?$", b2):
                        f_, l_ = parse_at(s_["span"]["at"])
                        res.violate(POS, "position-arith|%s" % fn.path, "%s:%d" % (f_, l_), "a byte position enters `%s` in validation (%s vs %s)" % (s_["rv"]["op"], a[:60], b2[:60]))
    # ---- src
    ex = Exprs(g)
    uses = []
    for c in g.calls():
        for ai, a in enumerate(c.args):
            e = ex.operand(a)
            e2 = e
            while e2.k in ("ref", "deref"):
                e2 = e2.a[0]
            if e2.k == "param" and e2.a[0] == 1:
                uses.append((c, ai))
    captures = []
    for b in g.blocks:
        for s_ in b["stmts"]:
            if s_["k"] == "assign" and s_["rv"]["k"] == "agg" and s_["rv"].get("ak") == "closure":
                for o in s_["rv"]["ops"]:
                    e = ex.operand(o)
                    while e.k in ("ref", "deref"):
                        e = e.a[0]
                    if e.k == "param" and e.a[0] == 1:
                        captures.append(s_["rv"]["closure"])
    names = sorted((c.rpath or "?").rsplit("::", 1)[-1] for (c, ai) in uses)
    res.inst(SRC, "generate-uses-of-src", g.where, True, "calls %s, closures %d" % (names, len(captures)))
    ok_calls = True
    n_conv = 0
    for (c, ai) in uses:
        tgt = mir.fns.get(c.rkey) if c.local else None
        role = None
        if tgt is not None and tgt.output and "Token" in tgt.output["s"] and "Vec" in tgt.output["s"]:
            role = "tokenizer"
        elif tgt is not None and tgt.output and tgt.output["s"].endswith("RustSrc"):
            role = "emitter"
        elif tgt is not None and tgt.output and tgt.output["s"].endswith("KikiErr") and not captures and n_conv == 0:
            role = "error-span conversion"  # the same conversion called without a closure (hand-written match instead of map_err)
            n_conv += 1
        if role is None:
            ok_calls = False
            res.violate(SRC, "src-use|%s" % (c.rpath or "?"), c.where, "generate hands the raw source text to `%s` (allowed: the tokenizer, the emitter's digest field, the error-span conversion)" % c.rpath)
    if len(captures) > 1:
        res.violate(SRC, "src-captures", g.where, "the raw source text is captured by %d closures in generate (only the error-span conversion may)" % len(captures))
    roles_found = set()
    for (c, ai) in uses:
        tgt = mir.fns.get(c.rkey) if c.local else None
        if tgt is not None and tgt.output and "Token" in tgt.output["s"]:
            roles_found.add("tokenizer")
        if tgt is not None and tgt.output and tgt.output["s"].endswith("RustSrc"):
            roles_found.add("emitter")
    if roles_found != {"tokenizer", "emitter"}:
        res.violate(SRC, "src-roles", g.where, "generate must hand its own `src` to the tokenizer and to the emitter (for the digest); found direct uses by %s — the text is transformed before being tokenised or hashed" % sorted(roles_found))
    # inside the emitter: the raw text (parameter, or a field that received it, through value-preserving
    # conversions) may only be forwarded to a local callee, stored into a field, or handed to sha256::digest
    from ..mir import TEXT_CONV

    def is_conv(path):
        from ..mir import TRANSPARENT_CALLS, is_clone_path
        return path in TRANSPARENT_CALLS or path in TEXT_CONV or is_clone_path(path)

    work = []
    for (c, ai) in uses:
        tgt = mir.fns.get(c.rkey) if c.local else None
        if tgt is not None and tgt.output and tgt.output["s"].endswith("RustSrc"):
            work.append((tgt, ai + 1))
    seen_p = set()
    src_fields = set()
    n_fw = 0

    def scan(fn, is_root, what):
        """every use of a raw-text value in fn: returns forwarded (callee, param index) pairs"""
        nonlocal n_fw
        fex = Exprs(fn)
        out = []

        def raw(op):
            if op["k"] not in ("copy", "move"):
                return False
            e = strip_transparent(fex.operand(op), extra=TEXT_CONV)
            return is_root(e)

        short = fn.path.rsplit("::", 1)[-1]
        for c in fn.calls():
            for ai, a_ in enumerate(c.args):
                if not raw(a_):
                    continue
                n_fw += 1
                rp = c.rpath or c.path or "?"
                if c.local and c.rkey in mir.fns:
                    out.append((mir.fns[c.rkey], ai + 1))
                    res.inst(SRC, "emitter-forward|%s->%s" % (short, rp.rsplit("::", 1)[-1]), c.where, True, what)
                elif rp.startswith("sha256::digest"):
                    res.inst(SRC, "emitter-digest|%s" % short, c.where, True, what)
                elif is_conv(rp) or is_conv(c.path or ""):
                    res.inst(SRC, "emitter-conversion|%s|%s" % (short, rp.rsplit("::", 1)[-1]), c.where, False, "value-preserving; its result is followed as the raw text")
                else:
                    res.violate(SRC, "emitter-src-use|%s|%s" % (short, rp.rsplit("::", 1)[-1]), c.where, "the emitter hands the raw grammar text to `%s`: layout (comments, whitespace) can reach the emitted code" % rp)
        for b_ in fn.blocks:
            if b_["cleanup"]:
                continue
            for s_ in b_["stmts"]:
                if s_["k"] == "assign" and s_["rv"]["k"] == "agg" and s_["rv"].get("ak") == "adt":
                    for fi, o in enumerate(s_["rv"]["ops"]):
                        if raw(o):
                            src_fields.add((s_["rv"]["adt"], s_["rv"]["fields"][fi]))
                if s_["k"] == "assign" and s_["rv"]["k"] == "agg" and s_["rv"].get("ak") == "closure":
                    for o in s_["rv"]["ops"]:
                        if raw(o):
                            res.violate(SRC, "emitter-src-captured|%s" % short, fn.where, "the raw grammar text is captured by a closure in the emitter (%s)" % fn.path)
                if s_["k"] == "assign" and s_["rv"]["k"] in ("bin", "len", "discr"):
                    ops = [s_["rv"].get(x) for x in ("a", "b", "op_", "place") if isinstance(s_["rv"].get(x), dict)]
                    for o in ops:
                        if "k" in o and raw(o):
                            f_, l_ = parse_at(s_["span"]["at"])
                            res.violate(SRC, "emitter-src-op|%s" % short, "%s:%d" % (f_, l_), "the raw grammar text enters a `%s` in the emitter" % s_["rv"]["k"])
        return out

    while work:
        fn, pi = work.pop()
        if (fn.key, pi) in seen_p:
            continue
        seen_p.add((fn.key, pi))
        work.extend(scan(fn, lambda e, pi=pi: e.k == "param" and e.a[0] == pi, "parameter %d" % pi))
    res.floor("uses of the raw text inside the emitter followed", n_fw, 1)
    res.floor("emitter fields that receive the raw text", len(src_fields), 1)
    n0 = n_fw
    for (adt, fld) in sorted(src_fields):
        for fn in mir.fns.values():
            if fn.derived or not (fn.impl and fn.impl["self_ty"]["head"] == adt):
                continue
            more = scan(fn, lambda e, fld=fld: e.k == "field" and e.a[1] == fld and strip_transparent(e.a[0]).k == "param" and strip_transparent(e.a[0]).a[0] == 1, "field %s" % fld)
            while more:
                f2, pi = more.pop()
                if (f2.key, pi) in seen_p:
                    continue
                seen_p.add((f2.key, pi))
                more.extend(scan(f2, lambda e, pi=pi: e.k == "param" and e.a[0] == pi, "parameter %d" % pi))
    res.floor("reads of the emitter's grammar-source field", n_fw - n0, 1)


def check(ctx):
    res = Result("C16", ctx["tier"], "other", ctx["seed"])
    run_rules(ctx, res)
    res.assume("given the three rules, two re-layouts of one token sequence produce the same names in the same order, hence (C14) the same emitted text except the digest, and the same error variant with positions that are copies of token positions")
    return finish(res, "Non-interference by flow analysis: lexical neutrality read off the extracted tokenizer table (C08), positions as payload only (no comparison/hash/arithmetic/key use on MIR, no position read after validation), raw text confined to tokenizer, error-span slice and digest.")
