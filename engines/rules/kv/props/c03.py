"""C03 (clause) — the emitted `parse` consumes its input lazily with one token of look-ahead and
hands back the un-mapped offending token / None at end of input.  Decided on the generator's
template (syn parse after marker substitution).  Not decided: that the reported index is the
smallest possible one (viable-prefix property of correct LALR(1) tables = C17)."""
import re

from ..syn import Syn, nodes, ident_of, path_str, method_chain, unparse
from .. import tpl
from ..driver_shape import check_driver
from ..report import Result, finish


def load_templates(ctx):
    syn = Syn(ctx["facts"]["syn"], ctx.get("synfacts_bin"))
    files = tpl.find_emitter_file(syn)
    if len(files) != 1:
        return syn, None, [], {}
    ts, consts = tpl.collect(syn, files[0])
    # const-bound placeholders are literal text
    for t in ts:
        if t.is_format:
            segs = []
            for s_ in t.segs:
                if s_[0] == "ph":
                    b = tpl.binding(t, s_[1])
                    if b is not None and b[0] == "const":
                        segs.append(("text", b[1]))
                        continue
                segs.append(s_)
            # merge adjacent text
            merged = []
            for s_ in segs:
                if merged and merged[-1][0] == "text" and s_[0] == "text":
                    merged[-1] = ("text", merged[-1][1] + s_[1])
                else:
                    merged.append(s_)
            t.segs = merged
    tpl.parse_items(syn, ts)
    return syn, files[0], ts, consts


def all_items(ts):
    for t in ts:
        if t.items:
            for it in t.items:
                yield t, it


def run_rules(ctx, res):
    LAZY, CALLS, NEXT, IDENT, EOFK = "R-C03-lazy", "R-C03-calls", "R-C03-next", "R-C03-ident", "R-C03-eofkind"
    res.rule(LAZY, "the token stream is `src.into_iter()` followed only by lazy adaptors {map, chain, peekable} with std::iter::once(<end-of-input variant>) as the only other source, ending in exactly one peekable()")
    res.rule(CALLS, "the only methods called on the stream are peek and next; peek occurs once, in the loop head; the action match has exactly the four arms shift/reduce/accept/error")
    res.rule(NEXT, "next() occurs once in the shift arm and otherwise only inside the operand of `return Err(..)`; a reduction consumes nothing and reads the goto from the new top state")
    res.rule(IDENT, "every `return Err(..)` hands back the token taken by next() through next/unwrap/try_into_terminal/ok only; try_into_terminal returns the wrapped token itself and Err exactly for the end-of-input variant")
    res.rule(EOFK, "the end-of-input variant appended to the stream, the variant try_into_terminal maps to Err, the variant from_quasiterminal maps, and the look-ahead kind it maps to are all the same placeholder, whose column is the last one (= number of terminals)")
    syn, efile, ts, consts = load_templates(ctx)
    if efile is None:
        res.floor("anchor: emitter file (format! literal containing `pub fn parse`)", 0, 1)
        return None
    parses = [(t, it) for (t, it) in all_items(ts) if it["k"] == "Fn" and it["name"] == "parse"]
    res.floor("anchor: `parse` item in a template that parses after marker substitution", len(parses), 1)
    if len(parses) != 1:
        if len(parses) > 1:
            res.violate(CALLS, "two-parse-items", efile, "more than one template defines `parse`")
        bad = [t for t in ts if "pub fn parse" in t.text and not t.items]
        for t in bad:
            res.unanalysable(CALLS, "parse-template", t.where, "the template containing `pub fn parse` does not parse after marker substitution: %s" % t.parse_err)
        return None
    t, fn = parses[0]
    df = check_driver(fn)
    res.inst(CALLS, "parse-shape", t.where, True, "stream=%s peek=%s next=%s start=%s" % (df.stream, df.counts.get("peek"), df.counts.get("next"), df.start_state))
    rmap = {"lazy": LAZY, "calls": CALLS, "next": NEXT, "ident": IDENT}
    for (r, k, line, msg) in df.problems:
        res.violate(rmap.get(r, CALLS), "%s|%s" % (r, k), "%s (template line %d)" % (t.where, line), msg)
    res.inst(LAZY, "stream-initialiser", t.where, True, "terminal ctor %s, end-of-input %s" % (df.terminal_ctor, df.eof_path))
    res.inst(NEXT, "next-sites", t.where, True, "%s next() in total" % df.counts.get("next"))
    res.inst(IDENT, "err-returns", t.where, True, "%d `return Err` sites checked" % len([r for r in nodes(fn["body"], "Return") if r["expr"] and r["expr"]["k"] == "Call" and path_str(r["expr"]["func"]) == "Err"]))
    if df.eof_path is None or df.terminal_ctor is None:
        return ts
    qenum = df.terminal_ctor[0]
    eofv = df.eof_path[-1]
    if df.eof_path[0] != qenum:
        res.violate(EOFK, "eof-enum", t.where, "end-of-input variant %s is not a variant of the enum that wraps terminals (%s)" % ("::".join(df.eof_path), qenum))
    # the enum declaration
    decl = [(tt, it) for (tt, it) in all_items(ts) if it["k"] == "EnumDef" and it["name"] == qenum]
    if len(decl) == 1:
        vs = [v["name"] for v in decl[0][1]["variants"]]
        res.inst(EOFK, "quasiterminal-enum", decl[0][0].where, True, "variants %s" % vs)
        if sorted(vs) != sorted([df.terminal_ctor[-1], eofv]):
            res.violate(EOFK, "quasiterminal-variants", decl[0][0].where, "the stream's enum declares %s but parse uses %s and %s" % (vs, df.terminal_ctor[-1], eofv))
    else:
        res.violate(EOFK, "quasiterminal-enum-missing", t.where, "declaration of enum %s not found in the templates" % qenum)
    # try_into_terminal / from_quasiterminal
    n_found = {"try_into_terminal": 0, "from_quasiterminal": 0}
    kind_enum = None
    for (tt, it) in all_items(ts):
        if it["k"] != "Impl" or it["trait"] is not None:
            continue
        st = it["self_ty"].strip()
        for f in it["items"]:
            if f["k"] != "Fn":
                continue
            ms = nodes(f["body"], "Match")
            if f["name"] == "try_into_terminal" and st == qenum and len(ms) == 1:
                n_found["try_into_terminal"] += 1
                arms = ms[0]["arms"]
                good = len(arms) == 2
                if good:
                    ta = [a for a in arms if a["pat"]["k"] == "PTupleStruct"]
                    ea = [a for a in arms if a["pat"]["k"] == "PPath"]
                    good = len(ta) == 1 and len(ea) == 1
                    if good:
                        b = ta[0]["pat"]["elems"][0].get("name")
                        good = ta[0]["pat"]["path"]["segs"][-1] == df.terminal_ctor[-1] and ta[0]["body"]["k"] == "Call" and path_str(ta[0]["body"]["func"]) == "Ok" and ident_of(ta[0]["body"]["args"][0]) == b
                        good = good and ea[0]["pat"]["path"]["segs"][-1] == eofv and ea[0]["body"]["k"] == "Call" and path_str(ea[0]["body"]["func"]) == "Err"
                res.inst(IDENT, "try_into_terminal", tt.where, True, "Terminal(t) => Ok(t); %s => Err: %s" % (eofv, good))
                if not good:
                    res.violate(IDENT, "try_into_terminal", tt.where, "try_into_terminal must return the wrapped token itself and Err exactly for the end-of-input variant `%s`" % eofv)
            if f["name"] == "from_quasiterminal" and len(ms) == 1:
                n_found["from_quasiterminal"] += 1
                kind_enum = st
                arms = ms[0]["arms"]
                ea = [a for a in arms if a["pat"]["k"] == "PPath"]
                ta = [a for a in arms if a["pat"]["k"] == "PTupleStruct"]
                good = len(arms) == 2 and len(ea) == 1 and len(ta) == 1
                if good:
                    good = ea[0]["pat"]["path"]["segs"] == [qenum, eofv] and ea[0]["body"]["k"] == "Path" and ea[0]["body"]["path"]["segs"] in (["Self", eofv], [st, eofv])
                    b = ta[0]["pat"]["elems"][0].get("name")
                    good = good and ta[0]["pat"]["path"]["segs"] == df.terminal_ctor and ta[0]["body"]["k"] == "Call" and path_str(ta[0]["body"]["func"]) in ("Self::from_terminal", st + "::from_terminal") and ident_of(ta[0]["body"]["args"][0]) == b
                res.inst(EOFK, "from_quasiterminal", tt.where, True, "%s::%s => Self::%s: %s" % (qenum, eofv, eofv, good))
                if not good:
                    res.violate(EOFK, "from_quasiterminal", tt.where, "from_quasiterminal must map the end-of-input variant `%s::%s` to the look-ahead kind of the *same* name placeholder and terminals through from_terminal; found arms %s" % (qenum, eofv, [(unparse(a["pat"]), unparse(a["body"])) for a in arms]))
    for k, v in n_found.items():
        if v != 1:
            res.violate(EOFK if k == "from_quasiterminal" else IDENT, "anchor|" + k, efile, "expected exactly one `%s` in the templates, found %d" % (k, v))
    # the kind enum: eof variant has the discriminant = number of terminal variants
    if kind_enum:
        decl = [(tt, it) for (tt, it) in all_items(ts) if it["k"] == "EnumDef" and it["name"] == kind_enum]
        if len(decl) == 1:
            tt, en = decl[0]
            ev = [v for v in en["variants"] if v["name"] == eofv]
            good = len(ev) == 1 and ev[0]["discr"] is not None and ev[0]["discr"]["k"] == "Path"
            dn = None
            if good:
                dn = ev[0]["discr"]["path"]["segs"][0]
                names = tpl.ph_names(dn)
                b = tpl.resolve_text(tt, names[0]) if names else None
                good = bool(names) and b is not None and re.match(r"^expr:(self\.)?file\.terminal_enum\.variants\.len\(\)$", b) is not None
            res.inst(EOFK, "eof-column", tt.where, True, "%s = %s (%s)" % (eofv, dn, good))
            if not good:
                res.violate(EOFK, "eof-column", tt.where, "the end-of-input look-ahead kind must be declared with discriminant = number of terminal variants (the last table column)")
        else:
            res.unanalysable(EOFK, "eof-column", t.where, "expected exactly one declaration of the look-ahead kind enum `%s` in the templates, found %d" % (kind_enum, len(decl)))
    else:
        res.unanalysable(EOFK, "eof-column", t.where, "cannot identify the look-ahead kind enum the end-of-input variant maps to")
    return ts


def check(ctx):
    res = Result("C03", ctx["tier"], "other", ctx["seed"])
    run_rules(ctx, res)
    # necessary conditions of the tables this property presupposes: the LALR(1) construction clauses and the stages
    # after it (C17's check on the same facts, which also re-evaluates C01's, C04's and C11's table rules)
    from .c01 import import_violations
    res.rule("R-C17-* (imported)", "the structural necessary conditions of the LALR(1) construction (C17 clauses N1-N8) and of the stages between the automaton and the emitted tables (C01 renumbering / goto / move / index rules, C04 single guarded writer and exhaustive scan, C11 look-ahead/action pairing) — the first offending token is only right if the tables are")
    import_violations(ctx, res, "c17", "C17", None, "construction and table stages")
    res.inst("R-C17-* (imported)", "C17 check re-evaluated", "", True, "see the `imported` instance")
    res.assume("not decided: that the reported token index is the smallest possible one (follows from correct LALR(1) tables, C17) — only consumption and identity are decided")
    res.assume("Peekable pulls at most one item ahead; map/chain/once are lazy (std contracts)")
    return finish(res, "Clause-level decision on the generator's `parse` template (parsed with syn after marker substitution): lazy token stream with exactly one token of look-ahead, `next()` only to shift or to hand back the offending token unchanged, end of input reported as None through the same end-of-input placeholder everywhere. The 9 snapshot tests pin this text for 7 grammars; the rule's value is for edits that also update snapshots and for name-collision cases no fixture has.")
