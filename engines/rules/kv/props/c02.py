"""C02 (clauses) — an accepted input yields its faithful derivation tree with original payloads.

The behaviour quantifies over every grammar and sentence and is not decided.  Decided: the structural
necessary conditions of the emission side, on the generator's own source (syn AST + template token walk,
two MIR rules):

  K1 R-C02-pops      each reduction renderer pops exactly one node per declared field (`_` fields included), walking
                     the fields from last to first with positions counted from the front (enumerate before rev), and
                     binds a used field's child to a local named after that field's own position
  K2 R-C02-ctor      the constructor lists the used fields front to back, each filled from the local of the same
                     position (and, for named fields, under the field's own name); `_` fields contribute nothing
  K3 R-C02-extract   a nonterminal child is converted with `{its own type}::try_from` and boxed; a terminal child is
                     extracted with the method registered for its own terminal name; every per-variant conversion
                     template maps a variant to the same-named variant and hands the payload through unchanged
  K4 R-C02-truncate  the state stack is shortened by the number of all declared fields
  K5 R-C02-ruleidx   reduce functions, dispatch arms and rule-kind variants are numbered by enumerate() over the same
                     rule list the table builder numbers (imported: C07's rule-index rule), and the dispatcher hands
                     each rule's own constructor name and fieldset to the renderer
  K6 R-C02-rules     the rule list pairs each struct / enum variant's constructor name with its own fieldset, in
                     declaration order (MIR)

Which production is applied where (the algorithmic half) is C17's and C01's concern.
"""
import re

from ..syn import Syn, nodes, ident_of, path_str, unparse, method_chain
from .. import tpl
from ..report import Result, finish
from .c03 import load_templates
from .c05 import is_index

KEEP_ORDER = ("iter", "enumerate", "map", "filter_map", "collect", "join", "indent", "concat")


def find_dispatch(syn, efile):
    """fn with `match <param: &Fieldset> { Empty => self.e(c), Named(..{fields}) => self.n(c, fields), Tuple(..) => self.t(c, fields) }`
    where the renderers are *reduction* renderers (no options argument)"""
    for (p, impl, fn) in syn.all_fns(path=efile):
        params = {i["pat"]["name"]: (i.get("ty") or "") for i in fn["inputs"] if "pat" in i and i["pat"].get("k") == "PIdent"}
        fs = [n for n, ty in params.items() if "Fieldset" in ty]
        if not fs or any("Options" in ty for ty in params.values()):
            continue
        for m in nodes(fn["body"], "Match"):
            if ident_of(m["expr"]) not in fs:
                continue
            vs = {}
            for a in m["arms"]:
                segs = a["pat"].get("path", {}).get("segs") if a["pat"]["k"] in ("PPath", "PTupleStruct", "PStruct") else None
                body = unblock(a["body"])
                if segs and len(segs) == 2 and segs[0] == "Fieldset" and body["k"] == "MethodCall" and ident_of(body["recv"]) == "self":
                    vs[segs[1]] = (body["method"], a, body)
            if set(vs) == {"Empty", "Named", "Tuple"}:
                return fn, m, vs
    return None, None, {}


def unblock(e):
    """{ expr } -> expr"""
    while isinstance(e, dict) and e.get("k") in ("Block", "BlockExpr") and len(e["block"]["stmts"]) == 1 and e["block"]["stmts"][0]["k"] == "ExprStmt":
        e = e["block"]["stmts"][0]["expr"]
    return e


def chain_names(e):
    root, chain = method_chain(e)
    return root, [c[1] for c in chain if c[0] == "call"], chain


def arm_kind(ptxt):
    p = ptxt.replace(" ", "")
    if re.search(r"::(Underscore|Skipped)\(", p):
        return "skipped"
    if re.search(r"IdentOrTerminalIdent::Terminal\((\w+)\)", p):
        return "terminal"
    if re.search(r"IdentOrTerminalIdent::Ident\((\w+)\)", p):
        return "nonterminal"
    if re.search(r"::(Used|Ident)\(", p):
        return "used"
    return "?"


def sym_binder(ptxt):
    m = re.search(r"IdentOrTerminalIdent::(?:Terminal|Ident)\((\w+)\)", ptxt.replace(" ", ""))
    return m.group(1) if m else None


def binder_canon(t, tok):
    """canonical form of a local's name in a template: literal parts as text, placeholders by what they print"""
    parts = tok.parts if tok.k == "mixed" else ([("ph", tok.ph)] if tok.k == "ph" else [("text", tok.s)])
    out = []
    idx_ok = False
    for p in parts:
        if p[0] != "ph":
            out.append(p[1])
            continue
        if is_index(t, p[1]):
            out.append("{#position}")
            idx_ok = True
        else:
            d = tpl.resolve_text(t, p[1])
            d = re.sub(r"^expr:&?", "", d).replace(" ", "")
            out.append("{%s}" % d)
    return "".join(out), idx_ok


def lit_text(e):
    """the string an expression like "..".to_owned() / String::from("..") / ".." evaluates to"""
    cur = e
    while cur["k"] == "MethodCall" and cur["method"] in ("to_owned", "to_string", "into", "clone") and not cur["args"]:
        cur = cur["recv"]
    if cur["k"] == "Call" and path_str(cur["func"]) in ("String::from",) and len(cur["args"]) == 1:
        cur = cur["args"][0]
    if cur["k"] == "Lit" and cur["lit"]["t"] == "str":
        return cur["lit"]["v"]
    return None


def count_pops(toks):
    n = 0
    for i in range(len(toks) - 2):
        if toks[i].s == "." and toks[i + 1].s == "pop" and toks[i + 2].s == "(":
            n += 1
    return n


def run_rules(ctx, res):
    POPS, CTOR, EXT, TRUNC, RIDX, RULES = "R-C02-pops", "R-C02-ctor", "R-C02-extract", "R-C02-truncate", "R-C02-ruleidx", "R-C02-rules"
    res.rule(POPS, "each reduction renderer walks all declared fields (no filter/skip/take) from last to first with positions counted from the front (enumerate before rev); every arm of its field match emits exactly one `nodes.pop()`; a used field binds the popped child to a local whose name ends in the field's own position")
    res.rule(CTOR, "the constructor's field list walks the fields front to back (enumerate, no rev), drops `_` fields and fills every used field from the local of the same position (named: under the field's own name)")
    res.rule(EXT, "a nonterminal child is converted by `{its own type name}::try_from(..)` inside `Box::new(..)`; a terminal child is extracted by the method registered for its own terminal name; per-variant conversion templates (`Node::from`, `try_into_*`, `TryFrom<Node>`) map each variant to the same-named variant and pass the payload binder through unchanged")
    res.rule(TRUNC, "the state stack is truncated by `fields.len()` of the same field list the pops walk (all fields, `_` included)")
    res.rule(RIDX, "reduce functions and dispatch arms are produced by `get_rules().enumerate()` without other adapters and named by that index; the dispatcher forwards the rule's own constructor name and field list; rule-kind variants are numbered 0..number of rules; the table builder numbers rules by enumerate() over the same list (C07 rule-index rule)")
    res.rule(RULES, "get_rules builds one rule per struct and per enum variant with constructor name and fieldset taken from the same struct / variant, iterating nonterminals and variants in declaration order")
    syn, efile, ts, consts = load_templates(ctx)
    if efile is None:
        res.floor("anchor: emitter file", 0, 1)
        return
    fmt = [t for t in ts if t.is_format]
    for t in fmt:
        t.tokens = tpl.lex_segments(t.segs)
    by_node = {id(t.node): t for t in fmt}
    fns = {fn["name"]: fn for (p, impl, fn) in syn.all_fns(path=efile)}
    dfn, dm, vs = find_dispatch(syn, efile)
    if dfn is None:
        res.unanalysable(RIDX, "dispatcher", efile, "cannot find the reduction dispatcher (match on Fieldset calling one reduction renderer per shape)")
        return
    dwhere = "%s:%d" % (efile, dfn["line"])
    # ---- dispatcher forwards the matched fieldset's own field list and the constructor name parameter
    dparams = [i["pat"]["name"] for i in dfn["inputs"] if "pat" in i and i["pat"].get("k") == "PIdent"]
    for shape in ("Named", "Tuple"):
        mname, arm, abody = vs[shape]
        ptxt = unparse(arm["pat"]).replace(" ", "")
        mb = re.search(r"\{(?:\w+:)?(\w+)(?:,\.\.)?\}\)?$|\((\w+)\)$", ptxt)
        bound = (mb.group(1) or mb.group(2)) if mb else None
        args = [unparse(a_).replace(" ", "").lstrip("&") for a_ in abody["args"]]
        ok = bound is not None and (bound in args or (bound + ".fields") in args) and any(a_ in dparams for a_ in args)
        res.inst(RIDX, "dispatch|%s" % shape, "%s:%d" % (efile, arm["line"]), True, "%s(%s), pattern binds %s" % (mname, ", ".join(args), bound))
        if not ok:
            res.violate(RIDX, "dispatch|%s" % shape, "%s:%d" % (efile, arm["line"]), "the %s arm of the reduction dispatcher does not hand the matched fieldset's own field list and the rule's constructor name to `%s` (arguments: %s)" % (shape, mname, args))

    binder_of = {}
    for shape in ("Named", "Tuple"):
        fn = fns.get(vs[shape][0])
        if fn is None:
            res.unanalysable(POPS, "renderer|" + shape, efile, "reduction renderer %s not found" % vs[shape][0])
            continue
        where = "%s:%d" % (efile, fn["line"])
        fparam = [i["pat"]["name"] for i in fn["inputs"] if "pat" in i and i["pat"].get("k") == "PIdent" and "Field" in (i.get("ty") or "")]
        if len(fparam) != 1:
            res.unanalysable(POPS, "renderer|%s|fields-param" % shape, where, "cannot identify the field-list parameter")
            continue
        fp = fparam[0]
        pops_let = ctor_let = None
        # (top-level lets first, then lets nested in a branch: the chain may sit inside the `if any used { .. }`)
        top_lets = [st for st in fn["body"]["stmts"] if st["k"] == "Let"]
        for st in top_lets + [x for x in nodes(fn["body"], "Let") if not any(x is y for y in top_lets)]:
            if st["k"] != "Let" or st.get("init") is None:
                continue
            root, names, chain = chain_names(st["init"])
            if ident_of(root) != fp:
                continue
            if "any" in names or names[-1:] == ["len"] or not ({"map", "filter_map"} & set(names)):
                continue
            texts = [x["lit"]["v"] for x in nodes(st["init"], "Lit") if x["lit"]["t"] == "str"] + [by_node[id(m_)].text for m_ in nodes(st["init"], "Macro") if id(m_) in by_node]
            if any(".pop()" in x.replace(" ", "") for x in texts):
                pops_let = (st, names, chain)
            else:
                ctor_let = (st, names, chain)
        # ---------------- K1 pops
        if pops_let is None:
            res.unanalysable(POPS, "renderer|%s|pops" % shape, where, "cannot find the iterator chain over `%s` that emits the pops" % fp)
            continue
        st, names, chain = pops_let
        pwhere = "%s:%d" % (efile, st["line"])
        extra = [n for n in names if n not in KEEP_ORDER + ("rev",)]
        res.inst(POPS, "renderer|%s|walk" % shape, pwhere, True, ".".join(names))
        if extra:
            res.violate(POPS, "renderer|%s|walk-adapters" % shape, pwhere, "the pops of the %s renderer do not cover every declared field: `%s` in `%s.%s`" % (shape.lower(), ", ".join(extra), fp, ".".join(names)))
        if names.count("rev") != 1:
            res.violate(POPS, "renderer|%s|walk-direction" % shape, pwhere, "children must be popped from the last field to the first (exactly one `.rev()`); found `%s`" % ".".join(names))
        elif "enumerate" not in names or names.index("enumerate") > names.index("rev"):
            res.violate(POPS, "renderer|%s|walk-positions" % shape, pwhere, "field positions must be counted from the front (`enumerate()` before `rev()`), otherwise a child is bound under another field's position; found `%s`" % ".".join(names))
        clo = [c[2][0] for c in chain if c[0] == "call" and c[1] == "map" and c[2]]
        ms = nodes(clo[0]["body"], "Match") if clo and clo[0]["k"] == "Closure" else []
        if not ms:
            res.unanalysable(POPS, "renderer|%s|arms" % shape, pwhere, "the pop closure is not a match over the field")
            continue
        kinds = set()
        for a in ms[0]["arms"]:
            ptxt = unparse(a["pat"])
            kind = arm_kind(ptxt)
            kinds.add(kind)
            key = "renderer|%s|pop-arm|%s" % (shape, kind)
            awhere = "%s:%d" % (efile, a["line"])
            fm = [m for m in nodes(a["body"], "Macro") if m["name"] == "format"]
            conds = nodes(a["body"], "If") + nodes(a["body"], "Match")
            if kind == "skipped":
                s_ = lit_text(a["body"])
                if s_ is None and len(fm) == 1 and id(fm[0]) in by_node:
                    toks = by_node[id(fm[0])].tokens
                else:
                    toks = tpl.lex_segments([("text", s_)]) if s_ is not None else None
                if toks is None or conds:
                    res.unanalysable(POPS, key, awhere, "cannot read what a `_` field emits")
                    continue
                n = count_pops(toks)
                has_let = any(tk.s == "let" for tk in toks)
                res.inst(POPS, key, awhere, True, "pops=%d binds=%s" % (n, has_let))
                if n != 1:
                    res.violate(POPS, key, awhere, "a `_` field must pop exactly one node (its child is discarded, not kept on the stack); the arm emits %d pops — every field before it then receives its neighbour's child" % n)
                continue
            if len(fm) != 1 or conds or id(fm[0]) not in by_node:
                res.violate(POPS, key + "|conditional", awhere, "the arm `%s` must emit its pop through one unconditional template (found %d templates, %d conditionals)" % (ptxt[:60], len(fm), len(conds)))
                continue
            t = by_node[id(fm[0])]
            toks = t.tokens
            n = count_pops(toks)
            if n != 1:
                res.violate(POPS, key, t.where, "a used field must pop exactly one node; template `%s` pops %d" % (t.text.strip()[:80], n))
            if not (len(toks) > 3 and toks[0].s == "let" and toks[2].s == "="):
                res.violate(POPS, key + "|binder", t.where, "a used field's child must be bound to a local (`let <name> = ..`); template `%s`" % t.text.strip()[:80])
                continue
            bc, idx_ok = binder_canon(t, toks[1])
            res.inst(POPS, key, t.where, True, "pops=%d binder=%s" % (n, bc))
            if not idx_ok:
                res.violate(POPS, key + "|binder-position", t.where, "the local `%s` does not carry the field's own position from enumerate(): two children can share one local" % bc)
            binder_of[(shape, kind)] = bc
            sb = sym_binder(ptxt)
            # ---------------- K3 extraction
            body = toks[3:]
            ekey = "renderer|%s|extract|%s" % (shape, kind)
            if kind == "nonterminal":
                j = [i for i in range(len(body) - 2) if body[i + 1].s == "::" and body[i + 2].s == "try_from"]
                src = tpl.resolve_text(t, body[j[0]].ph).replace(" ", "") if j and body[j[0]].k == "ph" else None
                boxed = any(body[i].s == "Box" and body[i + 1].s == "::" and body[i + 2].s == "new" for i in range(len(body) - 2))
                ok = src in ("expr:&%s.name" % sb, "expr:%s.name" % sb) and boxed
                res.inst(EXT, ekey, t.where, True, "try_from on %s, boxed=%s" % (src, boxed))
                if not ok:
                    res.violate(EXT, ekey, t.where, "a nonterminal child must be converted with `{the field's own type name}::try_from(..)` and boxed; template `%s` (type from `%s`, boxed=%s)" % (t.text.strip()[:90], src, boxed))
            elif kind == "terminal":
                j = [i for i in range(1, len(body) - 1) if body[i].k == "ph" and body[i - 1].s == "." and body[i + 1].s == "("]
                src = tpl.resolve_text(t, body[j[0]].ph).replace(" ", "") if j else None
                want = r"^expr:self\.(\w+)\.get\(&%s\.name\)(\.unwrap\(\)|\?)$" % re.escape(sb or "?")
                ok = src is not None and re.match(want, src) is not None
                res.inst(EXT, ekey, t.where, True, "method from %s" % src)
                if not ok:
                    res.violate(EXT, ekey, t.where, "a terminal child must be extracted with the method registered for the field's own terminal name; template `%s` takes the method from `%s`" % (t.text.strip()[:90], src))
            else:
                res.unanalysable(EXT, ekey, t.where, "used-field arm `%s` does not distinguish the symbol kind" % ptxt[:60])
        res.floor("pop arms of the %s reduction renderer (skipped, nonterminal, terminal)" % shape.lower(), len(kinds & {"skipped", "nonterminal", "terminal"}), 3)
        # ---------------- K4 truncate
        trs = []
        via_helper = None  # (helper fn, call node) when the tail template lives in a helper shared by the renderers
        tail_fns = [fn["name"]]
        for mc in nodes(fn["body"], "MethodCall"):
            if ident_of(mc["recv"]) == "self" and mc["method"] in fns and mc["method"] != fn["name"] and any(t_.fn == mc["method"] and any(x.s == "truncate" for x in t_.tokens) for t_ in fmt):
                via_helper = (fns[mc["method"]], mc)
                tail_fns.append(mc["method"])
        for t in fmt:
            if t.fn not in tail_fns:
                continue
            tk = t.tokens
            for i in range(len(tk) - 3):
                if tk[i].s == "truncate" and tk[i + 1].s == "(":
                    j = i + 2
                    depth = 1
                    inner = []
                    while j < len(tk) and depth:
                        if tk[j].s == "(":
                            depth += 1
                        elif tk[j].s == ")":
                            depth -= 1
                        if depth:
                            inner.append(tk[j])
                        j += 1
                    trs.append((t, inner))
        if len(trs) != 1:
            res.unanalysable(TRUNC, "renderer|%s|truncate" % shape, where, "expected one `states.truncate(..)` in the reduction template, found %d" % len(trs))
        else:
            t, inner = trs[0]
            txt = " ".join(x.s for x in inner[:-1])
            last = inner[-1] if inner else None
            d = tpl.resolve_text(t, last.ph).replace(" ", "") if last is not None and last.k == "ph" else None
            if d is not None and d.startswith("param:") and via_helper is not None and t.fn == via_helper[0]["name"]:
                # the count is a parameter of the shared helper: take what this renderer passes for it
                hf, mc = via_helper
                pnames = [i_["pat"].get("name") for i_ in hf["inputs"] if "pat" in i_ and i_["pat"].get("k") == "PIdent"]
                pn = d.split(":", 1)[1]
                if pn in pnames and pnames.index(pn) < len(mc["args"]):
                    arg = mc["args"][pnames.index(pn)]
                    atxt = unparse(arg).replace(" ", "").lstrip("&")
                    lets_r = {s_["pat"]["name"]: unparse(s_["init"]).replace(" ", "") for s_ in fn["body"]["stmts"] if s_["k"] == "Let" and s_["pat"].get("k") == "PIdent" and s_.get("init") is not None}
                    d = "expr:" + lets_r.get(atxt, atxt)
            ok = d == "expr:%s.len()" % fp and inner[-2].s == "-" and re.match(r"^\w+ \. len \( \) -$", txt) is not None
            res.inst(TRUNC, "renderer|%s|truncate" % shape, t.where, True, "truncate(%s %s) with %s" % (txt, last.s if last else "", d))
            if not ok:
                res.violate(TRUNC, "renderer|%s|truncate" % shape, t.where, "the state stack must be shortened by the number of all declared fields (`%s.len()`); found `truncate(%s %s)` with `%s`" % (fp, txt, last.s if last else "", d))
        # ---------------- K2 constructor
        if ctor_let is None:
            res.unanalysable(CTOR, "renderer|%s|ctor" % shape, where, "cannot find the iterator chain over `%s` that lists the constructor's fields" % fp)
            continue
        st, names, chain = ctor_let
        cwhere = "%s:%d" % (efile, st["line"])
        res.inst(CTOR, "renderer|%s|walk" % shape, cwhere, True, ".".join(names))
        extra = [n for n in names if n not in KEEP_ORDER + ("filter",)]
        sel = [n for n in names if n in ("filter_map", "filter", "map")]
        if extra or "enumerate" not in names or not sel or names.index("enumerate") > names.index(sel[0]):
            res.violate(CTOR, "renderer|%s|walk" % shape, cwhere, "the constructor's fields must be listed front to back with their own positions (`iter().enumerate()` then filter_map / filter+map, no `%s`); found `%s`" % (", ".join(extra) or "reordering", ".".join(names)))
        # how `_` fields are left out: a None arm / else-None of a kind test in filter_map, or a `filter(is_used)` adaptor
        clos = [c[2][0] for c in chain if c[0] == "call" and c[1] in ("filter_map", "filter", "map") and c[2] and c[2][0]["k"] == "Closure"]
        skip_ok = False
        skip_how = "?"
        for c_ in chain:
            if c_[0] == "call" and c_[1] == "filter" and c_[2]:
                txt = unparse(c_[2][0]).replace(" ", "")
                if re.search(r"\.is_used\(\)$", txt) and "!" not in txt:
                    skip_ok, skip_how = True, "filter(is_used)"
        for cl_ in clos:
            for m_ in nodes(cl_["body"], "Match"):
                kinds_ = {arm_kind(unparse(a_["pat"])): a_ for a_ in m_["arms"]}
                if "skipped" in kinds_:
                    ab = kinds_["skipped"]["body"]
                    skip_ok = ab["k"] == "Path" and ab["path"]["segs"] == ["None"]
                    skip_how = "match arm -> None"
            for if_ in nodes(cl_["body"], "If"):
                c0 = if_["cond"]
                if c0["k"] == "LetCond" and arm_kind(unparse(c0["pat"])) in ("used", "nonterminal", "terminal") and if_.get("else") is not None:
                    el_ = unblock(if_["else"])
                    skip_ok = el_.get("k") == "Path" and el_["path"]["segs"] == ["None"]
                    skip_how = "if let <used> .. else None"
        res.inst(CTOR, "renderer|%s|ctor-arm|skipped" % shape, cwhere, True, "`_` fields left out by %s: %s" % (skip_how, skip_ok))
        if not skip_ok:
            res.violate(CTOR, "renderer|%s|ctor-arm|skipped" % shape, cwhere, "a `_` field must not appear in the constructed value: the field list must drop it by its kind (a `None` arm, `if let <used> .. else None`, or `filter(is_used)`); found %s" % skip_how)
        fms = [m for cl_ in clos for m in nodes(cl_["body"], "Macro") if m["name"] == "format" and id(m) in by_node]
        n_used = 0
        if len(fms) != 1:
            res.violate(CTOR, "renderer|%s|ctor-arm|used|conditional" % shape, cwhere, "a used field must be listed through exactly one template (found %d)" % len(fms))
        for fm0 in fms[:1]:
            key = "renderer|%s|ctor-arm|used" % shape
            n_used += 1
            t = by_node[id(fm0)]
            toks = t.tokens
            if shape == "Named":
                okshape = len(toks) == 4 and toks[1].s == ":" and toks[3].s == ","
                btok = toks[2] if okshape else None
                if okshape:
                    fname = tpl.resolve_text(t, toks[0].ph).replace(" ", "") if toks[0].k == "ph" else toks[0].s
                    bc, _ = binder_canon(t, btok)
                    own = re.sub(r"^expr:&?", "", fname)
                    okname = ("{%s}" % own) in bc or bc.startswith("{%s}" % own)
                    if not okname:
                        res.violate(CTOR, key + "|field-name", t.where, "field `%s` of the constructed value is filled from local `%s`, which belongs to another field" % (fname, bc))
            else:
                okshape = len(toks) == 2 and toks[1].s == ","
                btok = toks[0] if okshape else None
            if not okshape:
                res.violate(CTOR, key + "|shape", t.where, "constructor field line `%s` is not `%s`" % (t.text.strip(), "{name}: {local}," if shape == "Named" else "{local},"))
                continue
            bc, idx_ok = binder_canon(t, btok)
            pop_bs = {v for (sh, k_), v in binder_of.items() if sh == shape}
            res.inst(CTOR, key, t.where, True, "filled from %s; pops bind %s" % (bc, sorted(pop_bs)))
            if not idx_ok or pop_bs != {bc}:
                res.violate(CTOR, key, t.where, "the constructor fills a used field from local `%s`, but the pops bind `%s`: a field receives another position's child (or the emitted code does not compile)" % (bc, sorted(pop_bs)))
        res.floor("used-field arms of the %s constructor list" % shape.lower(), n_used, 1)

    # ---------------- K5 rule numbering
    n_enum = 0
    for (p, impl, fn) in syn.all_fns(path=efile):
        for m in nodes(fn["body"], "MethodCall"):
            if m["method"] != "map":
                continue
            root, names, chain = chain_names(m)
            if "get_rules" not in names:
                continue
            n_enum += 1
            key = "rule-walk|%s" % fn["name"]
            mwhere = "%s:%d" % (efile, m["line"])
            ok = names[:3] == ["get_rules", "enumerate", "map"] or names[:2] == ["get_rules", "enumerate"]
            res.inst(RIDX, key, mwhere, True, ".".join(names))
            if not ok or any(n not in KEEP_ORDER + ("get_rules",) for n in names):
                res.violate(RIDX, key, mwhere, "rules must be numbered by `get_rules().enumerate()` directly; `%s` numbers them differently from the table builder (a reduce action then runs another rule's reduction)" % ".".join(names))
            clo = m["args"][0] if m["args"] else None
            if clo is None or clo["k"] != "Closure" or not clo["inputs"] or clo["inputs"][0]["k"] != "PTuple":
                res.unanalysable(RIDX, key + "|closure", mwhere, "the rule closure does not destructure (index, rule)")
                continue
            idx = clo["inputs"][0]["elems"][0].get("name")
            calls = [c for c in nodes(clo["body"], "MethodCall") if ident_of(c["recv"]) == "self"]
            for c in calls:
                a0 = unparse(c["args"][0]).replace(" ", "") if c["args"] else None
                if c["method"] in fns and a0 is not None and "usize" in "".join((i.get("ty") or "") for i in fns[c["method"]]["inputs"][:2] if "pat" in i):
                    res.inst(RIDX, key + "|" + c["method"], "%s:%d" % (efile, c["line"]), True, "index argument %s" % a0)
                    if a0 != idx:
                        res.violate(RIDX, key + "|" + c["method"], "%s:%d" % (efile, c["line"]), "`%s` is called with `%s`, not with the rule's own index `%s`" % (c["method"], a0, idx))
                    # the rest of a (index, rule) destructuring must be forwarded unchanged
                    if len(c["args"]) == 3:
                        pat = unparse(clo["inputs"][0]["elems"][1]).replace(" ", "")
                        rest = [unparse(x).replace(" ", "") for x in c["args"][1:]]
                        okf = all(re.search(r"\b%s\b" % re.escape(r_), pat) for r_ in rest) and rest == ["constructor_name", "fieldset"][:len(rest)] or all(re.search(r"\b%s\b" % re.escape(r_), pat) for r_ in rest)
                        if not okf:
                            res.violate(RIDX, key + "|forward", "%s:%d" % (efile, c["line"]), "the rule's constructor name / fieldset are not forwarded unchanged (%s from pattern %s)" % (rest, pat))
    res.floor("walks over get_rules().enumerate() in the emitter", n_enum, 2)
    # the dispatch arm template: `{RK}::{P}{i} => {f}(states, nodes),` with f = get_reduce_fn_name(i)
    n_arm = 0
    for t in fmt:
        tk = t.tokens
        for i in range(len(tk) - 2):
            if tk[i].s == "=>" and tk[i + 1].k == "ph" and tk[i + 2].s == "(" and i >= 1 and tk[i - 1].k == "mixed":
                fsrc = tpl.resolve_text(t, tk[i + 1].ph).replace(" ", "")
                m = re.match(r"^expr:self\.(\w+)\((\w+)\)$", fsrc)
                parts = tk[i - 1].parts
                lastph = [p_[1] for p_ in parts if p_[0] == "ph"][-1:]
                if not m:
                    continue
                n_arm += 1
                ok = bool(lastph) and lastph[0] == m.group(2) and is_index(t, lastph[0])
                res.inst(RIDX, "dispatch-arm|%s" % t.fn, t.where, True, "variant index {%s}, function %s" % (lastph[0] if lastph else "?", fsrc))
                if not ok:
                    res.violate(RIDX, "dispatch-arm|%s" % t.fn, t.where, "rule-kind variant `{%s}` dispatches to `%s`: the function of another rule" % (lastph[0] if lastph else "?", fsrc))
    res.floor("rule dispatch arm templates", n_arm, 1)
    # the table builder numbers rules over the same list (MIR, shared with C07)
    from ..mir import Mir, Exprs, canon
    from .c07 import check_rule_index
    from ..report import Result as R2
    mir = Mir(ctx["facts"]["mir"])
    tmp = R2("C07", "quick", "other")
    okr, why = check_rule_index(mir, tmp, "R-C07-ruleidx")
    res.inst(RIDX, "table-builder-rule-index", "", True, why)
    if not okr or tmp.violations:
        v = tmp.violations[0] if tmp.violations else None
        res.violate(RIDX, "table-builder-rule-index", v.where if v else "", "rule indices in the tables are not positions of the same rule list the emitter numbers: %s" % (v.msg if v else why))

    # ---------------- K6 get_rules pairing (MIR)
    n_rule_aggs = 0
    for f in mir.fns.values():
        if f.derived:
            continue
        ex = None
        for b in f.blocks:
            if b["cleanup"]:
                continue
            for s_ in b["stmts"]:
                if s_["k"] == "assign" and s_["rv"]["k"] == "agg" and s_["rv"].get("adt", "").endswith("validated_file::Rule"):
                    ex = ex or Exprs(f)
                    flds = s_["rv"]["fields"]
                    cn = canon(ex.operand(s_["rv"]["ops"][flds.index("constructor_name")]))
                    fs = canon(ex.operand(s_["rv"]["ops"][flds.index("fieldset")]))
                    n_rule_aggs += 1
                    from ..mir import parse_at
                    f_, l_ = parse_at(s_["span"]["at"])
                    w = "%s:%d" % (f_, l_)
                    mfs = re.match(r"^(.*)\.fieldset$", fs)
                    owner = mfs.group(1) if mfs else None
                    if "EnumVariant" in cn:
                        mv = re.search(r"EnumVariant\{(.*), (.*)\}$", cn)
                        ok = owner is not None and mv is not None and mv.group(2) == "%s.name.name" % owner
                        kind = "variant"
                    else:
                        ok = owner is not None and ("%s.name.name" % owner) in cn
                        kind = "struct"
                    res.inst(RULES, "rule-pairing|%s" % kind, w, True, "%s with %s" % (cn[:80], fs[:60]))
                    if not ok:
                        res.violate(RULES, "rule-pairing|%s" % kind, w, "a rule pairs constructor name `%s` with fieldset `%s`: they do not come from the same %s" % (cn[:100], fs[:80], kind))
    res.floor("Rule aggregates in get_rules", n_rule_aggs, 2)
    # iteration order of get_rules (syn)
    for (p, impl, fn) in syn.all_fns():
        if fn["name"] == "get_rules":
            for m in nodes(fn["body"], "MethodCall"):
                root, names, chain = chain_names(m)
                if names and names[0] == "iter" and len(names) >= 2 and m["method"] in ("flat_map", "collect", "map") and names[-1] == m["method"]:
                    bad = [n for n in names if n not in KEEP_ORDER + ("flat_map", "flatten", "chain", "into_iter", "cloned", "copied")]
                    res.inst(RULES, "rule-order|%s" % ".".join(names), "%s:%d" % (p, m["line"]), True, "")
                    if bad:
                        res.violate(RULES, "rule-order|%s" % ".".join(names), "%s:%d" % (p, m["line"]), "get_rules does not keep declaration order / completeness: `%s`" % ".".join(names))

    # ---------------- K3 per-variant conversion templates: `X::{v}(t) => Self::{v}(t)` / `=> Ok(t)`
    n_conv = 0
    for t in fmt:
        tk = t.tokens
        for i in range(len(tk)):
            if tk[i].s != "=>":
                continue
            # left: ... :: {v} ( b )   right: Self :: {w} ( b2 ) | Ok ( b2 )
            L = tk[max(0, i - 6):i]
            R_ = tk[i + 1:i + 8]
            if not (len(L) >= 5 and L[-1].s == ")" and L[-2].k == "ident" and L[-3].s == "(" and L[-4].k in ("ph", "mixed") and L[-5].s == "::"):
                continue
            b = L[-2].s
            if b == "_":
                continue
            lv = L[-4]
            if len(R_) >= 6 and R_[1].s == "::" and R_[3].s == "(" and R_[5].s == ")":
                rv, b2 = R_[2], R_[4].s
            elif len(R_) >= 4 and R_[0].s == "Ok" and R_[1].s == "(" and R_[3].s == ")":
                rv, b2 = None, R_[2].s
            else:
                continue
            n_conv += 1
            key = "convert|%s|%s" % (t.fn, t.text.strip()[:40])
            same_v = rv is None or (rv.k == lv.k and getattr(rv, "ph", None) == getattr(lv, "ph", None) and getattr(rv, "parts", None) == getattr(lv, "parts", None))
            ok = same_v and b2 == b
            res.inst(EXT, key, t.where, True, "payload %s -> %s, same variant: %s" % (b, b2, same_v))
            if not ok:
                res.violate(EXT, key, t.where, "conversion arm `%s` does not hand the payload of a variant to the same-named variant unchanged" % t.text.strip()[:100])
    res.floor("per-variant conversion arm templates", n_conv, 3)

    # ---- which fields are `_`: decided by what was written, at every stage before the emitter (MIR)
    from .. import declcopy
    SKIP = "R-C02-skip"
    res.rule(SKIP, "a field is absent from the tree exactly when it was written `_`: the CST->AST stage rebuilds every value from the same-named field / variant of its source unconditionally; the usedness predicates look at the variant only (`Ident`/`Used` -> used, `_`/`Skipped` -> not); validation hands on each declaration as a plain, never mutated copy")
    declcopy.run(mir, res, SKIP)
    # ... starting at the lexer: which source text is the `_` token (and which an identifier) is C08's table
    from .c08 import run_rules as _c08_rules
    from ..report import Result as _R8
    r8 = _R8("C08", "quick", "other")
    _c08_rules(syn, r8)
    v8 = [v for v in r8.violations if v.rule in ("R-C08-table", "R-C08-exh") or (v.rule == "floor" and ("tokenizer anchors" in v.key or "R-C08-table" in v.key or "R-C08-exh" in v.key))]
    res.inst(SKIP, "lexer (C08 table and reserved words)", "", True, "%d violations" % len(v8))
    for v in v8[:4]:
        res.violate(SKIP, "c08|" + v.key, v.where, "whether a field name is the placeholder `_` or an identifier is decided by the tokenizer; C08's table comparison fails: " + v.msg[:300])


def check(ctx):
    res = Result("C02", ctx["tier"], "other", ctx["seed"])
    run_rules(ctx, res)
    res.assume("which production is reduced where is decided by the tables (C17 clauses, C01); the fixed text of the parse loop and of the reduce-function frame is pinned by the snapshot tests")
    res.assume("rustc's type checking of the emitted module (C05) rules out a child of the wrong type reaching a field; what is decided here is which *position's* child reaches it")
    return finish(res, "Clause-level: structural necessary conditions of tree faithfulness on the emitter's reduction renderers (pops/constructor pairing by position, one pop per declared field, truncate count, own-symbol extraction, rule numbering agreement, constructor/fieldset pairing). The behaviour itself (every grammar, every sentence) is not decided.")
