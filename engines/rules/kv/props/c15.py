"""C15 — the emitted header carries the source hash; get_grammar_hash reads it back."""
import re

from ..syn import Syn, nodes, ident_of, path_str, unparse, method_chain, lit_of
from .. import tpl
from ..report import Result, finish
from .c03 import load_templates


def direct_continue(iff):
    return any(st["k"] == "ExprStmt" and st["expr"]["k"] == "Continue" for st in iff["then"]["stmts"])


def run_rules(ctx, res):
    HDR, DIG, PFX, RDR, BLD = "R-C15-header", "R-C15-digest", "R-C15-prefix", "R-C15-reader", "R-C15-build"
    res.rule(HDR, "the file template is the beginning of the emitted text; it starts with `//`; every line before the first blank line starts with `//`; exactly one of them is `// @sha256 {p}` and no earlier line starts with `// @sha256 `")
    res.rule(DIG, "{p} is the result of sha256::digest applied to the builder's grammar-source field, which is the source parameter of the emitter, which in generate is the `src` parameter itself — no intermediate call")
    res.rule(PFX, "the string constant the reader tests equals the template's text before {p} on that line, byte for byte; the comment-block test uses `//`")
    res.rule(RDR, "the reader iterates str::lines of its argument; the first line not starting with `//` returns None from inside the loop; the value in Some is computed from the matching line by a single strip of the prefix (strip_prefix, or slicing from its len()); the exhausted loop returns None")
    res.rule(BLD, "the build script skips regeneration only under equality of the reader's result with Some(&h), h = sha256::digest of the grammar file's contents exactly as read, and generates from those same contents")
    syn, efile, ts, consts = load_templates(ctx)
    if efile is None:
        res.floor("anchor: emitter file", 0, 1)
        return
    files = [t for t in ts if t.is_format and "pub fn parse" in t.text]
    # the file template is the one carrying the hash header; the `parse` item may have been moved into a template of
    # its own that is spliced into it
    with_hdr = [t for t in ts if t.is_format and "@sha256" in t.text]
    if len(with_hdr) == 1 and (len(files) != 1 or files[0] is not with_hdr[0]):
        files = with_hdr
    if len(files) != 1:
        res.floor("anchor: file template", len(files), 1)
        return
    t = files[0]
    text = t.text
    lines = text.split("\n")
    hdr = []
    for ln in lines:
        if ln.strip() == "":
            break
        hdr.append(ln)
    okh = bool(hdr) and all(l.startswith("//") for l in hdr)
    sha_lines = [l for l in hdr if l.startswith("// @sha256 ")]
    m = re.match(r"^// @sha256 \{(\w+)\}$", sha_lines[0]) if sha_lines else None
    res.inst(HDR, "header-block", t.where, True, "%d comment lines, %d hash lines: %s" % (len(hdr), len(sha_lines), sha_lines[:1]))
    if not okh:
        res.violate(HDR, "header-block", t.where, "the emitted text must begin with a block of `//` lines (found first lines %r)" % hdr[:2])
    if len(sha_lines) != 1 or m is None:
        res.violate(HDR, "hash-line", t.where, "exactly one header line must be `// @sha256 {placeholder}` with nothing else on it; found %r" % sha_lines)
        return
    # the template is the whole RustSrc
    fn = t.fn_node
    last = fn["body"]["stmts"][-1]
    whole = last["k"] == "ExprStmt" and last["expr"]["k"] == "Call" and path_str(last["expr"]["func"]) == "RustSrc" and last["expr"]["args"][0] is t.node
    res.inst(HDR, "template-is-whole-output", t.where, True, str(whole))
    if not whole:
        res.violate(HDR, "template-is-whole-output", t.where, "the file template must itself be the emitted text (`RustSrc(format!(..))`): otherwise the header may not come first")
    # upstream: emitter result is returned by generate unchanged
    ph = m.group(1)
    d = tpl.resolve_text(t, ph)
    okd = bool(re.match(r"^expr:sha256::digest\(.*\)$", d.replace(" ", "")))  # what it is taken over is decided on MIR below
    res.inst(DIG, "digest-binding", t.where, True, d)
    if not okd:
        res.violate(DIG, "digest-binding", t.where, "the hash placeholder must be bound to the result of `sha256::digest(..)` itself; found `%s`" % d)
    # MIR chain
    from ..mir import Mir, Exprs, canon, strip_transparent, TEXT_CONV
    mir = Mir(ctx["facts"]["mir"])
    dig = []
    for f in mir.fns.values():
        ex = None
        for c in f.calls():
            if (c.rpath or "").startswith("sha256::digest"):
                ex = ex or Exprs(f)
                dig.append((f, c, canon(strip_transparent(ex.operand(c.args[0]), extra=TEXT_CONV))))
    gens = [f for f in mir.fns.values() if f.pub and f.name == "generate" and f.kind == "Fn"]
    reach = mir.reachable_from([gens[0].key], include_trait_impls=False) if gens else set()
    dig = [x for x in dig if x[0].key in reach]
    res.inst(DIG, "digest-calls", "", True, "%s" % [(x[0].path.rsplit("::", 1)[-1], x[2]) for x in dig])
    if len(dig) != 1:
        res.violate(DIG, "digest-calls", "", "expected exactly one sha256::digest call reachable from generate, found %d" % len(dig))
    else:
        f, c, arg = dig[0]
        mfield = re.match(r"^param1\.(\w+)$", arg)
        if not mfield:
            res.violate(DIG, "digest-arg", c.where, "the digest is taken over `%s`, not over the builder's grammar-source field" % arg)
        else:
            fld = mfield.group(1)
            owner = f.impl["self_ty"]["head"] if f.impl else None
            # who fills the field
            fills = []
            for g in mir.fns.values():
                if g.derived:
                    continue
                for b in g.blocks:
                    for s_ in b["stmts"]:
                        if s_["k"] == "assign" and s_["rv"]["k"] == "agg" and s_["rv"].get("adt") == owner and fld in s_["rv"].get("fields", []):
                            fills.append((g, canon(Exprs(g).operand(s_["rv"]["ops"][s_["rv"]["fields"].index(fld)]))))
            okf = len(fills) == 1 and re.match(r"^param(\d+)$", fills[0][1]) is not None
            res.inst(DIG, "field-fill", fills[0][0].where if fills else "", True, "%s" % [(g.path.rsplit("::", 1)[-1], v) for g, v in fills])
            if not okf:
                res.violate(DIG, "field-fill", fills[0][0].where if fills else "", "the grammar-source field must be filled with a parameter of the builder's constructor unchanged; found %s" % [(g.path, v) for g, v in fills])
            else:
                # follow the parameter up to generate
                cur_fn, cur_p = fills[0][0], int(re.match(r"^param(\d+)$", fills[0][1]).group(1))
                steps = 0
                ok_chain = False
                while steps < 5:
                    steps += 1
                    callers = [(g, c2) for g in mir.fns.values() for c2 in g.calls() if c2.local and c2.rkey == cur_fn.key and g.key in reach | {gens[0].key}]
                    if len(callers) != 1:
                        break
                    g, c2 = callers[0]
                    a = canon(Exprs(g).operand(c2.args[cur_p - 1]))
                    mm = re.match(r"^param(\d+)$", a)
                    res.inst(DIG, "forward|%s->%s" % (g.path.rsplit("::", 1)[-1], cur_fn.path.rsplit("::", 1)[-1]), c2.where, True, a)
                    if not mm:
                        res.violate(DIG, "forward|%s" % g.path, c2.where, "the grammar source handed to the emitter is `%s`, not the caller's own source parameter: the digest is not taken over the exact text given to generate" % a)
                        break
                    if g.key == gens[0].key:
                        ok_chain = mm.group(1) == "1"
                        if not ok_chain:
                            res.violate(DIG, "forward|generate", c2.where, "generate does not pass its own `src` parameter to the emitter")
                        break
                    cur_fn, cur_p = g, int(mm.group(1))
                if steps >= 5 and not ok_chain:
                    res.unanalysable(DIG, "forward-chain", "", "cannot follow the grammar source from generate to the digest")
        # generate returns the emitter's result unchanged
        g = gens[0]
        ret = canon(Exprs(g).local(0))
        okr = bool(re.search(r"Result::Ok\{table_to_rust::table_to_rust\(", ret))
        res.inst(HDR, "generate-returns-emitter-output", g.where, True, ret[-160:])
        if not okr:
            res.violate(HDR, "generate-returns-emitter-output", g.where, "generate must return the emitter's output unchanged (`Ok(table_to_rust(..))`): otherwise the header may not come first")
    # ---- prefix + reader
    rdr = [(p, fn) for (p, impl, fn) in syn.all_fns() if impl is None and fn["vis"].strip() == "pub" and "RustSrcRef" in " ".join(i.get("ty") or "" for i in fn["inputs"]) and "Option" in (fn["output"] or "")]
    if len(rdr) != 1:
        res.floor("anchor: public reader (RustSrcRef) -> Option<&str>", len(rdr), 1)
        return
    rp, rfn = rdr[0]
    rw = "%s:%d" % (rp, rfn["line"])
    param = rfn["inputs"][0]["pat"]["name"]
    local_consts = {}
    # module-level string consts of the reader's file (a const hoisted out of the function names the same text)
    for it in syn.items(rp):
        if it["k"] == "Const" and it.get("expr") and it["expr"]["k"] == "Lit" and it["expr"]["lit"]["t"] == "str":
            local_consts[it["name"]] = it["expr"]["lit"]["v"]
    loops = []
    tail = None
    for st in rfn["body"]["stmts"]:
        if st["k"] == "ItemStmt" and st["item"]["k"] == "Const" and st["item"]["expr"]["k"] == "Lit":
            local_consts[st["item"]["name"]] = st["item"]["expr"]["lit"]["v"]
        elif st["k"] == "ExprStmt" and st["expr"]["k"] == "For":
            loops.append(st["expr"])
        elif st["k"] == "ExprStmt" and not st["semi"]:
            tail = st["expr"]
        else:
            res.unanalysable(RDR, "reader|statement", rw, "unexpected statement in the reader: %s" % unparse(st.get("expr") or st.get("init"))[:80])

    def const_val(e):
        if e["k"] == "Lit" and e["lit"]["t"] == "str":
            return e["lit"]["v"]
        if ident_of(e) in local_consts:
            return local_consts[ident_of(e)]
        return None

    # equivalent iterator form: lines().take_while(|l| l.starts_with("//")).find_map(|l| l.strip_prefix(P))
    if not loops and tail is not None and tail["k"] == "MethodCall":
        root, chain = method_chain(tail)
        names = [c[1] for c in chain]
        if unparse(root) == param and names == ["0", "lines", "take_while", "find_map"]:
            tw = chain[2][2][0]
            fm = chain[3][2][0]
            def clo_call(c, meth):
                if c["k"] != "Closure" or len(c["inputs"]) != 1:
                    return None
                b = c["body"]
                pn = c["inputs"][0].get("name")
                if b["k"] == "MethodCall" and b["method"] == meth and ident_of(b["recv"]) == pn and len(b["args"]) == 1:
                    return const_val(b["args"][0])
                return None
            comment_used = clo_call(tw, "starts_with")
            prefix_used = clo_call(fm, "strip_prefix")
            want_prefix = sha_lines[0][:sha_lines[0].index("{")]
            res.inst(RDR, "reader|iterator-form", rw, True, "take_while(starts_with(%r)).find_map(strip_prefix(%r))" % (comment_used, prefix_used))
            res.inst(PFX, "prefix-agreement", rw, True, "reader %r, writer %r" % (prefix_used, want_prefix))
            if comment_used != "//" or prefix_used is None:
                res.violate(RDR, "reader|iterator-form", rw, "unrecognised closures in the iterator form of the reader")
            if prefix_used != want_prefix:
                res.violate(PFX, "prefix-agreement", rw, "the reader looks for %r but the writer emits %r before the hash" % (prefix_used, want_prefix))
            loops = None
    if loops is None:
        pass
    elif len(loops) != 1 or tail is None or not (tail["k"] == "Path" and tail["path"]["segs"] == ["None"]):
        res.violate(RDR, "reader|shape", rw, "the reader must be one loop over the lines followed by `None`; found %d loops, tail `%s` (an iterator chain with filter/find does not stop at the end of the leading comment block)" % (len(loops), unparse(tail) if tail else None))
        return
    if loops is None:
        return check_build(syn, res, BLD)
    lp = loops[0]
    it = unparse(lp["expr"]).replace(" ", "")
    line_var = lp["pat"].get("name")
    if it != "%s.0.lines()" % param:
        res.violate(RDR, "reader|iteration", rw, "the reader must iterate `%s.0.lines()` (all lines, in order, unfiltered); found `%s`" % (param, it))
    body = lp["body"]["stmts"]
    ok1 = ok2 = False
    prefix_used = None
    comment_used = None
    for st in body:
        e = st.get("expr")
        if st["k"] == "ExprStmt" and e["k"] == "Match" and e["expr"]["k"] == "MethodCall" and e["expr"]["method"] == "strip_prefix" and ident_of(e["expr"]["recv"]) == line_var and len(e["arms"]) == 2:
            # match line.strip_prefix(P) { Some(h) => return Some(h), None => continue }
            prefix_used = const_val(e["expr"]["args"][0])
            some = [a for a in e["arms"] if a["pat"]["k"] == "PTupleStruct" and a["pat"]["path"]["segs"] == ["Some"] and a.get("guard") is None]
            none = [a for a in e["arms"] if unparse(a["pat"]).strip() in ("None", "_") and a.get("guard") is None]
            if len(some) == 1 and len(none) == 1:
                b = some[0]["pat"]["elems"][0].get("name")
                rets = nodes(some[0]["body"], "Return")
                if not rets and some[0]["body"]["k"] == "Return":
                    rets = [some[0]["body"]]
                nb = unparse(none[0]["body"]).replace(" ", "")
                ok2 = len(rets) == 1 and unparse(rets[0]["expr"]).replace(" ", "") == "Some(%s)" % b and (nb in ("continue", "()", "{}", "{continue}", "{continue;}") or none[0]["body"]["k"] == "Continue") and not nodes(none[0]["body"], "Return") and none[0]["body"]["k"] != "Return"
            continue
        if st["k"] != "ExprStmt" or e["k"] != "If":
            res.unanalysable(RDR, "reader|loop-statement", rw, "unexpected statement in the reader's loop: %s" % unparse(e)[:80])
            continue
        c = e["cond"]
        rets = nodes(e["then"], "Return")
        if c["k"] == "Unary" and c["op"] == "!" and c["expr"]["k"] == "MethodCall" and c["expr"]["method"] == "starts_with" and ident_of(c["expr"]["recv"]) == line_var:
            comment_used = const_val(c["expr"]["args"][0])
            ok1 = len(rets) == 1 and rets[0]["expr"] is not None and unparse(rets[0]["expr"]) == "None" and e["else"] is None and not ok2
        elif c["k"] == "LetCond" and c["expr"]["k"] == "MethodCall" and c["expr"]["method"] == "strip_prefix" and ident_of(c["expr"]["recv"]) == line_var and c["pat"]["k"] == "PTupleStruct" and c["pat"]["path"]["segs"] == ["Some"]:
            prefix_used = const_val(c["expr"]["args"][0])
            b = c["pat"]["elems"][0].get("name")
            ok2 = len(rets) == 1 and unparse(rets[0]["expr"]).replace(" ", "") == "Some(%s)" % b
        elif c["k"] == "MethodCall" and c["method"] == "starts_with" and ident_of(c["recv"]) == line_var:
            prefix_used = const_val(c["args"][0])
            pname = unparse(c["args"][0])
            from ..syn import inline_lets, simple_lets
            lets = simple_lets(e["then"]["stmts"])
            r = inline_lets(rets[0]["expr"], lets) if rets else None
            rt = unparse(r).replace(" ", "") if r else ""
            ok2 = rt in ("Some(&%s[%s.len()..])" % (line_var, pname), "Some(%s.strip_prefix(%s).unwrap())" % (line_var, pname))
            if not ok2:
                res.violate(RDR, "reader|repeat-strip", rw, "the value returned for the hash line must be the remainder after stripping the prefix exactly once; found `%s` (trim_start_matches / trim / replace strip repeatedly or more than the prefix)" % unparse(rets[0]["expr"] if rets else None))
                ok2 = None
        else:
            res.unanalysable(RDR, "reader|condition", rw, "unrecognised test in the reader's loop: %s" % unparse(c)[:100])
    res.inst(RDR, "reader|stops-at-first-non-comment", rw, True, str(ok1))
    res.inst(RDR, "reader|single-strip", rw, True, str(ok2))
    if not ok1:
        res.violate(RDR, "reader|stops-at-first-non-comment", rw, "the first line that does not start with `//` must return None from inside the loop, before the hash test")
    if ok2 is False:
        res.violate(RDR, "reader|single-strip", rw, "the hash line must return Some(<line with the prefix stripped once>)")
    want_prefix = sha_lines[0][:sha_lines[0].index("{")]
    res.inst(PFX, "prefix-agreement", rw, True, "reader %r, writer %r, comment test %r" % (prefix_used, want_prefix, comment_used))
    if prefix_used != want_prefix:
        res.violate(PFX, "prefix-agreement", rw, "the reader looks for %r but the writer emits %r before the hash" % (prefix_used, want_prefix))
    if comment_used != "//":
        res.violate(PFX, "comment-test", rw, "the leading comment block is recognised by %r instead of `//`" % comment_used)
    return check_build(syn, res, BLD)


def direct_return(iff):
    return any(st["k"] == "ExprStmt" and st["expr"]["k"] == "Return" and st["expr"].get("expr") is None for st in iff["then"]["stmts"])


def check_build(syn, res, BLD):
    # ---- build script: the per-file step lives in main's loop or in a helper main calls for each grammar file
    bf = syn.file("kiki/build.rs")
    if bf is None:
        res.floor("anchor: kiki/build.rs", 0, 1)
        return
    fns = {it["name"]: it for it in bf["items"] if it["k"] == "Fn"}
    if "main" not in fns:
        res.floor("anchor: build.rs main", 0, 1)
        return

    def hash_tests(fn):
        out = []
        for iff in nodes(fn["body"], "If"):
            c = iff["cond"]
            if c["k"] == "Binary" and re.match(r"^(?:kiki::)?get_grammar_hash\(", unparse(c["left"]).replace(" ", "")):
                out.append(iff)
        return out

    workers = [fn for fn in fns.values() if hash_tests(fn)]
    if len(workers) != 1:
        res.violate(BLD, "freshness-test", "kiki/build.rs", "expected exactly one function of the build script to compare the stored hash (found %d)" % len(workers))
        return
    wk = workers[0]
    in_main = wk["name"] == "main"
    skips_here = direct_continue if in_main else direct_return
    bw = "kiki/build.rs:%d" % wk["line"]
    lets = {}
    for st in nodes(wk["body"], "Let"):
        if st["pat"]["k"] == "PIdent" and st.get("init") is not None:
            lets[st["pat"]["name"]] = unparse(st["init"]).replace(" ", "")
    params = [i_["pat"].get("name") for i_ in wk["inputs"] if "pat" in i_]
    conts = [iff for iff in hash_tests(wk) if skips_here(iff)]
    good = False
    for iff in conts:
        c = iff["cond"]
        l, r = unparse(c["left"]).replace(" ", ""), unparse(c["right"]).replace(" ", "")
        mm = re.match(r"^(?:kiki::)?get_grammar_hash\((\w+)\)$", l)
        mr = re.match(r"^Some\(&(\w+)\)$", r)
        if c["op"] == "==" and mm and mr:
            hv = lets.get(mr.group(1), "")
            mh = re.match(r"^sha256::digest\(&\*?(\w+)\)$", hv)
            contents = mh.group(1) if mh else None
            cv = lets.get(contents, "") if contents else ""
            gen_ok = any(re.match(r"^(?:kiki::)?generate\(&%s\)$" % re.escape(contents or "?"), unparse(cl).replace(" ", "")) for cl in nodes(wk["body"], "Call"))
            good = bool(mh) and cv.startswith("fs::read_to_string(") and gen_ok
            res.inst(BLD, "freshness-test", bw, True, "in %s: skip iff reader(..) == Some(&%s), %s = %s, %s = %s, generate(&%s): %s" % (wk["name"], mr.group(1), mr.group(1), hv, contents, cv[:40], contents, gen_ok))
    if not good:
        res.violate(BLD, "freshness-test", bw, "regeneration may only be skipped when `get_grammar_hash(<existing output>) == Some(&<sha256::digest of the grammar file contents as read>)` and generation must use those same contents")

    def kiki_ext_test(fn):
        """`fn f(path) -> bool { path.extension() == Some(OsStr::new("kiki")) }`"""
        st = fn["body"]["stmts"]
        return len(st) == 1 and st[0]["k"] == "ExprStmt" and re.match(r'^\w+\.extension\(\)==Some\(OsStr::new\("kiki"\)\)$', unparse(st[0]["expr"]).replace(" ", "")) is not None

    def allowed_skip(cond_txt):
        for part in cond_txt.replace(" ", "").split("||"):
            if re.match(r"^is_ignored\(.*\)$", part):
                continue
            m_ = re.match(r"^!(\w+)\(.*\)$", part)
            if m_ and m_.group(1) in fns and kiki_ext_test(fns[m_.group(1)]):
                continue
            if re.match(r'^[\w.()]+\.extension\(\)!=Some\(OsStr::new\("kiki"\)\)$', part):
                continue
            return False
        return True

    # other skips: only the ignore list / "not a grammar file"
    for fn in ([wk] if in_main else [wk, fns["main"]]):
        skf = direct_continue if fn["name"] == "main" else direct_return
        for iff in nodes(fn["body"], "If"):
            if skf(iff) and iff not in conts:
                ct = unparse(iff["cond"])
                if not allowed_skip(ct):
                    res.violate(BLD, "other-skip|%s" % ct[:40], "kiki/build.rs:%d" % fn["line"], "regeneration is also skipped under `%s`" % ct[:80])
    if not in_main:
        # main must call the step for every walked entry that is not skipped above
        calls = [c for c in nodes(fns["main"]["body"], "Call") if unparse(c["func"]).strip() == wk["name"]]
        res.inst(BLD, "step-called-from-main", "kiki/build.rs:%d" % fns["main"]["line"], True, "%d call(s) of %s" % (len(calls), wk["name"]))
        if len(calls) != 1:
            res.violate(BLD, "step-called-from-main", "kiki/build.rs:%d" % fns["main"]["line"], "main must call `%s` once per walked entry; found %d calls" % (wk["name"], len(calls)))


def check(ctx):
    res = Result("C15", ctx["tier"], "other", ctx["seed"])
    run_rules(ctx, res)
    res.assume("sha256::digest is a pure function of its argument; str::lines / strip_prefix contracts")
    return finish(res, "Header template shape, digest data-flow from generate's `src` parameter to the placeholder (MIR def-use along the call chain), reader/writer prefix agreement, the reader's loop shape (first non-comment line stops, single strip) and the build script's freshness test, all decided on the source.")
