"""C06 (clause) — emitted type definitions and the `parse` signature mirror the declarations.

Decided on the generator's templates and renderers (syn AST + token walk): visibility of types and
fields for both struct shapes, the Box / payload-type mapping of every field arm, declaration
order of nonterminals / variants / fields, omission of `_` fields, and the signature of parse.
Not decided: the complete emitted text for every fieldset pattern (value-level behaviour of the
emitter, pinned textually for 7 grammars by the snapshot tests)."""
import re

from ..syn import Syn, nodes, ident_of, path_str, unparse, method_chain
from .. import tpl
from ..report import Result, finish
from ..flatten import check_flatteners
from .c03 import load_templates, all_items

ORDER_KEEPING = {"iter", "map", "filter_map", "enumerate", "collect", "join", "indent", "into_iter", "cloned", "chain", "to_owned", "to_string", "raw", "len", "unwrap", "get_type", "get", "any", "clone", "name", "sum"}


def fieldset_dispatch(syn, efile):
    """the method that matches on Fieldset and calls one renderer per shape -> {variant: renderer name}.
    The all-`_` collapse may sit in the dispatcher instead of the renderers: `Named(f) if f.has_used_field() => named(f, ..)`
    with the unguarded arm of the same shape going to the empty renderer (recorded in fn["_collapse_in_dispatch"])."""
    def single_call(b):
        while b["k"] == "BlockExpr" and len(b["block"]["stmts"]) == 1 and b["block"]["stmts"][0]["k"] == "ExprStmt" and not b["block"]["stmts"][0].get("semi"):
            b = b["block"]["stmts"][0]["expr"]
        if b["k"] == "MethodCall" and ident_of(b["recv"]) == "self":
            return b
        # the same renderer called as an associated function (`Self::f(..)`) because it no longer needs `self`
        if b["k"] == "Call" and b["func"]["k"] == "Path" and b["func"]["path"]["segs"][:-1] in ([], ["Self"]):
            return {"k": "MethodCall", "method": b["func"]["path"]["segs"][-1], "args": b["args"], "recv": None, "line": b.get("line", 0)}
        return None

    for (p, impl, fn) in syn.all_fns(path=efile):
        ms = nodes(fn["body"], "Match")
        if len(ms) == 1 and len(fn["body"]["stmts"]) == 1 and "String" in (fn["output"] or ""):
            arms = ms[0]["arms"]
            plain, guarded = {}, {}
            ok_arms = True
            for a in arms:
                if not (a["pat"]["k"] in ("PPath", "PTupleStruct") and len(a["pat"]["path"]["segs"]) == 2 and a["pat"]["path"]["segs"][0] == "Fieldset"):
                    ok_arms = False
                    continue
                call = single_call(a["body"])
                if call is None:
                    ok_arms = False
                    continue
                shape = a["pat"]["path"]["segs"][1]
                if a.get("guard") is not None:
                    binder = a["pat"]["elems"][0].get("name") if a["pat"]["k"] == "PTupleStruct" and a["pat"]["elems"] else None
                    g_ok = binder is not None and unparse(a["guard"]).replace(" ", "") == "%s.has_used_field()" % binder and call["args"] and ident_of(call["args"][0]) == binder and shape not in plain
                    if not g_ok:
                        ok_arms = False
                    guarded[shape] = call
                else:
                    plain.setdefault(shape, call)
            if not ok_arms or set(plain) | set(guarded) != {"Empty", "Named", "Tuple"} or "Empty" not in plain:
                continue
            vs = {"Empty": plain["Empty"]["method"]}
            in_dispatch = {}
            good = True
            for shape in ("Named", "Tuple"):
                if shape in guarded:
                    # the unguarded remainder of this shape must be rendered like the empty fieldset
                    good = good and shape in plain and plain[shape]["method"] == vs["Empty"]
                    vs[shape] = guarded[shape]["method"]
                    in_dispatch[shape] = True
                elif shape in plain:
                    vs[shape] = plain[shape]["method"]
                    in_dispatch[shape] = False
                else:
                    good = False
            calls = list(plain.values()) + list(guarded.values())
            if good and any("options" in unparse(x) for x in calls) and all(len(c_["args"]) >= 1 for c_ in calls) and "options" in [i["pat"].get("name") for i in fn["inputs"] if "pat" in i]:
                fn["_collapse_in_dispatch"] = in_dispatch
                return fn, vs
    return None, {}


def helper_cases(hfn, fmt, efile):
    """a field-type helper: one match on its symbol parameter -> {kind: (ok, description, line)}"""
    out = {}
    params = [i["pat"]["name"] for i in hfn["inputs"] if "pat" in i and i["pat"].get("k") == "PIdent"]
    stmts = hfn["body"]["stmts"]
    if not (len(stmts) == 1 and stmts[0]["k"] == "ExprStmt" and stmts[0]["expr"]["k"] == "Match" and ident_of(stmts[0]["expr"]["expr"]) in params):
        return {"?": (False, "helper `%s` is not a single match on its symbol parameter" % hfn["name"], hfn["line"])}
    for a in stmts[0]["expr"]["arms"]:
        ptxt = unparse(a["pat"])
        m = re.match(r"^IdentOrTerminalIdent::(Ident|Terminal)\((\w+)\)$", ptxt.replace(" ", ""))
        if not m or a.get("guard"):
            out["?" + ptxt] = (False, "arm `%s` of helper `%s` is not a plain symbol-kind arm" % (ptxt, hfn["name"]), a["line"])
            continue
        b = m.group(2)
        body = a["body"]
        fmts = [x for x in nodes(body, "Macro") if x["name"] == "format"]
        conds = nodes(body, "If") + nodes(body, "Match")
        if m.group(1) == "Ident":
            okk = False
            why = "nonterminal case must be one unconditional `Box<{name}>` template"
            if len(fmts) == 1 and not conds:
                tt = [t for t in fmt if t.node is fmts[0]]
                if tt:
                    toks = tt[0].tokens
                    src = tpl.resolve_text(tt[0], toks[2].ph).replace(" ", "") if len(toks) == 4 and toks[2].k == "ph" else None
                    okk = len(toks) == 4 and toks[0].s == "Box" and toks[1].s == "<" and toks[3].s == ">" and src in ("expr:&%s.name" % b, "expr:%s.name" % b)
                    why = "Box<%s>" % src if okk else "nonterminal case prints `%s` (type from `%s`), not `Box<{its own type name}>`" % (tt[0].text, src)
            out["nonterminal"] = (okk, why, a["line"])
        else:
            tail = body
            while tail["k"] == "Block" and tail["block"]["stmts"]:
                tail = tail["block"]["stmts"][-1].get("expr") or tail
                if tail["k"] == "Block":
                    continue
                break
            txt = unparse(tail).replace(" ", "")
            okk = bool(re.match(r"^self\.file\.terminal_enum\.get_type\(&%s\.name\)(\.unwrap\(\)|\?)(\.to_owned\(\)|\.to_string\(\)|\.clone\(\))?$" % re.escape(b), txt)) and not conds and not fmts
            out["terminal"] = (okk, "payload type from %s" % txt if okk else "terminal case must be the payload type looked up under the field's own terminal name, found `%s`" % txt[:120], a["line"])
    return out


def run_rules(ctx, res):
    PUBT, PUBF, SIG, BOX, ORD = "R-C06-pubtype", "R-C06-pubfield", "R-C06-sig", "R-C06-box", "R-C06-order"
    res.rule(PUBT, "every template that opens a user type definition begins it with `pub struct {name}` / `pub enum {name}` (terminal enum and both nonterminal kinds)")
    res.rule(PUBF, "both non-empty fieldset renderers read the struct-visibility option and begin every field line they print with it; the struct definition site sets it, enum variants do not")
    res.rule(SIG, "`parse` is pub, takes one parameter whose type is a (fresh) generic bounded by IntoIterator<Item = {terminal enum}> and returns Result<{start type}, Option<{terminal enum}>>")
    res.rule(BOX, "in both renderers the arm for a nonterminal-typed field prints exactly `Box<{that field's type name}>`, the arm for a terminal-typed field prints exactly the payload type looked up under that field's own terminal name, `_` / skipped fields print nothing, each arm has a single unconditional output, and an all-skipped fieldset collapses to the empty form")
    res.rule(ORD, "nonterminals, variants, terminal variants and fields are printed by order-preserving iterator chains (iter/map/filter_map/enumerate/collect/join only); the CST list conversions keep order")
    syn, efile, ts, consts = load_templates(ctx)
    if efile is None:
        res.floor("anchor: emitter file", 0, 1)
        return
    fmt = [t for t in ts if t.is_format]
    for t in fmt:
        t.tokens = tpl.lex_segments(t.segs)
    # ---- pubtype
    n_defs = 0
    kinds_seen = set()
    for t in fmt:
        toks = t.tokens
        for i, tok in enumerate(toks):
            if tok.k == "ident" and tok.s in ("struct", "enum") and i + 1 < len(toks) and toks[i + 1].k in ("ph", "mixed"):
                nt = toks[i + 1]
                first = nt.parts[0][1] if nt.k == "mixed" else nt.ph
                d = tpl.resolve_text(t, first)
                user = bool(re.match(r"^(expr:&?\w+\.name\.name|self\.terminal_enum_name|expr:&?self\.terminal_enum_name)$", d)) or d in ("self.terminal_enum_name",)
                if not user:
                    continue
                n_defs += 1
                is_pub = i >= 1 and toks[i - 1].k == "ident" and toks[i - 1].s == "pub"
                key = "typedef|%s|%s" % (tok.s, d)
                kinds_seen.add((tok.s, "terminal" if "terminal_enum" in d else "nonterminal"))
                res.inst(PUBT, key, t.where, True, "pub=%s" % is_pub)
                if not is_pub:
                    res.violate(PUBT, key, t.where, "user type definition `%s {%s}` is not declared `pub`" % (tok.s, first))
    res.floor("user type definition templates", n_defs, 3)
    for need in (("enum", "terminal"), ("struct", "nonterminal"), ("enum", "nonterminal")):
        if need not in kinds_seen:
            res.violate(PUBT, "missing|%s-%s" % need, efile, "no template opens a `pub %s` for the %s declaration" % need)
    # ---- sig
    parses = [(t, it) for (t, it) in all_items(ts) if it["k"] == "Fn" and it["name"] == "parse"]
    if len(parses) == 1:
        t, fn = parses[0]
        gp = re.findall(r"__PH_(\w+?)__", fn["generics"] or "")
        out = (fn["output"] or "").replace(" ", "")
        wh = (fn["where"] or "").replace(" ", "")
        pty = fn["inputs"][0]["ty"].replace(" ", "") if len(fn["inputs"]) == 1 else None
        m_out = re.match(r"^Result<__PH_(\w+)__,Option<__PH_(\w+)__>>$", out)
        m_wh = re.match(r"^where__PH_(\w+)__:IntoIterator<Item=__PH_(\w+)__>,?$", wh)
        ok = fn["vis"].strip() == "pub" and len(fn["inputs"]) == 1 and len(gp) == 1 and pty == "__PH_%s__" % gp[0] and m_out is not None and m_wh is not None
        if ok:
            ok = m_wh.group(1) == gp[0] and m_wh.group(2) == m_out.group(2)
            start_b = tpl.resolve_text(t, m_out.group(1))
            term_b = tpl.resolve_text(t, m_out.group(2))
            ok = ok and start_b == "self.start_type_name" and term_b == "self.terminal_enum_name"
            # what those builder fields hold
            from .c05 import analyse_ctor
            nm = analyse_ctor(syn, efile, res, SIG)
            ok = ok and nm.fields.get("start_type_name") == ("user", "start") and nm.fields.get("terminal_enum_name") == ("user", "terminal-enum")
            gb = tpl.resolve_text(t, gp[0])
            mg = re.match(r"^self\.(\w+)$", gb)
            if not (mg and nm.fields.get(mg.group(1), ("?",))[0] == "fresh"):
                ok = False
                res.violate(SIG, "parse-generic-not-fresh", t.where, "the type parameter of parse (`%s`) is not a fresh name: a start symbol or terminal enum of the same name is shadowed and the signature no longer mentions the user's types" % gb)
        res.inst(SIG, "parse-signature", t.where, True, "vis=%s generics=%s param=%s where=%s -> %s" % (fn["vis"], fn["generics"], pty, wh, out))
        if not ok:
            res.violate(SIG, "parse-signature", t.where, "parse must be `pub fn parse<G>(src: G) -> Result<{start}, Option<{terminal enum}>> where G: IntoIterator<Item = {terminal enum}>` with {start} = file.start and {terminal enum} = file.terminal_enum.name; found vis=`%s` generics=`%s` param=`%s` where=`%s` output=`%s`" % (fn["vis"], fn["generics"], pty, wh, out))
    else:
        res.floor("anchor: parse item template", len(parses), 1)
    # ---- renderers
    dfn, vs = fieldset_dispatch(syn, efile)
    if dfn is None:
        res.unanalysable(PUBF, "dispatcher", efile, "cannot find the fieldset dispatcher (match on Fieldset calling one renderer per shape)")
        return
    fns = {fn["name"]: fn for (p, impl, fn) in syn.all_fns(path=efile)}
    vis_field = None
    for shape in ("Named", "Tuple"):
        rn = vs[shape]
        fn = fns.get(rn)
        if fn is None:
            res.unanalysable(PUBF, "renderer|" + shape, efile, "renderer %s not found" % rn)
            continue
        where = "%s:%d" % (efile, fn["line"])
        opt_param = [i["pat"]["name"] for i in fn["inputs"] if "pat" in i and "Options" in (i.get("ty") or "")]
        opt = opt_param[0] if opt_param else "options"
        # let pub_ = if options.F { "pub " } else { "" };
        pubvar = None
        for st in fn["body"]["stmts"]:
            if st["k"] == "Let" and st["pat"]["k"] == "PIdent" and st.get("init") is not None and st["init"]["k"] == "If":
                c = st["init"]["cond"]
                if c["k"] == "Field" and ident_of(c["base"]) == opt:
                    th = st["init"]["then"]["stmts"]
                    el = st["init"]["else"]
                    tv = th[0]["expr"]["lit"]["v"] if th and th[0]["k"] == "ExprStmt" and th[0]["expr"]["k"] == "Lit" else None
                    ev = el["block"]["stmts"][0]["expr"]["lit"]["v"] if el and el["k"] == "BlockExpr" and el["block"]["stmts"] and el["block"]["stmts"][0]["expr"]["k"] == "Lit" else None
                    if tv is not None and tv.strip() == "pub" and tv.endswith(" ") and ev == "":
                        pubvar = st["pat"]["name"]
                        f_ = c["member"]
                        if vis_field is None:
                            vis_field = f_
                        elif vis_field != f_:
                            res.violate(PUBF, "option-mismatch", where, "the two renderers read different visibility options (%s vs %s)" % (vis_field, f_))
        res.inst(PUBF, "renderer|%s|reads-visibility-option" % shape, where, True, "pub variable: %s" % pubvar)
        if pubvar is None:
            res.violate(PUBF, "renderer|%s|no-visibility" % shape, where, "the %s fieldset renderer does not read the struct-visibility option: fields of an emitted %s struct are private and the user can neither construct nor destructure it (rustc E0603/E0616)" % (shape.lower(), shape.lower()))
        # all-skipped collapse
        first = fn["body"]["stmts"][0] if fn["body"]["stmts"] else None
        collapse = first is not None and first["k"] == "ExprStmt" and first["expr"]["k"] == "If" and "has_used_field" in unparse(first["expr"]["cond"]) and unparse(first["expr"]["cond"]).startswith("!") and nodes(first["expr"]["then"], "Return") and vs["Empty"] in unparse(nodes(first["expr"]["then"], "Return")[0]["expr"])
        if not collapse and dfn.get("_collapse_in_dispatch", {}).get(shape):
            # the dispatcher only calls this renderer under `fieldset.has_used_field()` and sends the rest to the empty
            # renderer (checked in fieldset_dispatch); the renderer has no other caller
            callers = [m_ for (p2, i2, f2) in syn.all_fns(path=efile) for m_ in nodes(f2["body"], "MethodCall") if m_["method"] == fn["name"] and ident_of(m_["recv"]) == "self"]
            collapse = len(callers) == 1
        res.inst(BOX, "renderer|%s|all-skipped-collapse" % shape, where, True, str(bool(collapse)))
        if not collapse:
            res.violate(BOX, "renderer|%s|all-skipped-collapse" % shape, where, "a fieldset whose fields are all `_` must collapse to the empty (unit-like) form: the renderer must start with `if !fieldset.has_used_field() { return <empty renderer> }`")
        # no other way out of the renderer than the collapse above and the field list below
        rets = nodes(fn["body"], "Return")
        extra = [r_ for r_ in rets if not (collapse and first is not None and first["k"] == "ExprStmt" and first["expr"]["k"] == "If" and any(r_ is x for x in nodes(first["expr"]["then"], "Return")))]
        res.inst(BOX, "renderer|%s|single-exit" % shape, where, True, "%d early returns besides the all-skipped collapse" % len(extra))
        for r_ in extra[:1]:
            res.violate(BOX, "renderer|%s|extra-return" % shape, "%s:%d" % (efile, r_["line"]), "the %s fieldset renderer returns early with `%s`: some fieldsets are printed by other code than the per-field arms (Box / payload-type / omission rules no longer cover them)" % (shape.lower(), unparse(r_["expr"])[:100]))
        # the filter_map closure over fieldset.fields.iter()
        fms = [m for m in nodes(fn["body"], "MethodCall") if m["method"] == "filter_map"]
        if len(fms) != 1:
            res.unanalysable(BOX, "renderer|%s|filter_map" % shape, where, "expected exactly one filter_map over the fields")
            continue
        fm = fms[0]
        root, chain = method_chain(fm["recv"])
        names = [c[1] for c in chain]
        if names != ["fields", "iter"]:
            res.violate(ORD, "renderer|%s|field-iteration" % shape, where, "fields must be iterated in declaration order with `fields.iter()`, found `%s`" % unparse(fm["recv"]))
        clo = fm["args"][0]
        ms = nodes(clo["body"], "Match") if clo["k"] == "Closure" else []
        if len(ms) < 1:
            res.unanalysable(BOX, "renderer|%s|arms" % shape, where, "field closure is not a match")
            continue
        n_arms = 0
        for a in ms[0]["arms"]:
            ptxt = unparse(a["pat"])
            n_arms += 1
            key = "renderer|%s|arm|%s" % (shape, re.sub(r"\(\w+\)", "(_)", ptxt).replace(" ", ""))
            skipped = bool(re.search(r"::(Underscore|Skipped)\(", ptxt))
            fmts = [m for m in nodes(a["body"], "Macro") if m["name"] == "format"]
            conds = nodes(a["body"], "If") + nodes(a["body"], "Match")
            if skipped:
                ok = a["body"]["k"] == "Path" and a["body"]["path"]["segs"] == ["None"]
                res.inst(BOX, key, "%s:%d" % (efile, a["line"]), True, "prints nothing: %s" % ok)
                if not ok:
                    res.violate(BOX, key, "%s:%d" % (efile, a["line"]), "a `_` / skipped field must be omitted from the emitted type (arm must be `None`)")
                continue
            if len(fmts) != 1 or conds:
                res.violate(BOX, key + "|conditional", "%s:%d" % (efile, a["line"]), "the arm `%s` must print its field through one unconditional template; found %d templates and %d conditionals — some fields get a different type shape" % (ptxt, len(fmts), len(conds)))
                continue
            # the template of this arm
            tt = [t for t in fmt if t.node is fmts[0]]
            if not tt:
                continue
            t = tt[0]
            toks = list(t.tokens)
            idx = 0
            # the visibility placeholder prints "pub " (with its own trailing space): un-glue it
            if toks and toks[0].k == "mixed" and toks[0].parts[0] == ("ph", pubvar):
                rest_parts = toks[0].parts[1:]
                first = tpl.Tok("ph", "{%s}" % pubvar)
                first.ph = pubvar
                new = [first]
                for (pk, pv) in rest_parts:
                    nt_ = tpl.Tok(pk, pv if pk != "ph" else "{%s}" % pv)
                    if pk == "ph":
                        nt_.ph = pv
                    new.append(nt_)
                toks = new + toks[1:]
            # optional visibility placeholder
            if idx < len(toks) and toks[idx].k == "ph" and toks[idx].ph == pubvar:
                idx += 1
                has_pub = True
            else:
                has_pub = False
            if pubvar is not None and not has_pub:
                res.violate(PUBF, key + "|field-line-without-visibility", t.where, "field line `%s` does not start with the visibility placeholder `{%s}`" % (t.text, pubvar))
            # optional `name :`
            field_binder = None
            if idx + 1 < len(toks) and toks[idx].k == "ph" and toks[idx + 1].s == ":":
                idx += 2
            rest = toks[idx:]
            # binder names of the pattern
            binders = re.findall(r"(?:Ident|Terminal)\((\w+)\)", ptxt)
            sym_b = binders[-1] if binders else None
            kind_in_pat = bool(re.search(r"IdentOrTerminalIdent::(Ident|Terminal)\(", ptxt))
            if not kind_in_pat:
                # the arm does not distinguish the symbol kind itself: the type text must come from one helper
                # `self.H(<this field's symbol>)` that matches on the kind and prints Box<name> / the payload type
                n_arms -= 1
                okh = len(rest) == 2 and rest[0].k == "ph" and rest[1].s == ","
                src = tpl.resolve_text(t, rest[0].ph).replace(" ", "") if okh else ""
                clo_p = unparse(clo["inputs"][0]) if clo.get("inputs") else "field"
                used_b = re.findall(r"Used\((\w+)\)", ptxt)
                sym_ok = r"(?:&%s\.symbol%s)" % (re.escape(clo_p), ("|" + re.escape(used_b[0])) if used_b else "")
                mh = re.match(r"^expr:self\.(\w+)\((%s)\)$" % sym_ok, src)
                if not (okh and mh and mh.group(1) in fns):
                    res.violate(BOX, key, t.where, "field line `%s`: the type is neither decided by the arm's own symbol kind nor printed by a helper applied to this field's own symbol (`%s`)" % (t.text, src))
                    continue
                got = helper_cases(fns[mh.group(1)], fmt, efile)
                res.inst(BOX, key, t.where, True, "type printed by helper %s: %s" % (mh.group(1), sorted(got)))
                for kind_, (okk, why_, line_) in sorted(got.items()):
                    n_arms += 1
                    res.inst(BOX, "%s|helper|%s" % (key, kind_), "%s:%d" % (efile, line_), True, why_)
                    if not okk:
                        res.violate(BOX, "%s|helper|%s" % (key, kind_), "%s:%d" % (efile, line_), why_)
                if set(got) != {"nonterminal", "terminal"}:
                    res.violate(BOX, key + "|helper-cases", t.where, "helper `%s` does not have exactly one case per symbol kind (found %s)" % (mh.group(1), sorted(got)))
                continue
            if "Terminal(" in ptxt.split(",")[-1] or ptxt.rstrip(") ").endswith("Terminal(%s" % sym_b):
                # terminal-typed: {type} ,
                ok = len(rest) == 2 and rest[0].k == "ph" and rest[1].s == ","
                src = tpl.resolve_text(t, rest[0].ph) if ok else None
                want = "expr:self.file.terminal_enum.get_type(&%s.name).unwrap()" % sym_b
                ok = ok and src in (want, want[:-len(".unwrap()")] + "?")
                res.inst(BOX, key, t.where, True, "payload type from %s" % src)
                if not ok:
                    res.violate(BOX, key, t.where, "a terminal-typed field must be printed as the payload type looked up under that very field's terminal name (`%s`); template `%s` prints `%s`" % (want, t.text, src))
            else:
                ok = len(rest) == 5 and rest[0].s == "Box" and rest[1].s == "<" and rest[2].k == "ph" and rest[3].s == ">" and rest[4].s == ","
                src = tpl.resolve_text(t, rest[2].ph) if ok else None
                want = "expr:&%s.name" % sym_b
                ok = ok and src == want
                res.inst(BOX, key, t.where, True, "Box<%s>" % src)
                if not ok:
                    res.violate(BOX, key, t.where, "a nonterminal-typed field must be printed as `Box<{its own type name}>`; template `%s` (type from `%s`)" % (t.text, src))
        res.floor("field cases of the %s renderer (skipped, nonterminal, terminal)" % shape.lower(), n_arms, 3)
    # call sites of the dispatcher: struct site sets the option, variant site does not
    sites = []
    for (p, impl, fn) in syn.all_fns(path=efile):
        for m in nodes(fn["body"], "MethodCall"):
            oa = m["args"][1] if len(m["args"]) == 2 else None
            if oa is not None and oa["k"] == "Ref" and not oa.get("mut"):
                oa = oa["expr"]  # the options handed over by reference
            if m["method"] == dfn["name"] and ident_of(m["recv"]) == "self" and oa is not None and oa["k"] == "Struct":
                opts = {f["member"]: unparse(f["expr"]) for f in oa["fields"]}
                sites.append((fn, m, opts))
    for (fn, m, opts) in sites:
        arg = unparse(m["args"][0])
        is_struct = bool(re.match(r"^&s\.fieldset$", arg)) or "variant" not in arg
        key = "dispatch-site|%s" % ("struct" if is_struct else "variant")
        v = opts.get(vis_field)
        res.inst(PUBF, key, "%s:%d" % (efile, m["line"]), True, "%s = %s" % (vis_field, v))
        if is_struct and v != "True":
            res.violate(PUBF, key, "%s:%d" % (efile, m["line"]), "struct definitions must be rendered with the field-visibility option set (struct fields are public)")
    res.floor("call sites of the fieldset dispatcher", len(sites), 2)
    # ---- order of the printing chains in the type-definition functions
    tdf = set()
    for t in fmt:
        if re.search(r"\bpub (struct|enum)\b", t.text):
            tdf.add(t.fn)
    tdf |= set(vs.values())
    # helpers bound to placeholders inside the terminal-enum / nonterminal templates
    for t in fmt:
        if t.fn in tdf or re.search(r"\bpub (struct|enum)\b", t.text):
            for ph in t.placeholders():
                b = tpl.binding(t, ph)
                if b is not None and b[0] == "let" and b[1] is not None:
                    mm = re.match(r"^self\.(get_\w*(variants|type_defs|fieldset)\w*)\(", unparse(b[1]))
                    if mm and ("terminal_enum_variants" in mm.group(1) or "type_defs" in mm.group(1)):
                        tdf.add(mm.group(1))
    n_ch = 0
    for name in sorted(tdf):
        fn = fns.get(name)
        if fn is None:
            continue
        for m in nodes(fn["body"], "MethodCall"):
            root, chain = method_chain(m)
            names = [c[1] for c in chain if c[0] == "call"]
            if "iter" in names or "into_iter" in names:
                n_ch += 1
                bad = [x for x in names if x not in ORDER_KEEPING]
                if bad:
                    res.violate(ORD, "chain|%s|%s" % (name, ",".join(sorted(set(bad)))), "%s:%d" % (efile, m["line"]), "printing chain in %s uses `%s`: declaration order (or completeness) of the emitted items is not preserved" % (name, ", ".join(bad)))
    res.inst(ORD, "printing-chains", efile, True, "%d iterator chains in %s" % (n_ch, sorted(tdf)))
    res.floor("iterator chains in the type-definition printers", n_ch, 4)
    nfl = check_flatteners(syn, res, ORD)
    res.floor("CST list conversions checked", nfl, 6)
    # ---- declarations reach the emitter as written (which fields are `_`, which kind a symbol has): MIR, shared with C02
    from ..mir import Mir
    from .. import declcopy
    SKIP = "R-C06-asdeclared"
    res.rule(SKIP, "declarations reach the emitter as written: the CST->AST stage rebuilds every value from the same-named field / variant of its source unconditionally; the usedness predicates (which decide the unit-like collapse) look at the variant only; validation hands on each declaration as a plain, never mutated copy")
    mir_ = Mir(ctx["facts"]["mir"])
    declcopy.run(mir_, res, SKIP)
    # the terminal enum's variants carry the declared payload types: C13's printer / write-once rules on the same facts
    from . import c13 as _c13
    from ..report import Result as _R13
    r13 = _R13("C13", "quick", "other")
    _c13.run_printer_rules(ctx, r13)  # (not c13.run_rules: that one re-evaluates this module's box rule)
    _c13.run_immut_rules(ctx, r13)
    # (a floor — the printer or the payload aggregate no longer found — is imported too: an anchor lost in the imported
    #  rule must not silently disable it here; found by round-6 change C06-r6-1)
    v13 = [v for v in r13.violations if v.rule in ("R-C13-printer", "R-C13-immut", "floor")]
    res.inst(SKIP, "payload types of terminal variants (C13 printer and write-once rules)", "", True, "%d violations" % len(v13))
    for v in v13:
        res.violate(SKIP, "c13|" + v.key, v.where, "the emitted terminal enum must carry each variant's declared payload type: " + v.msg)
    # the avoid set behind the fresh generic parameter is complete (shared with C05)
    from .c05 import analyse_ctor, check_fresh_machinery
    from ..report import Result as _R2
    tmpf = _R2("C05", "quick", "other")
    nm_ = analyse_ctor(syn, efile, tmpf, "R-C05-fresh")
    if nm_.ctor_fn is not None:
        check_fresh_machinery(ctx, nm_, tmpf, "R-C05-fresh")
    res.inst(SIG, "fresh-name-machinery", "", True, "%d violations of the fresh-name machinery (avoid set holds all user name sources; every fresh name is re-inserted)" % len(tmpf.violations))
    for v in tmpf.violations:
        res.violate(SIG, "fresh|" + v.key, v.where, "the generic parameter of `parse` is only fresh if the fresh-name machinery is sound: " + v.msg)


def check(ctx):
    res = Result("C06", ctx["tier"], "other", ctx["seed"])
    run_rules(ctx, res)
    res.assume("not decided: the complete emitted text for every fieldset pattern (pinned for 7 grammars by the snapshot tests); decided are the clauses named in the rules")
    return finish(res, "Clause-level decision on the generator's templates and renderers: visibility of emitted types and of struct fields for both fieldset shapes (grounded in Rust's visibility rule), the Box / payload-type mapping and `_` omission of every field arm, the all-skipped collapse, order-preserving printing chains and list conversions, and the signature of parse with its placeholders traced to file.start / file.terminal_enum.name.")
