"""R-C09-span and R-C09-wiring: the parse-error conversion reports the span of exactly the token
the parser hands back."""
from ..syn import nodes, ident_of, path_str, method_chain, unparse, lit_of
from ..tok import extract as tok_extract
from ..mir import Mir, Exprs, strip_transparent, E, canon


def token_lexemes(syn, tf):
    """token variant -> (payload kind, lexeme or None) as the tokenizer constructs it.
    payload kinds: 'index' (ByteIndex of the lexeme start), 'ident', 'terminal-ident', 'attribute'"""
    out = {}
    for lex, tok in tf.reserved.items():
        out[tok] = ("index", lex)
    for ch, tok in tf.punct.items():
        out[tok] = ("index", ch)
    return out


def check_span(ctx, syn, res):
    rule = "R-C09-span"
    tf = tok_extract(syn)
    if tf.file is None or not tf.reserved or not tf.punct:
        res.unanalysable(rule, "tokenizer-tables", "", "cannot read the tokenizer's literal tables")
        return
    # the conversion function: takes Option<&Token> and returns KikiErr
    conv = None
    for (p, impl, fn) in syn.all_fns():
        if impl is None and (fn["output"] or "").strip() == "KikiErr" and any("Option" in (i.get("ty") or "") and "Token" in (i.get("ty") or "") for i in fn["inputs"]):
            conv = (p, fn)
    if conv is None:
        res.floor("anchor: parse-error conversion (Option<&Token>, &str) -> KikiErr", 0, 1)
        return
    cpath, cfn = conv
    # impl Token { fn start(&self) -> ByteIndex; fn content_len(&self) -> usize } in the same file
    start_fn = len_fn = None
    # (in the same file today; the impl block may live next to the type just as well)
    cands = [(p, impl, fn) for (p, impl, fn) in syn.all_fns(path=cpath) if impl is not None and impl["self_ty"].strip() == "Token"]
    if not cands:
        cands = [(p, impl, fn) for (p, impl, fn) in syn.all_fns() if impl is not None and impl["self_ty"].strip() == "Token" and not p.endswith("/parser.rs") and len(fn["inputs"]) == 1]
    for (p, impl, fn) in cands:
        if True:
            if (fn["output"] or "").strip() == "ByteIndex":
                start_fn = fn
            elif (fn["output"] or "").strip() == "usize":
                len_fn = fn
    if start_fn is None or len_fn is None:
        res.floor("anchor: Token::start / Token::content_len", 0, 1)
        return
    lex = token_lexemes(syn, tf)
    # DoubleColon: emitted when ':' follows ':'  (lexeme "::"), Colon also emitted by the colon state's flush
    lex["DoubleColon"] = ("index", "::")
    lex.setdefault("Colon", ("index", ":"))
    lex["Ident"] = ("ident", None)
    lex["TerminalIdent"] = ("terminal-ident", None)
    lex["OuterAttribute"] = ("attribute", None)

    def arms(fn):
        ms = nodes(fn["body"], "Match")
        if len(ms) != 1 or ident_of(ms[0]["expr"]) != "self":
            return None
        out = {}
        for a in ms[0]["arms"]:
            p = a["pat"]
            if p["k"] != "PTupleStruct" or len(p["path"]["segs"]) != 2 or len(p["elems"]) != 1 or a["guard"] is not None:
                res.violate(rule, "%s|arm-shape|%s" % (fn["name"], unparse(p)), "%s:%d" % (cpath, a["line"]), "arm of %s is not a plain `Token::X(binding)` pattern (wildcard?)" % fn["name"])
                continue
            b = p["elems"][0]
            out[p["path"]["segs"][1]] = (b["name"] if b["k"] == "PIdent" else None, a["body"], a["line"])
        return out

    sa, la = arms(start_fn), arms(len_fn)
    if sa is None or la is None:
        res.unanalysable(rule, "span-fns", cpath, "Token::start / content_len are not single matches on self")
        return
    n = 0
    for tok, (kind, lexeme) in sorted(lex.items()):
        for (nm, table) in (("start", sa), ("len", la)):
            if tok not in table:
                res.violate(rule, "%s|missing|%s" % (nm, tok), cpath, "no arm for token %s in the span table `%s`" % (tok, nm))
                continue
        if tok not in sa or tok not in la:
            continue
        n += 1
        b, body, line = sa[tok]
        txt = unparse(body).replace(" ", "")
        if kind == "index":
            good = txt == "*%s" % b
        elif kind == "ident":
            good = txt == "%s.position" % b
        elif kind == "terminal-ident":
            good = txt in ('ByteIndex(%s.dollarless_position.0-"$".len())' % b, "ByteIndex(%s.dollarless_position.0-1)" % b)
        else:
            good = txt == "%s.position" % b
        res.inst(rule, "start|" + tok, "%s:%d" % (cpath, line), True, txt)
        if not good:
            res.violate(rule, "start|" + tok, "%s:%d" % (cpath, line), "start of token %s is computed as `%s`; the tokenizer stores the start of the lexeme as %s" % (tok, unparse(body), {"index": "the payload itself", "ident": ".position", "terminal-ident": ".dollarless_position (start + 1)", "attribute": ".position"}[kind]))
        b, body, line = la[tok]
        txt = unparse(body).replace(" ", "")
        if kind == "index":
            want = len(lexeme.encode("utf-8"))
            good = False
            if body["k"] == "MethodCall" and body["method"] == "len" and body["recv"]["k"] == "Lit" and body["recv"]["lit"]["t"] == "str":
                good = body["recv"]["lit"]["v"] == lexeme
            elif lit_of(body, "int") is not None:
                good = int(lit_of(body, "int")) == want
            why = "lexeme %r (%d bytes)" % (lexeme, want)
        elif kind == "ident":
            good = txt == "%s.name.len()" % b
            why = "name.len()"
        elif kind == "terminal-ident":
            good = txt in ('"$".len()+%s.name.raw().len()' % b, "1+%s.name.raw().len()" % b, '%s.name.raw().len()+"$".len()' % b, "%s.name.raw().len()+1" % b)
            why = "1 + dollarless name length"
        else:
            good = txt == "%s.src.len()" % b
            why = "src.len()"
        res.inst(rule, "len|" + tok, "%s:%d" % (cpath, line), True, txt)
        if not good:
            res.violate(rule, "len|" + tok, "%s:%d" % (cpath, line), "byte length of token %s is computed as `%s`; the tokenizer consumed %s" % (tok, unparse(body), why))
    extra = (set(sa) | set(la)) - set(lex)
    for t in sorted(extra):
        res.violate(rule, "unknown-token|" + t, cpath, "span table has an arm for token %s which the tokenizer never constructs" % t)
    res.floor("span table rows checked", n, 10)
    # tokenizer side: payloads it stores
    check_tokenizer_payloads(tf, res, rule)
    # the conversion itself
    stmts = cfn["body"]["stmts"]
    txt = " ; ".join(unparse(st.get("init") or st.get("expr")) for st in stmts).replace(" ", "")
    params = [i["pat"]["name"] for i in cfn["inputs"]]
    tokp, srcp = params[0], params[1]
    # let Some(token) = unexpected else { return eof(src) }
    ok_shape = False
    binder = None
    if stmts and stmts[0]["k"] == "Let" and stmts[0].get("else") is not None and stmts[0]["pat"]["k"] == "PTupleStruct" and stmts[0]["pat"]["path"]["segs"] == ["Some"] and ident_of(stmts[0]["init"]) == tokp:
        binder = stmts[0]["pat"]["elems"][0]["name"]
        els = unparse(nodes(stmts[0]["else"], "Return")[0]["expr"]).replace(" ", "") if nodes(stmts[0]["else"], "Return") else ""
        from ..syn import inline_lets, simple_lets, norm_owned_text
        lets = simple_lets(stmts[1:])
        final = stmts[-1]
        fe = inline_lets(final.get("expr"), lets) if final["k"] == "ExprStmt" else None
        ftxt = unparse(fe).replace(" ", "") if fe else ""
        S = "%s.%s().0" % (binder, start_fn["name"])
        Ln = "%s.%s()" % (binder, len_fn["name"])
        S_idx = "%s.%s()" % (binder, start_fn["name"])
        ends = ["ByteIndex(%s+%s)" % (S, Ln), "ByteIndex(%s+%s)" % (Ln, S)]
        wants = ["KikiErr::Parse(%s,%s[%s..%s].to_string(),%s)" % (S_idx, srcp, S, e_[len("ByteIndex("):-1], e_) for e_ in ends]
        wants += [w.replace(".to_string()", ".to_owned()") for w in wants]
        ok_shape = norm_owned_text(ftxt) in [norm_owned_text(w_) for w_ in wants]
        txt = ftxt
        # eof helper
        eof_ok = False
        if els.endswith("(%s)" % srcp):
            hn = els[:-len("(%s)" % srcp)]
            for (p, impl, fn) in syn.all_fns(path=cpath):
                if fn["name"] == hn and impl is None:
                    hp = fn["inputs"][0]["pat"]["name"]
                    ht = unparse(fn["body"]["stmts"][-1]["expr"]).replace(" ", "")
                    eof_ok = norm_owned_text(ht) == 'KikiErr::Parse(ByteIndex(%s.len()),"".to_string(),ByteIndex(%s.len()))' % (hp, hp)
        elif norm_owned_text(els) == 'KikiErr::Parse(ByteIndex(%s.len()),"".to_string(),ByteIndex(%s.len()))' % (srcp, srcp):
            eof_ok = True
        res.inst(rule, "conversion|eof", "%s:%d" % (cpath, cfn["line"]), True, "None => Parse(len, \"\", len): %s" % eof_ok)
        if not eof_ok:
            res.violate(rule, "conversion|eof", "%s:%d" % (cpath, cfn["line"]), "unexpected end of input must be reported as Parse(ByteIndex(src.len()), \"\", ByteIndex(src.len()))")
    res.inst(rule, "conversion|token", "%s:%d" % (cpath, cfn["line"]), True, "Some(t) => Parse(start, src[start..start+len], start+len): %s" % ok_shape)
    if not ok_shape:
        res.violate(rule, "conversion|token", "%s:%d" % (cpath, cfn["line"]), "the conversion must report (t.start(), src[start..start+t.content_len()].to_string(), start+len) — a byte slice of the same two values; found: %s" % txt[:300])


def check_tokenizer_payloads(tf, res, rule):
    """the payloads the tokenizer stores are the lexeme starts the span table assumes"""
    # Ident { name: <text>.to_string(), position: start }, TerminalIdent { name, dollarless_position: ByteIndex(start.0 + "$".len()) }
    fl = tf.flush
    ms = [m for m in nodes(fl["body"], "Match") if m["expr"]["k"] == "Field" and m["expr"]["member"] == tf.state_field]
    if len(ms) != 1:
        return
    n = 0
    for s_ in nodes(fl["body"], "Struct"):
        nm = s_["path"]["segs"][-1]
        if nm == "TerminalIdent":
            n += 1
        if nm == "Ident":
            n += 1
    res.inst(rule, "tokenizer-payloads", "%s:%d" % (tf.file, fl["line"]), True, "Ident/TerminalIdent payload constructions in the flush: %d (their index forms are compared with the reference table under C08 R-C08-table)" % n)


def check_wiring(ctx, res):
    rule = "R-C09-wiring"
    mir = Mir(ctx["facts"]["mir"])
    gens = [f for f in mir.fns.values() if f.pub and f.name == "generate" and f.kind == "Fn"]
    if len(gens) != 1:
        res.floor("anchor: pub fn generate", len(gens), 1)
        return
    g = gens[0]
    ex = Exprs(g)
    tok_call = parse_call = None
    for c in g.calls():
        if not c.local:
            continue
        f = mir.fns[c.rkey]
        if f.output and "Vec<" in f.output["s"] and "Token" in f.output["s"] and f.inputs and f.inputs[0]["s"] == "&str":
            tok_call = c
        if f.name == "parse" and f.output and "Option<" in f.output["s"]:
            parse_call = c
    if tok_call is None or parse_call is None:
        res.floor("anchor: tokenizer and parser calls in generate", 0, 1)
        return
    # parse argument = Ok payload of the tokenizer result (through `?`)
    a = ex.operand(parse_call.args[0])
    names = [x.a[0] for x in a.walk() if x.k == "call"]
    good = names.count(tok_call.rpath) == 1 and all(n in (tok_call.rpath, "<std::result::Result<T, E> as std::ops::Try>::branch") for n in names)
    res.inst(rule, "tokens-into-parse", parse_call.where, True, "parse argument: %r" % a)
    if not good:
        res.violate(rule, "tokens-into-parse", parse_call.where, "the parser does not receive the tokenizer's token vector unmodified (calls on the way: %s)" % names)
    # the conversion closure: called via map_err; find the closure fn that calls the conversion
    conv_calls = []
    for k in [k for k in mir.fns if mir.fns[k].root == g.key]:
        cf = mir.fns[k]
        for c in cf.calls():
            if c.local and mir.fns[c.rkey].output and mir.fns[c.rkey].output["s"].endswith("KikiErr") and len(c.args) == 2:
                conv_calls.append((cf, c))
    direct = []
    if not conv_calls:
        # hand-written form: `match parse(tokens) { Err(u) => return Err(conv(u.as_ref(), src)), .. }` in generate itself
        for c in g.calls():
            if c.local and mir.fns[c.rkey].output and mir.fns[c.rkey].output["s"].endswith("KikiErr") and len(c.args) == 2:
                direct.append(c)
    if len(conv_calls) != 1 and len(direct) != 1:
        res.floor("anchor: parse-error conversion called from generate or a closure of generate", len(conv_calls) + len(direct), 1)
        return
    if direct:
        check_direct_conversion(mir, res, rule, g, ex, tok_call, parse_call, direct[0])
        return
    cf, cc = conv_calls[0]
    cex = Exprs(cf)
    tok_arg = cex.operand(cc.args[0])
    src_arg = cex.operand(cc.args[1])
    # token argument: Option::as_ref(&closure param 2)
    t = tok_arg
    okt = t.k == "call" and t.a[0] == "std::option::Option::<T>::as_ref" and strip_transparent(t.a[1][0]).k == "param" and strip_transparent(t.a[1][0]).a[0] == 2
    # src argument: captured upvar of the closure env (param 1), which generate fills with its own src
    s_ = strip_transparent(src_arg)
    oks = s_.k == "field" and strip_transparent(s_.a[0]).k == "param" and strip_transparent(s_.a[0]).a[0] == 1
    res.inst(rule, "conversion-args", cc.where, True, "token: %r ; src: %r" % (tok_arg, src_arg))
    if not okt:
        res.violate(rule, "conversion-token-arg", cc.where, "the conversion does not receive the parser's unexpected token as is (by reference): %r" % tok_arg)
    if not oks:
        res.violate(rule, "conversion-src-arg", cc.where, "the conversion does not receive the captured source text: %r" % src_arg)
    # the captured value is generate's src parameter
    cap_ok = False
    for b in g.blocks:
        for st in b["stmts"]:
            if st["k"] == "assign" and st["rv"]["k"] == "agg" and st["rv"].get("ak") == "closure" and st["rv"]["closure"] == cf.key:
                ops = [ex.operand(o) for o in st["rv"]["ops"]]
                cap_ok = len(ops) == 1 and strip_transparent(ops[0]).k == "param" and strip_transparent(ops[0]).a[0] == 1
                res.inst(rule, "closure-capture", g.where, True, "captures %r" % ops)
    if not cap_ok:
        res.violate(rule, "closure-capture", g.where, "the error-conversion closure does not capture generate's own `src` parameter (and only it)")
    check_stage_guards(mir, res, rule, g, ex, tok_call, parse_call, [])


def check_direct_conversion(mir, res, rule, g, ex, tok_call, parse_call, cc):
    """the conversion is called in generate itself on the parser's Err payload and its result is returned as Err"""
    tok_arg = ex.operand(cc.args[0])
    src_arg = ex.operand(cc.args[1])
    t = tok_arg
    okt = t.k == "call" and t.a[0] == "std::option::Option::<T>::as_ref"
    if okt:
        cur = strip_transparent(t.a[1][0])
        while cur.k in ("field", "downcast", "ref", "deref"):
            cur = strip_transparent(cur.a[0])
        okt = cur.k == "call" and cur.site is not None and cur.site.bb == parse_call.bb and "Err" in canon(strip_transparent(t.a[1][0]))
    s_ = strip_transparent(src_arg)
    oks = s_.k == "param" and s_.a[0] == 1
    res.inst(rule, "conversion-args", cc.where, True, "token: %r ; src: %r" % (tok_arg, src_arg))
    if not okt:
        res.violate(rule, "conversion-token-arg", cc.where, "the conversion does not receive the parser's unexpected token as is (by reference): %r" % tok_arg)
    if not oks:
        res.violate(rule, "conversion-src-arg", cc.where, "the conversion does not receive generate's own source text: %r" % src_arg)
    # its result is what generate returns as Err
    ret = strip_transparent(ex.local(0))
    outs = ret.a[0] if ret.k == "phi" else [ret]
    returned = False
    for o in outs:
        o = strip_transparent(o)
        if o.k == "agg" and str(o.a[1]).endswith("::Err") and o.a[2]:
            pv = strip_transparent(o.a[2][0])
            if pv.k == "call" and pv.site is not None and pv.site.bb == cc.bb:
                returned = True
    res.inst(rule, "conversion-returned", cc.where, True, "returned as Err: %s" % returned)
    if not returned:
        res.violate(rule, "conversion-returned", cc.where, "the converted parse error is not what generate returns as its Err")
    check_stage_guards(mir, res, rule, g, ex, tok_call, parse_call, [cc])


def check_stage_guards(mir, res, rule, g, ex, tok_call, parse_call, extra):
    # the same src goes to the tokenizer
    ta = ex.operand(tok_call.args[0])
    while ta.k in ("ref", "deref"):
        ta = ta.a[0]
    if not (ta.k == "param" and ta.a[0] == 1):
        res.violate(rule, "tokenizer-src", tok_call.where, "the tokenizer and the error conversion do not see the same text: tokenizer gets %r" % ta)
    # no exit between the stages other than their own `?`: every stage call in generate is control-dependent
    # only on Try::branch switches, and generate builds no error of its own
    from ..mir import control_deps_transitive
    cdt = control_deps_transitive(g)
    for c in [tok_call, parse_call] + list(extra):
        for (a, s_) in cdt.get(c.bb, ()):
            t_ = g.blocks[a]["term"]
            if t_["k"] == "switch":
                de = ex.operand(t_["discr"])
                ce = canon(de)
                inner = strip_transparent(de.a[0]) if de.k == "discr" and de.a else None
                own = inner is not None and inner.k == "call" and inner.site is not None and inner.site.bb in (tok_call.bb, parse_call.bb)
                if not (ce.startswith("discr(Try@Result::branch(") or own):
                    res.violate(rule, "stage-guard|%s" % c.rpath.rsplit("::", 1)[-1], c.where, "in generate the call of `%s` is guarded by `%s`: a file can leave the front end by another exit than the tokenizer's / parser's own error (its syntax error is then not reported exactly)" % (c.rpath, ce[:120]))
    gdom = g.dominators()
    for bi, b in enumerate(g.blocks):
        if b["cleanup"] or bi not in gdom or parse_call.bb in gdom[bi]:
            continue  # after the parser has been called its own `?` has already reported a syntax error
        for s_ in b["stmts"]:
            if s_["k"] == "assign" and s_["rv"]["k"] == "agg" and s_["rv"].get("adt", "").endswith("::KikiErr"):
                from ..mir import parse_at
                f_, l_ = parse_at(s_["span"]["at"])
                res.violate(rule, "error-built-in-generate|%s" % s_["rv"]["variant"], "%s:%d" % (f_, l_), "generate itself constructs KikiErr::%s before the parser has run: a syntax error is then not what is reported" % s_["rv"]["variant"])
    res.inst(rule, "stage-guards", g.where, True, "tokenizer and parser calls guarded by `?` only; no error built before the parser call")
    # map_err receives parse's result directly
    for c in g.calls():
        if c.rpath == "std::result::Result::<T, E>::map_err":
            r = ex.operand(c.args[0])
            if not (r.k == "call" and r.site is not None and r.site.bb == parse_call.bb):
                res.violate(rule, "map_err-receiver", c.where, "map_err is not applied to the parser's result directly: %r" % r)
            res.inst(rule, "map_err-receiver", c.where, True, "%r" % r)
