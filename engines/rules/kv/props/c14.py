"""C14 — generate is deterministic (sound sufficient condition).

The only nondeterminism available to safe Rust without the APIs excluded by R-C14-pure is the
iteration order of std hash collections.  Iteration is visible in the *types*: every value whose
type mentions a std hash iterator (hash_map::{Iter,IntoIter,Keys,..}, hash_set::{..}) carries hash
order; so does every adaptor stacked on it (the adaptor type still mentions it).  A call that takes
such a value and returns a type that no longer mentions one is a *consumer* and is classified.
"""
from ..mir import Mir, Call, borrow_root, natural_loops, reach_from, place_str, parse_at
from ..report import Result, finish

HASH_ITER_PREFIX = ("std::collections::hash_map::", "std::collections::hash_set::")
HASH_ITER_EXCLUDE = ("RandomState", "DefaultHasher", "Entry", "OccupiedEntry", "VacantEntry", "OccupiedError")
HASH_COLL = ("std::collections::HashMap", "std::collections::HashSet")

ORDER_NORMALISING_TARGETS = ("std::collections::BTreeSet", "std::collections::BTreeMap", "std::collections::HashSet", "std::collections::HashMap")
ORDER_INSENSITIVE_FOLDS = ("count", "any", "all", "min", "max", "sum", "len", "is_empty", "size_hint")
KEYED_METHODS = ("new", "with_capacity", "default", "insert", "get", "get_mut", "get_key_value", "contains", "contains_key", "remove", "remove_entry", "take",
                 "entry", "len", "is_empty", "clone", "clear", "reserve", "shrink_to_fit", "eq", "ne", "extend", "from_iter", "from", "is_subset",
                 "is_superset", "is_disjoint", "capacity", "replace", "get_or_insert_with", "try_insert", "hasher", "with_hasher", "drop", "index", "clone_from")

IMPURE_PREFIXES = ("std::time::", "std::env::", "std::fs::", "std::net::", "std::process::", "std::thread::", "std::sync::", "std::io::",
                   "std::hash::RandomState", "std::collections::hash_map::RandomState", "std::collections::hash_map::DefaultHasher",
                   "std::hash::DefaultHasher", "std::ptr::", "std::mem::transmute", "std::alloc::", "std::os::", "std::ffi::", "std::path::",
                   "std::cell::", "std::rc::", "std::intrinsics::", "std::arch::", "std::panic::catch_unwind", "std::backtrace::", "std::any::",
                   "std::sys::", "core::fmt::rt::Argument::<'_>::new_pointer")


def hash_iter_adts(ty):
    return [a for a in ty["adts"] if a.startswith(HASH_ITER_PREFIX) and a.rsplit("::", 1)[-1] not in HASH_ITER_EXCLUDE]


def mentions_hash_iter(ty):
    return bool(hash_iter_adts(ty))


def mentions_hash_coll(ty):
    return any(a in HASH_COLL for a in ty["adts"])


def generate_roots(mir):
    roots = [f.key for f in mir.fns.values() if f.pub and f.name in ("generate",) and f.kind == "Fn"]
    return roots


def adt_closure(mir, adts):
    seen = set()
    st = list(adts)
    while st:
        a = st.pop()
        if a in seen:
            continue
        seen.add(a)
        d = mir.adts.get(a)
        if d:
            for v in d["variants"]:
                for f in v["fields"]:
                    st.extend(f["ty"]["adts"])
    return seen


def operand_ty(fn, op):
    if op["k"] in ("copy", "move") and not op["pl"]["p"]:
        return fn.local_ty(op["pl"]["l"])
    return None


def arg_hash_ty(fn, op):
    """type of the operand, following one level of &mut/& temp to the borrowed local"""
    t = operand_ty(fn, op)
    if t is not None and mentions_hash_iter(t):
        return t
    return None


def keyed_store_fn(mir, f, res):
    """a local function whose only effect is one indexed store `self.field[index_fn(&self, keys)] = value`"""
    if f is None:
        return False, "not a local function"
    if natural_loops(f):
        return False, "has a loop"
    calls = f.calls()
    idx_calls = [c for c in calls if c.rpath in ("<std::vec::Vec<T, A> as std::ops::IndexMut<I>>::index_mut",)]
    local_calls = [c for c in calls if c.local]
    other = [c for c in calls if c not in idx_calls and c not in local_calls]
    if len(idx_calls) != 1:
        return False, "expected exactly one Vec IndexMut store, found %d" % len(idx_calls)
    if other:
        return False, "other calls: %s" % [c.rpath for c in other]
    for c in local_calls:
        g = mir.fns.get(c.rkey)
        if g is None or any(i.get("mut_ref") for i in g.inputs):
            return False, "index function %s takes mutable access" % c.rpath
        if not (g.output and g.output["s"] == "usize"):
            return False, "helper %s does not return an index" % c.rpath
    ic = idx_calls[0]
    # the index operand must be the result of the local index function
    idx = ic.args[1]
    ok_idx = False
    if idx["k"] in ("copy", "move") and not idx["pl"]["p"]:
        l = idx["pl"]["l"]
        for _ in range(4):
            ds = f.defs(l)
            if len(ds) == 1 and ds[0][0] == "call" and f.call_at(ds[0][1]).local:
                ok_idx = True
                break
            if len(ds) == 1 and ds[0][0] == "assign" and ds[0][3]["rv"]["k"] == "use" and ds[0][3]["rv"]["op"]["k"] in ("copy", "move") and not ds[0][3]["rv"]["op"]["pl"]["p"]:
                l = ds[0][3]["rv"]["op"]["pl"]["l"]
                continue
            break
    if not ok_idx:
        return False, "store index is not the result of a local index function"
    # the store: (*dest) = use(param)
    dl = ic.dest["l"]
    stores = []
    for b in f.blocks:
        if b["cleanup"]:
            continue
        for st in b["stmts"]:
            if st["k"] == "assign" and st["pl"]["p"]:
                stores.append(st)
    if len(stores) != 1:
        return False, "expected one store through a projection, found %d" % len(stores)
    st = stores[0]
    if not (st["pl"]["l"] == dl and st["pl"]["p"] == ["deref"]):
        return False, "store does not go through the IndexMut result"
    rv = st["rv"]
    from ..mir import Exprs, strip_transparent
    val = strip_transparent(Exprs(f).rvalue(rv, 0, ()))
    if val.k != "param":
        return False, "stored value is not a parameter (%r)" % val
    return True, "one store of a parameter at an index computed by %s" % local_calls[0].rpath if local_calls else "?"


def check_for_loop(mir, fn, c, res, rule):
    """`next` on a hash iterator: the loop may only perform keyed stores and must run to exhaustion"""
    key = "%s|for-over|%s" % (fn.path, hash_iter_adts(operand_ty(fn, c.args[0]) or {"adts": []}) or "hash-iter")
    loops = [(h, body) for (h, body) in natural_loops(fn) if c.bb in body]
    if not loops:
        res.violate(rule, key + "|next-outside-loop", c.where, "a single `next()` on a hash-ordered iterator picks an arbitrary element")
        return
    h, body = min(loops, key=lambda x: len(x[1]))
    # exits
    sw_bb = c.target
    bad = []
    for b in body:
        t = fn.blocks[b]["term"]
        if t["k"] in ("return", "unreachable") and b != sw_bb:
            if t["k"] == "return":
                bad.append("return inside the loop at bb%d" % b)
        for s_ in fn.succs(b):
            if s_ not in body and b != sw_bb:
                bad.append("loop exit from bb%d (early exit: break/return/?)" % b)
    # calls
    for b in body:
        t = fn.blocks[b]["term"]
        if t["k"] != "call" or b == c.bb:
            continue
        cc = Call(fn, b, t)
        if cc.local:
            ok, why = keyed_store_fn(mir, mir.fns.get(cc.rkey), res)
            res.inst(rule, "keyed-store|" + str(cc.rpath), cc.where, True, why)
            if not ok:
                bad.append("call of %s in the loop body is not a keyed store (%s)" % (cc.rpath, why))
        else:
            bad.append("call of %s in the body of a loop over a hash collection" % cc.rpath)
    # locals written in the loop and read after it
    written = set()
    for b in body:
        for st in fn.blocks[b]["stmts"]:
            if st["k"] == "assign":
                rv = st["rv"]
                if rv["k"] == "use" and rv["op"]["k"] == "const":
                    continue
                written.add(st["pl"]["l"])
        t = fn.blocks[b]["term"]
        if t["k"] == "call":
            written.add(t["dest"]["l"])
    after = reach_from(fn, list(body)) - body
    read_after = set()
    for b in after:
        for st in fn.blocks[b]["stmts"]:
            if st["k"] == "assign":
                read_after |= locals_read_rv(st["rv"])
        t = fn.blocks[b]["term"]
        if t["k"] == "call":
            for a in t["args"]:
                if a["k"] in ("copy", "move"):
                    read_after.add(a["pl"]["l"])
        elif t["k"] == "switch" and t["discr"]["k"] in ("copy", "move"):
            read_after.add(t["discr"]["pl"]["l"])
    leak = {l for l in (written & read_after) if fn.local_ty(l)["s"] not in ("()",)}
    # the iterator itself (dropped after the loop) and the collection being filled through &mut are fine
    it_root, _ = borrow_root(fn, c.args[0])
    if it_root is not None:
        leak.discard(it_root["l"])
    if leak:
        bad.append("locals assigned in the loop and read after it: %s" % sorted(fn.local_name(l) or "_%d" % l for l in leak))
    res.inst(rule, key, c.where, True, "loop of %d blocks; exits only at exhaustion=%s" % (len(body), not bad))
    for m in bad:
        res.violate(rule, key + "|" + m.split(" at bb")[0].split(" from bb")[0].split(": [")[0], c.where, "loop over a hash collection is order-dependent: " + m)


def locals_read_rv(rv):
    out = set()
    for fld in ("op", "a", "b"):
        if fld in rv and isinstance(rv[fld], dict) and rv[fld]["k"] in ("copy", "move"):
            out.add(rv[fld]["pl"]["l"])
    if "pl" in rv:
        out.add(rv["pl"]["l"])
    for o in rv.get("ops", []):
        if o["k"] in ("copy", "move"):
            out.add(o["pl"]["l"])
    return out


def closure_captures_mut(mir, op_or_ty):
    """does the closure type capture something by unique borrow?"""
    for ck in op_or_ty.get("closures", []):
        f = mir.fns.get(ck)
        if f is None:
            return True
        # local 1 is the closure environment: &mut closure  => FnMut
        env = f.locals[1]["ty"]
        if env.get("mut_ref"):
            return True
    return False


def run_rules(mir, res, reach):
    R_ITER, R_TYPES, R_PURE = "R-C14-iter", "R-C14-types", "R-C14-pure"
    res.rule(R_ITER, "every call that takes a value whose type mentions a std hash iterator and returns a type that no longer does is a consumer; it must be collect/from_iter/extend into an order-normalising or unordered target (the crate's ordered set, BTree*, Hash*), an order-insensitive fold, or `next` in a loop that runs to exhaustion and only performs keyed stores; adaptor closures must not capture by unique borrow; direct order-exposing methods of the collections (retain, Debug) are classified the same way", optional=True)
    res.rule(R_TYPES, "no std hash collection in the field closure of the public result types (RustSrc, KikiErr incl. the boxed conflict error), and no Debug/Display formatting of a type whose closure contains one is reachable")
    res.rule(R_PURE, "no reachable call into std::{time,env,fs,net,process,thread,sync,io,ptr,cell,rc,...}, RandomState/DefaultHasher, fmt::Pointer; no pointer-to-integer cast; no mutable or interior-mutable static; no thread-local; no unsafe fn or unsafe call outside std macro expansions")

    # which local ADT is the ordered set (its from_iter/extend sort: C18)
    from .c18 import find_set_adt, check_bulk
    set_adt = find_set_adt(mir)
    set_path = set_adt["path"] if set_adt else None
    normalising = list(ORDER_NORMALISING_TARGETS)
    if set_path:
        # import C18's verdict on the bulk constructors (a throw-away Result collects its violations)
        tmp = Result("C18", res.tier, "proof")
        okb = True
        nb = 0
        for f in mir.fns.values():
            if f.impl and f.impl["self_ty"]["head"] == set_path and f.impl.get("trait") in ("std::iter::FromIterator", "std::iter::Extend") and f.kind == "AssocFn":
                nb += 1
                okb = check_bulk(f, set_path, tmp) and okb
        if okb and nb >= 1 and not tmp.violations:
            normalising.append(set_path)
            res.inst(R_ITER, "ordered-set-normalises", "", True, "C18 R-C18-bulk holds for %d bulk constructors of %s" % (nb, set_path))
        else:
            res.notes.append("the crate's ordered set is NOT accepted as order-normalising on this run (C18 R-C18-bulk failed)")

    n_sites = 0
    n_hash_locals = 0
    for k in sorted(reach):
        fn = mir.fns[k]
        if any(mentions_hash_iter(l["ty"]) for l in fn.locals):
            n_hash_locals += 1
        # closures handed to adaptors over hash iterators must be side-effect free (no unique capture)
        for c in fn.calls():
            hash_args = [a for a in c.args if arg_hash_ty(fn, a) is not None]
            # receiver may be `&mut iter`
            recv_hash = None
            if c.args and c.args[0]["k"] in ("copy", "move"):
                root, via = borrow_root(fn, c.args[0])
                if root is not None and not root["p"] and mentions_hash_iter(fn.local_ty(root["l"])):
                    recv_hash = fn.local_ty(root["l"])
            direct_coll = None
            if c.callee is not None:
                p = c.rpath or ""
                st = c.callee.get("self_ty")
                impl_self = (c.resolved or {}).get("impl_self", "") or c.callee.get("impl_self", "") or ""
                if any(h in p for h in HASH_COLL) or any(h in impl_self for h in HASH_COLL):
                    direct_coll = p
            if not hash_args and recv_hash is None and direct_coll is None:
                continue
            name = (c.rpath or "<indirect>").rsplit("::", 1)[-1]
            dest_ty = fn.local_ty(c.dest["l"]) if not c.dest["p"] else {"adts": [], "s": "?"}
            key = "%s|%s" % (fn.path, c.rpath)
            if direct_coll is not None and not hash_args and recv_hash is None:
                # method of HashMap/HashSet itself
                if mentions_hash_iter(dest_ty):
                    n_sites += 1
                    res.inst(R_ITER, "source|" + key, c.where, True, "creates a hash-ordered iterator: " + dest_ty["s"][:120])
                    continue
                if name in KEYED_METHODS:
                    continue
                if name == "fmt":
                    res.violate(R_ITER, key + "|fmt", c.where, "formatting a hash collection exposes its iteration order")
                    continue
                if name == "retain":
                    if any(closure_captures_mut(mir, fn.local_ty(a["pl"]["l"])) for a in c.args[1:] if a["k"] in ("copy", "move") and not a["pl"]["p"]):
                        res.violate(R_ITER, key + "|retain-mut-closure", c.where, "retain with a closure that captures by unique borrow observes hash order")
                    continue
                res.violate(R_ITER, key + "|unclassified-collection-method", c.where, "unclassified method `%s` on a std hash collection (may expose iteration order)" % name)
                continue
            n_sites += 1
            if mentions_hash_iter(dest_ty):
                # adaptor: order is still visible in the type; closure arguments must not have effects
                for a in c.args[1:]:
                    t = operand_ty(fn, a)
                    if t is not None and closure_captures_mut(mir, t):
                        res.violate(R_ITER, key + "|adaptor-closure-mut", c.where, "closure passed to `%s` over a hash-ordered iterator captures by unique borrow: its effects happen in hash order" % name)
                res.inst(R_ITER, "adaptor|" + key, c.where, False, "type still carries the hash iterator")
                continue
            if c.local:
                res.violate(R_ITER, key + "|into-local-fn", c.where, "hash-ordered iterator passed to local function %s (generic body hides the order): unanalysable" % c.rpath, {"reason": "unanalysable"})
                continue
            if name in ("collect", "from_iter", "extend"):
                target = None
                if name == "collect":
                    target = c.callee["args"][1] if len(c.callee["args"]) > 1 else dest_ty["s"]
                elif name == "from_iter":
                    target = c.callee["args"][0]
                else:
                    t0 = None
                    root, _ = borrow_root(fn, c.args[0])
                    if root is not None:
                        t0 = fn.local_ty(root["l"])["s"] if not root["p"] else root["p"][-1].get("ty") if isinstance(root["p"][-1], dict) else None
                    target = t0 or "?"
                tgt_head = target.split("<", 1)[0].lstrip("&").replace("mut ", "").strip()
                ok = tgt_head in normalising
                res.inst(R_ITER, "consumer|" + key, c.where, True, "%s into %s" % (name, target[:100]))
                if not ok:
                    res.violate(R_ITER, key + "|collect-into|" + tgt_head, c.where, "hash-ordered iterator is collected into `%s`, which keeps the (seed-dependent) order" % target[:160])
                continue
            if name in ORDER_INSENSITIVE_FOLDS:
                res.inst(R_ITER, "fold|" + key, c.where, True, name)
                continue
            if name == "next":
                check_for_loop(mir, fn, c, res, R_ITER)
                continue
            if name in ("drop", "drop_in_place", "clone"):
                continue
            res.violate(R_ITER, key + "|order-dependent-consumer", c.where, "`%s` consumes a hash-ordered iterator in an order-dependent way" % name)
        # assignments that erase the type (unsize to dyn Iterator etc.)
        for b in fn.blocks:
            if b["cleanup"]:
                continue
            for st in b["stmts"]:
                if st["k"] == "assign" and st["rv"]["k"] == "cast" and st["rv"]["op"]["k"] in ("copy", "move"):
                    srct = operand_ty(fn, st["rv"]["op"])
                    if srct is not None and mentions_hash_iter(srct) and not st["pl"]["p"] and not mentions_hash_iter(fn.local_ty(st["pl"]["l"])):
                        f_, l_ = parse_at(st["span"]["at"])
                        res.violate(R_ITER, "%s|type-erasing-cast" % fn.path, "%s:%d" % (f_, l_), "hash-ordered iterator is cast to a type that hides it: unanalysable", {"reason": "unanalysable"})
        # return of hash iterator from a function as opaque type
        if fn.output is not None and mentions_hash_iter(fn.locals[0]["ty"]) and not mentions_hash_iter(fn.output):
            res.violate(R_ITER, "%s|opaque-return" % fn.path, fn.where, "function returns a hash-ordered iterator behind an opaque type: unanalysable", {"reason": "unanalysable"})
    res.count("functions reachable from generate (incl. all trait impls)", len(reach))
    res.count("hash-order sites classified", n_sites)
    res.count("functions with hash-iterator typed locals", n_hash_locals)
    # no floor: fewer hash-ordered iterations is more deterministic, not less analysed; that the rule engages at all
    # is shown on every run by the known-bad control crate (controls/c14_control)

    # ---- R-C14-types
    roots = [p for p in mir.adts if p.rsplit("::", 1)[-1] in ("RustSrc", "KikiErr", "TableConflictErr")]
    res.floor("result types found (RustSrc, KikiErr, TableConflictErr)", len(roots), 3)
    clo = adt_closure(mir, roots)
    res.inst(R_TYPES, "result-type-closure", "", True, "%d ADTs reachable through fields of %s" % (len(clo), roots))
    for a in sorted(clo):
        if a in HASH_COLL or a.startswith(HASH_ITER_PREFIX):
            res.violate(R_TYPES, "result-closure|" + a, "", "std hash collection `%s` is reachable through the fields of the public result types: its order leaks into the value / its Debug rendering" % a)
    for k in sorted(reach):
        fn = mir.fns[k]
        for c in fn.calls():
            if c.rpath in ("core::fmt::rt::Argument::<'_>::new_debug", "core::fmt::rt::Argument::<'_>::new_display") and c.callee.get("self_ty"):
                t = c.callee["self_ty"]
                cl = adt_closure(mir, t["adts"])
                res.inst(R_TYPES, "fmt|%s|%s" % (fn.path, t["s"][:60]), c.where, False, "formatted type closure has %d ADTs" % len(cl))
                if any(a in HASH_COLL or a.startswith(HASH_ITER_PREFIX) for a in cl):
                    res.violate(R_TYPES, "fmt-hash|%s|%s" % (fn.path, t["s"][:80]), c.where, "formatting a value whose type closure contains a std hash collection exposes hash order")

    # ---- R-C14-pure
    n_calls = 0
    for k in sorted(reach):
        fn = mir.fns[k]
        if fn.j.get("unsafe"):
            res.violate(R_PURE, "unsafe-fn|" + fn.path, fn.where, "unsafe fn reachable from generate")
        for c in fn.calls():
            n_calls += 1
            p = c.rpath or ""
            ext_macro = c.exp and not c.term["span"].get("def_site_local", True)
            if p.startswith(IMPURE_PREFIXES) or (c.path or "").startswith(IMPURE_PREFIXES):
                res.violate(R_PURE, "impure|%s|%s" % (fn.path, p), c.where, "call into an impure / environment-dependent API: " + p)
            if c.callee and c.callee.get("unsafe") and not ext_macro:
                res.violate(R_PURE, "unsafe-call|%s|%s" % (fn.path, p), c.where, "call of an unsafe function in reachable local code: " + p)
        for b in fn.blocks:
            if b["cleanup"]:
                continue
            for st in b["stmts"]:
                if st["k"] != "assign":
                    continue
                rv = st["rv"]
                f_, l_ = parse_at(st["span"]["at"])
                w = "%s:%d" % (f_, l_)
                ext_macro = st["span"]["exp"] and not st["span"].get("def_site_local", True)
                if rv["k"] == "cast" and "PointerExposeProvenance" in rv["ck"]:
                    res.violate(R_PURE, "ptr2int|" + fn.path, w, "pointer is exposed as an integer (address-dependent value)")
                if rv["k"] == "other" and "ThreadLocalRef" in rv.get("dbg", ""):
                    res.violate(R_PURE, "thread-local|" + fn.path, w, "thread-local state reachable from generate")
                if rv["k"] == "rawptr" and not ext_macro:
                    res.violate(R_PURE, "rawptr|" + fn.path, w, "raw pointer taken in reachable local code")
    res.inst(R_PURE, "calls-scanned", "", True, "%d call sites in %d reachable bodies" % (n_calls, len(reach)))
    res.count("call sites scanned", n_calls)
    for s_ in mir.statics:
        f_, l_ = parse_at(s_["span"]["at"])
        bad_ty = [a for a in s_.get("ty", {}).get("adts", []) if a.startswith(("std::cell::", "std::sync::", "std::thread::")) or "Atomic" in a or "Lazy" in a or "Once" in a]
        res.inst(R_PURE, "static|" + s_["key"], "%s:%d" % (f_, l_), True, "mut=%s" % s_["mut"])
        if s_["mut"] or bad_ty:
            res.violate(R_PURE, "static-state|" + s_["key"], "%s:%d" % (f_, l_), "mutable or interior-mutable static: state carried between calls (%s)" % (bad_ty or "static mut"))
    for sk in mir.j["skipped_bodies"]:
        pass
    res.floor("call sites scanned in reachable bodies", n_calls, 500)


def check(ctx):
    # this analysis is about hash order: ordered and hash collections must stay distinguishable here
    from .. import mir as _m
    old_flag = _m.NORMALISE_ORDERED_COLLECTIONS
    _m.NORMALISE_ORDERED_COLLECTIONS = False
    try:
        return _check(ctx)
    finally:
        _m.NORMALISE_ORDERED_COLLECTIONS = old_flag


def _check(ctx):
    res = Result("C14", ctx["tier"], "proof", ctx["seed"])
    mir = Mir(ctx["facts"]["mir"])
    roots = generate_roots(mir)
    res.floor("anchor: pub fn generate", len(roots), 1)
    reach = mir.reachable_from(roots, include_trait_impls=True)
    run_rules(mir, res, reach)
    viol_rules = {v.rule for v in res.violations}
    for r in ("R-C14-iter", "R-C14-types", "R-C14-pure"):
        res.oblige(r, r not in viol_rules and "floor" not in viol_rules)
    positive_control(ctx, res)
    if ctx["tier"] == "thorough":
        # second configuration: release shape of the build-script dependency
        facts2 = ctx["extract_facts"](ctx["repo"], ctx["scratch"], release_shape=True)
        mir2 = Mir(facts2["mir"])
        r2 = Result("C14", ctx["tier"], "proof")
        roots2 = generate_roots(mir2)
        run_rules(mir2, r2, mir2.reachable_from(roots2, include_trait_impls=True))
        for v in r2.violations:
            res.violations.append(v)
        res.inst("config", "release-shape", "", True, "rules re-evaluated on MIR built with -C overflow-checks=off -C debug-assertions=off: %d violations" % len(r2.violations))
        res.oblige("all rules hold in the release shape too", not r2.violations)
    return finish(
        res,
        "Sound sufficient condition for determinism decided on MIR: hash iteration order is tracked through types (every value whose type mentions a std hash iterator), each consumer of such a value is classified as order-insensitive or reported; the public result types contain no hash collection; no impure API, address exposure, static state or unsafe code is reachable from generate (reachability over the Instance-resolved call graph, with every local trait impl assumed callable).",
        checker_cmd="./check C14 --tier " + ctx["tier"],
        trusted_base=["rustc nightly MIR + Instance resolution", "std: hash collections are the only seed-dependent safe API besides those excluded by R-C14-pure",
                      "sha256::digest is a pure function", "closures passed to any/all/map are effect-free unless they capture by unique borrow (checked for hash-ordered adaptors)",
                      "index injectivity of the keyed-store functions (distinct keys hit distinct cells)", "C18 (the ordered set's constructors sort)"],
    )


def positive_control(ctx, res):
    """tiny known-bad crate that the zero-expected rules must flag on every run"""
    p = ctx["control_facts"]("c14_control")
    mir = Mir(p)
    r = Result("C14", "quick", "proof")
    roots = [f.key for f in mir.fns.values() if f.name == "generate"]
    run_rules_control(mir, r, mir.reachable_from(roots))
    fired = {v.rule for v in r.violations}
    want = {"R-C14-iter", "R-C14-types", "R-C14-pure"}
    res.inst("control", "known-bad crate", "controls/c14_control", True, "rules fired on the control: %s" % sorted(fired & want))
    if not want <= fired:
        res.violate("control", "positive-control", "controls/c14_control", "positive control not detected by %s: the checker is broken" % sorted(want - fired))


def run_rules_control(mir, r, reach):
    try:
        run_rules(mir, r, reach)
    except Exception as e:  # the control crate is tiny; floors will fail, that is fine
        r.notes.append("control: %r" % e)
