"""C17 (clauses) — structural necessary conditions of the LALR(1) construction.

NOT decided: that the emitted tables are exactly the LALR(1) tables for every grammar (a least
fixpoint property over all grammars).  Decided: named shape-of-code conditions each of which is
necessary for that exactness — breaking one makes the construction wrong on some grammar:

  N1 core equality (the test that decides state merging) is mutual inclusion, with the inclusion
     test called in both argument orders and comparing exactly rule index and dot (not look-ahead);
  N2 the FIRST fixpoint runs until a pass reports no change, ORs the flags of all rules, and the
     change flag covers every component of a FIRST set that the accumulation step mutates;
  N3 a merged state is re-enqueued exactly when items were added (the flag is true iff an insert
     happened); new states are always enqueued; the main loop runs until the worklist is empty;
  N4 the closure worklist skips only items already present, and the look-ahead of implied items is
     FIRST(beta) extended by the item's own look-ahead exactly when beta is nullable;
  N5 a transition is recorded for every symbol right of a dot, from the expanded state to the
     state returned by the merge-or-enqueue step, under that very symbol;
  N6 (added after the second round of seeded changes) FIRST of a symbol sequence starts nullable and
     every early exit of its loop clears the epsilon flag.
"""
import re

from ..mir import parse_at, Mir, Exprs, E, canon, strip_transparent, Call, natural_loops, control_deps_transitive, short_path, inline_helpers, closure_loop_context, lift_closure_canon
from ..report import Result, finish


def fns_in(mir, part):
    return [f for f in mir.fns.values() if part in f.file and not f.derived]


def fields_read(e, owner_suffix):
    """names of fields of the ADT `owner_suffix` read at the top of the access paths in expression e"""
    out = set()

    def go(x, depth=0):
        if depth > 40:
            return
        if x.k == "field" and x.a[2] and str(x.a[2]).endswith(owner_suffix):
            out.add(x.a[1])
            return
        if x.k in ("phi", "partial", "cycle", "param", "const"):
            if x.k == "phi":
                for y in x.a[0]:
                    go(y, depth + 1)
            return
        for y in x.a:
            if hasattr(y, "k"):
                go(y, depth + 1)
            elif isinstance(y, (list, tuple)):
                for z in y:
                    if hasattr(z, "k"):
                        go(z, depth + 1)

    go(e)
    return out


def field_names_of(pl, base_local):
    return [e["name"] for e in pl["p"] if isinstance(e, dict) and "f" in e and "name" in e] if pl["l"] == base_local else []


def run_rules(ctx, res):
    N1, N2, N3, N4, N5 = "R-C17-coreq", "R-C17-firstflag", "R-C17-reenqueue", "R-C17-closure", "R-C17-transitions"
    N6 = "R-C17-firstseq"
    N7 = "R-C17-firstterms"
    res.rule(N7, "inside every FIRST-of-sequence loop, the FIRST terminals of a visited nonterminal are added to the accumulator before the test of that nonterminal's nullability, or else on every path after it (they are taken in whether or not it is nullable)")
    res.rule(N6, "every loop that computes FIRST of a symbol sequence starts with the epsilon flag true and clears it on every early exit (terminal reached / non-nullable nonterminal reached); only exhaustion leaves it set")
    res.rule(N1, "the function that decides merging is `subset(a, b) && subset(b, a)` (both argument orders) and the inclusion test compares exactly the rule index and the dot of items")
    res.rule(N2, "the FIRST fixpoint loop exits only when a whole pass reports no change; the pass ORs the flag of every rule without early exit; the accumulation step's flag compares every field of the accumulator it writes")
    res.rule(N3, "merge re-enqueues the state iff the items-added flag is set (no other condition); that flag becomes true exactly where an item is inserted; new states are pushed and enqueued unconditionally")
    res.rule(N4, "closure: `continue` only under contains(item); implied look-aheads = FIRST(symbols after the advanced dot), plus the item's own look-ahead iff that FIRST set contains epsilon")
    res.rule(N5, "for each symbol right of a dot in the expanded state (unfiltered) a Transition { from: that state, to: result of merge-or-enqueue of closure(advance), symbol } is inserted")
    mir = Mir(ctx["facts"]["mir"])
    # the construction stage = everything reachable from the function (validated file) -> automaton, wherever it lives
    # (a helper moved into the data layer or another file is still part of it); the directory is only the fallback
    from ..roles import roles_of
    R = roles_of(mir)
    stage = R.stage_fns("stage_machine") or fns_in(mir, "/validated_ast_to_machine/")
    stage = sorted(stage, key=lambda f_: f_.key)
    res.floor("functions of the automaton construction stage", len(stage), 30)
    by_name = {}
    for f in stage:
        by_name.setdefault(f.name, []).append(f)

    # ---- N1: role: the function called by the closure of the find_map that looks for a mergeable state
    decide = None
    for f in stage:
        if f.kind == "Closure":
            ret = canon(Exprs(f).local(0))
            if "Option::Some{StateIndex::StateIndex{" in ret:
                cs = [c for c in f.calls() if c.local]
                if len(cs) == 1:
                    decide = mir.fns[cs[0].rkey]
                    dargs = [canon(Exprs(f).operand(a)) for a in cs[0].args]
                    res.inst(N1, "merge-decision-site", cs[0].where, True, "%s(%s)" % (decide.name, dargs))
    if decide is None:
        # other spellings of the merge search (position(..).map(StateIndex), a loop): the decision is the bool-valued
        # stage function over two values of one type mentioning the item/state types that no other such function calls
        cands = [f for f in stage if f.kind in ("Fn", "AssocFn") and f.output and f.output["s"] == "bool" and len(f.inputs) == 2 and f.inputs[0]["s"] == f.inputs[1]["s"]
                 and re.search(r"State|StateItem", f.inputs[0]["s"])]
        called_by_cand = {c.rkey for f in cands for c in f.calls() if c.local}
        tops = [f for f in cands if f.key not in called_by_cand]
        if len(tops) == 1:
            decide = tops[0]
            users = [(g, c) for g in stage for c in g.calls() if c.local and c.rkey == decide.key]
            if users:
                res.inst(N1, "merge-decision-site", users[0][1].where, True, "%s called from %s" % (decide.name, users[0][0].path.rsplit("::", 2)[-2:]))
            else:
                decide = None
    if decide is None:
        res.floor("anchor: merge decision (find_map over states calling a core comparison)", 0, 1)
    else:
        ex = Exprs(decide)
        cs = [c for c in decide.calls() if c.local]
        args = [tuple(canon(ex.operand(a)) for a in c.args) for c in cs]
        same_fn = len({c.rkey for c in cs}) == 1
        ok = len(cs) == 2 and same_fn and set(args) == {("param1", "param2"), ("param2", "param1")}
        # conjunction: the second call is control-dependent on the first being true, false -> returns false
        ret = canon(ex.local(0))
        ok = ok and "const(false)" in ret and "const(true)" not in ret
        res.inst(N1, "mutual-inclusion", decide.where, True, "calls %s ; returns %s" % (args, ret[:120]))
        if not ok:
            res.violate(N1, "mutual-inclusion", decide.where, "core equality must be mutual inclusion `subset(a, b) && subset(b, a)`; found calls %s returning `%s` — with one direction only (or the same direction twice) a state is merged into a state whose core merely contains it" % (args, ret[:160]))
        if cs:
            sub = mir.fns[cs[0].rkey]
            # innermost closure comparing items
            inner = [g for g in stage if g.kind == "Closure" and g.root == sub.key]
            cmp_fields = set()
            n_cmp = 0
            for g in inner:
                gex = Exprs(g)
                for c in g.calls():
                    if short_path(c.rpath or "").endswith(("::eq", "::ne")):
                        n_cmp += 1
                        for a in c.args:
                            m = re.search(r"\.(\w+)$", canon(gex.operand(a)))
                            if m:
                                cmp_fields.add(m.group(1))
                for b in g.blocks:
                    for s_ in b["stmts"]:
                        if s_["k"] == "assign" and s_["rv"]["k"] == "bin" and s_["rv"]["op"] in ("Eq", "Ne"):
                            n_cmp += 1
                            for o in (s_["rv"]["a"], s_["rv"]["b"]):
                                m = re.search(r"\.(\w+)$", canon(gex.operand(o)))
                                if m:
                                    cmp_fields.add(m.group(1))
            subret = canon(Exprs(sub).local(0))
            shape = bool(re.match(r"^Iterator@Iter::all\(slice::iter\((Deref@Oset::deref\()?param1\.items\)?\), .*\{param2\}\)$", subret))
            res.inst(N1, "inclusion-test", sub.where, True, "%s ; item fields compared: %s" % (subret[:100], sorted(cmp_fields)))
            if not shape or cmp_fields != {"rule_index", "dot"}:
                res.violate(N1, "inclusion-test", sub.where, "core inclusion must be `all items of a have some item of b with equal rule index and equal dot` (exactly these two fields, never the look-ahead); found `%s` comparing %s" % (subret[:140], sorted(cmp_fields)))

    # ---- N2
    first = R.stage_fns("first_sets_entry") or fns_in(mir, "first_set_map.rs")
    first = sorted(first, key=lambda f_: f_.key)
    flagty = None
    accum = None
    for f in first:
        if f.output and f.output["head"].endswith("::DidChange") and any(i.get("mut_ref") and i["head"].endswith("::FirstSet") for i in f.inputs):
            accum = f
    if accum is None:
        res.floor("anchor: FIRST accumulation step (&mut FirstSet) -> change flag", 0, 1)
    else:
        pidx = [i + 1 for i, t in enumerate(accum.inputs) if t.get("mut_ref") and t["head"].endswith("::FirstSet")][0]
        ex = Exprs(accum)
        written, compared = set(), set()
        for b in accum.blocks:
            if b["cleanup"]:
                continue
            for s_ in b["stmts"]:
                if s_["k"] != "assign":
                    continue
                written |= set(field_names_of(s_["pl"], pidx)[:1])
                rv = s_["rv"]
                if rv["k"] == "ref" and rv["bk"] == "mut":
                    written |= set(field_names_of(rv["pl"], pidx)[:1])
                if rv["k"] == "bin" and rv["op"] in ("Ne", "Eq", "Lt", "Gt", "Le", "Ge"):
                    for o in (rv["a"], rv["b"]):
                        compared |= fields_read(ex.operand(o), "::FirstSet")
        for c in accum.calls():
            if short_path(c.rpath or "").endswith(("::eq", "::ne")):
                for a in c.args:
                    txt = canon(ex.operand(a))
                    if re.search(r"param%d\b" % pidx, txt) and not re.search(r"param%d\.\w+" % pidx, txt):
                        compared |= written  # whole-accumulator comparison covers every field
                    compared |= fields_read(ex.operand(a), "::FirstSet")
        # the flag is computed, not assumed: no constant "no change" result on a path that may already have written
        wblocks = set()
        for bi, b in enumerate(accum.blocks):
            if b["cleanup"]:
                continue
            for s_ in b["stmts"]:
                if s_["k"] == "assign" and (field_names_of(s_["pl"], pidx)[:1] or (s_["rv"]["k"] == "ref" and s_["rv"]["bk"] == "mut" and field_names_of(s_["rv"]["pl"], pidx)[:1])):
                    wblocks.add(bi)
        from ..mir import reach_from
        after_write = set(reach_from(accum, sorted(wblocks))) | wblocks
        for bi, b in enumerate(accum.blocks):
            if b["cleanup"] or bi not in after_write:
                continue
            for s_ in b["stmts"]:
                if s_["k"] == "assign" and s_["rv"]["k"] == "agg" and s_["rv"].get("adt", "").endswith("::DidChange") and s_["rv"]["ops"] and s_["rv"]["ops"][0]["k"] == "const" and "false" in s_["rv"]["ops"][0]["v"]:
                    f_, l_ = parse_at(s_["span"]["at"])
                    res.violate(N2, "flag-constant-after-write", "%s:%d" % (f_, l_), "the accumulation step returns a constant `no change` on a path that has already written the FIRST set: a pass whose only effect happens on that path ends the fixpoint too early")
        missing = written - compared
        res.inst(N2, "flag-covers-mutations", accum.where, True, "fields written %s, fields compared for the flag %s" % (sorted(written), sorted(compared & written)))
        if missing or not written:
            res.violate(N2, "flag-covers-mutations", accum.where, "the accumulation step mutates %s of the FIRST set but its change flag does not compare %s: a pass that only changes that component ends the fixpoint too early (look-aheads come out too small)" % (sorted(written), sorted(missing)))
        # the pass: ORs all rules, no early exit
        passes = [f for f in first if f.output and f.output["head"].endswith("::DidChange") and f.key != accum.key and natural_loops(f)]
        for f in passes:
            ls = natural_loops(f)
            fx = Exprs(f)
            calls = [Call(f, b, f.blocks[b]["term"]) for b in sorted(ls[0][1]) if f.blocks[b]["term"]["k"] == "call"]
            it = [canon(fx.operand(c.args[0])) for c in calls if (c.rpath or "").endswith("::next")]
            ors = [c for c in calls if "BitOrAssign" in (c.rpath or "") or "BitOr" in (c.rpath or "")]
            exits = [(b, s_) for b in ls[0][1] for s_ in f.succs(b) if s_ not in ls[0][1] and f.blocks[s_]["term"]["k"] != "unreachable"]
            okp = len(ls) == 1 and len(exits) == 1 and bool(ors) and any(re.search(r"into_iter\(param1\.rules\)$", x) for x in it)
            res.inst(N2, "pass|%s" % f.name, f.where, True, "iterates %s, ORs %d flag(s), loop exits: %d" % (it, len(ors), len(exits)))
            if not okp:
                res.violate(N2, "pass|%s" % f.name, f.where, "a fixpoint pass must visit every rule (`for rule in self.rules`, single exit at exhaustion) and OR each rule's flag into the result")
        # the same pass written as a fold: `rules.iter().fold(DidChange(false), |mut changed, rule| { changed |= step(rule, ..); changed })`
        for f in first:
            if not (f.output and f.output["head"].endswith("::DidChange")) or f.key == accum.key or natural_loops(f) or f in passes or f.kind == "Closure":
                continue
            r = canon(Exprs(f).local(0))
            mf = re.match(r"^Iterator(?:@\w+)?::fold\((?:slice::iter|IntoIterator@\w+::into_iter)\(param1\.rules\), DidChange::DidChange\{const\(false\)\}, [\w:]+::(\{closure#\d+\})\{.*\}\)$", r)
            if not mf:
                continue
            cl = [g for g in mir.fns.values() if g.kind == "Closure" and g.parent == f.key and g.path.endswith(mf.group(1))]
            okp = False
            if len(cl) == 1:
                g = cl[0]
                ors = [c for c in g.calls() if "BitOrAssign" in (c.rpath or "") or "BitOr" in (c.rpath or "")]
                branches = [b for b in g.blocks if not b["cleanup"] and b["term"]["k"] == "switch"]
                gr = canon(Exprs(g).local(0))
                # every rule's flag is ORed into the accumulator, unconditionally, and the accumulator is what is handed on
                okp = len(ors) == 1 and not branches and not natural_loops(g) and (gr == "param2" or gr.startswith("BitOr"))
                if okp and gr == "param2":
                    gx = Exprs(g)
                    tgt = canon(gx.operand(ors[0].args[0]))
                    okp = tgt == "param2"
            passes.append(f)
            res.inst(N2, "pass|%s" % f.name, f.where, True, "fold over all rules ORing each flag: %s" % okp)
            if not okp:
                res.violate(N2, "pass|%s" % f.name, f.where, "a fixpoint pass must visit every rule and OR each rule's flag into the result; found fold `%s`" % r[:200])
        res.floor("fixpoint pass functions", len(passes), 1)
        # the driver loop: exits only when the pass flag is false
        drivers = [f for f in first if natural_loops(f) and any((c.local and mir.fns[c.rkey] in passes) for c in f.calls())]
        for f in drivers:
            fx = Exprs(f)
            (h, body) = natural_loops(f)[0]
            exits = [(b, s_) for b in body for s_ in f.succs(b) if s_ not in body]
            conds = []
            okd = True
            for (b, s_) in exits:
                t = f.blocks[b]["term"]
                if t["k"] != "switch":
                    okd = False
                    continue
                ce = canon(fx.operand(t["discr"]))
                conds.append(ce)
                from ..mir import change_flag_condition
                cf_ = change_flag_condition(ce)
                m = cf_ if cf_ and all(any(p.name == n_ for p in passes) for n_ in cf_[0]) else None
                if not m:
                    okd = False
                else:
                    # leaving the loop on the `false` value of the flag (or true of its negation)
                    val = [v for (v, tb) in t["targets"] if tb == s_]
                    neg = ce.startswith("Not(")
                    leaves_on_false = (val == [0]) != neg
                    okd = okd and leaves_on_false
            res.inst(N2, "driver|%s" % f.path.rsplit("::", 2)[-2], f.where, True, "exit conditions %s" % conds)
            if not okd or len(exits) != 1:
                res.violate(N2, "driver-exit", f.where, "the FIRST fixpoint loop must exit exactly when a whole pass reports no change; exit conditions: %s" % conds)
        res.floor("fixpoint driver loops", len(drivers), 1)

    # ---- N3
    def has_push_back(fn):
        return any((c.rpath or "").endswith("push_back") for c in fn.calls())

    merge = []
    for f in stage:
        flagcalls = [c for c in f.calls() if c.local and mir.fns[c.rkey].output and mir.fns[c.rkey].output["s"] == "bool" and any("Oset<" in i["s"] and "StateItem" in i["s"] for i in mir.fns[c.rkey].inputs)]
        if flagcalls:
            merge.append((f, flagcalls[0]))
    if len(merge) != 1:
        res.floor("anchor: merge (calls the items-adding step that returns a flag)", len(merge), 1)
    else:
        f, flagcall = merge[0]
        fx = Exprs(f)
        cdt = control_deps_transitive(f)
        # the enqueue action: a direct push_back, or a call of a local helper that pushes
        acts = [c for c in f.calls() if (c.rpath or "").endswith("push_back") or (c.local and c.rkey != flagcall.rkey and mir.fns[c.rkey] in stage and has_push_back(mir.fns[c.rkey]))]
        tests = []
        idx_arg = None
        want = canon(fx.place(flagcall.dest))
        if len(acts) == 1:
            pb = acts[0]
            for (a, s_) in cdt.get(pb.bb, ()):
                t = f.blocks[a]["term"]
                if t["k"] == "switch":
                    val = [v for (v, tb) in t["targets"] if tb == s_]
                    tests.append((canon(fx.operand(t["discr"])), val))
            idx_arg = canon(fx.operand(pb.args[1]))
            if pb.local:
                h = mir.fns[pb.rkey]
                hx = Exprs(h)
                hcd = control_deps_transitive(h)
                for c2 in h.calls():
                    if (c2.rpath or "").endswith("push_back"):
                        for (a, s_) in hcd.get(c2.bb, ()):
                            t = h.blocks[a]["term"]
                            if t["k"] == "switch":
                                tests.append(("in %s: %s" % (h.name, canon(hx.operand(t["discr"]))), [v for (v, tb) in t["targets"] if tb == s_]))
        okm = len(acts) == 1 and len(tests) == 1 and tests[0][0] == want and tests[0][1] != [0]
        okm = okm and idx_arg == canon(fx.operand(flagcall.args[1]))
        where = acts[0].where if acts else f.where
        res.inst(N3, "re-enqueue-guard", where, True, "enqueue(%s) guarded by %s" % (idx_arg, tests))
        if not okm:
            res.violate(N3, "re-enqueue-guard", where, "the merged state must be re-enqueued exactly when items were added (guard = the flag returned by the item-adding step and nothing else) and it must be the same state index; found %d enqueue action(s) guarded by %s — with any additional condition a state that grew is not expanded again and look-aheads are lost" % (len(acts), tests))
        # the flag function
        g = mir.fns[flagcall.rkey]
        gx = Exprs(g)
        gcd = control_deps_transitive(g)
        ins = [c for c in g.calls() if short_path(c.rpath or "").endswith("Oset::insert")]
        okf = len(ins) == 1
        if okf:
            i0 = ins[0]
            guards = []
            for (a, s_) in gcd.get(i0.bb, ()):
                t = g.blocks[a]["term"]
                if t["k"] == "switch":
                    ce = canon(gx.operand(t["discr"]))
                    if "contains" in ce:
                        val = [v for (v, tb) in t["targets"] if tb == s_]
                        guards.append((ce, val))
            item = canon(gx.operand(i0.args[1]))
            okf = len(guards) == 1 and re.match(r"^(Not\()?Oset::contains\(.*, %s\)\)?$" % re.escape(item), guards[0][0]) is not None
            # `true` is assigned to the returned flag in the blocks reachable from the insert before the loop header, and nowhere else
            true_blocks = []
            for bi, b in enumerate(g.blocks):
                if b["cleanup"]:
                    continue
                for s_ in b["stmts"]:
                    if s_["k"] == "assign" and s_["rv"]["k"] == "use" and s_["rv"]["op"]["k"] == "const" and s_["rv"]["op"]["v"] in ("true", "const true") and g.local_ty(s_["pl"]["l"])["s"] == "bool" and g.local_name(s_["pl"]["l"]):
                        true_blocks.append(bi)
            same_guard = all(gcd.get(tb) == gcd.get(i0.target if i0.target is not None else i0.bb) or gcd.get(tb) == gcd.get(i0.bb) for tb in true_blocks)
            okf = okf and len(true_blocks) == 1 and same_guard
            res.inst(N3, "items-added-flag", g.where, True, "insert guarded by %s ; flag set in %d place(s), same guard: %s" % (guards, len(true_blocks), same_guard))
        if not okf:
            res.violate(N3, "items-added-flag", g.where, "the items-added flag must become true exactly where an item that was not yet contained is inserted")
        # new states: push + enqueue unconditionally
        news = [h for h in stage if any((c.rpath or "").endswith("Vec::<T, A>::push") for c in h.calls()) and (has_push_back(h) or any(c.local and mir.fns[c.rkey] in stage and has_push_back(mir.fns[c.rkey]) for c in h.calls())) and h.key != f.key]
        for h in news:
            hcd = h.control_deps()
            unconditional = all(not hcd.get(c.bb) for c in h.calls() if (c.rpath or "").endswith(("push", "push_back")))
            hx = Exprs(h)
            pbks = [c for c in h.calls() if (c.rpath or "").endswith("push_back")]
            if not pbks:
                res.violate(N3, "new-state", h.where, "a new state is not enqueued directly (the enqueue goes through a helper with its own condition)")
                continue
            pbk = pbks[0]
            idx = canon(hx.operand(pbk.args[1]))
            okn = unconditional and bool(re.match(r"^StateIndex::StateIndex\{Vec::len\(param1\.states\)\}$", idx))
            res.inst(N3, "new-state", h.where, True, "push + enqueue unconditional: %s ; enqueued index %s" % (unconditional, idx))
            if not okn:
                res.violate(N3, "new-state", h.where, "a new state must be pushed and its own index (len before the push) enqueued unconditionally")
        res.floor("new-state function", len(news), 1)

    # ---- N4
    clo = [f for f in stage if natural_loops(f) and any((c.rpath or "").endswith("pop_front") for c in f.calls()) and any(short_path(c.rpath or "").endswith("Oset::insert") for c in f.calls())]
    if len(clo) != 1:
        res.floor("anchor: closure worklist", len(clo), 1)
    else:
        f = clo[0]
        fx = Exprs(f)
        cdt = control_deps_transitive(f)
        ins = [c for c in f.calls() if short_path(c.rpath or "").endswith("Oset::insert")][0]
        item = canon(fx.operand(ins.args[1]))
        guards = []
        for (a, s_) in cdt.get(ins.bb, ()):
            t = f.blocks[a]["term"]
            if t["k"] == "switch":
                ce = canon(fx.operand(t["discr"]))
                if "contains" in ce:
                    guards.append((ce, [v for (v, tb) in t["targets"] if tb == s_]))
        enq = [c for c in f.calls() if c.local and mir.fns[c.rkey] in stage]
        okc = len(guards) == 1 and guards[0][1] == [0] and len(enq) == 1 and any(cdt.get(enq[0].bb) == cdt.get(ins.bb) for _ in [0])
        popped = "(VecDeque::pop_front(" in item
        res.inst(N4, "closure-skip", f.where, True, "insert(%s) guarded by %s; implied items enqueued under the same guard: %s" % (item[:60], guards, okc))
        if not (okc and popped):
            res.violate(N4, "closure-skip", f.where, "the closure worklist must skip exactly the items already contained, and for every other popped item enqueue its implied items and insert it")
    aug = [f for f in stage if f.kind == "Fn" and len(f.inputs) == 2 and f.inputs[0]["head"].endswith("::FirstSet") and f.inputs[1]["head"].endswith("::Lookahead")]
    def eps_switches(f):
        fx_ = Exprs(f)
        return [i for i, b in enumerate(f.blocks) if not b["cleanup"] and b["term"]["k"] == "switch" and canon(fx_.operand(b["term"]["discr"])) == "param1.contains_epsilon"]

    dec = [f for f in aug if eps_switches(f)]
    if len(dec) != 1:
        res.floor("anchor: look-ahead augmentation decision", len(dec), 1)
    else:
        f = dec[0]
        fx = Exprs(f)
        cdt = control_deps_transitive(f)
        oka = True
        desc = []
        sw = eps_switches(f)
        others = [i for i, b in enumerate(f.blocks) if not b["cleanup"] and b["term"]["k"] == "switch" and i not in sw]
        if len(sw) != 1 or others:
            oka = False
            desc.append("branches: %d on contains_epsilon, %d others" % (len(sw), len(others)))
        else:
            a = sw[0]
            t = f.blocks[a]["term"]
            succs = []
            for (v, tb) in t["targets"]:
                succs.append((tb, [v]))
            if t.get("otherwise") is not None:
                succs.append((t["otherwise"], []))
            for (s_, vs) in succs:
                on_true = vs != [0]
                mine = [bi for bi in range(len(f.blocks)) if (a, s_) in cdt.get(bi, ()) and not f.blocks[bi]["cleanup"]]
                val = None
                for d in f.defs(0):
                    if d[1] not in mine:
                        continue
                    if d[0] == "assign" and not d[3]["pl"]["p"]:
                        val = canon(fx.rvalue(d[3]["rv"], 0, ()))
                    elif d[0] != "assign" and not d[2]["dest"]["p"]:
                        c = Call(f, d[1], d[2])
                        val = canon(E("call", c.rpath, [fx.operand(a_) for a_ in d[2]["args"]], site=c))
                if val is None:
                    oka = False
                    desc.append(("true" if on_true else "false", None))
                    continue
                inl = inline_helpers(mir, val)
                desc.append(("true" if on_true else "false", inl[:160]))
                if on_true:
                    if not re.search(r"Iterator::chain\(.*param1\.terminals.*iter::once\(param2\)\)", inl):
                        oka = False
                else:
                    if "param2" in inl or not ("param1.terminals" in inl or re.match(r"^[\w:]+\(param1\)$", inl)):
                        oka = False
        res.inst(N4, "lookahead-augmentation", f.where, True, "%s" % desc)
        if not oka:
            res.violate(N4, "lookahead-augmentation", f.where, "the item's own look-ahead must be added to FIRST(beta) exactly when FIRST(beta) contains epsilon (and all FIRST terminals are kept); found %s" % desc)
    # implied items use the sequence after the *advanced* dot and the item's look-ahead
    impl = [f for f in stage if f.name and "implied" in f.name and any(c.local and mir.fns[c.rkey] in aug + dec for c in f.calls())]
    fa = [f for f in stage if f not in dec and any(c.local and mir.fns[c.rkey] in dec for c in f.calls())]
    for f in dec:
        pass
    for f in fa:
        fx = Exprs(f)
        c = [c for c in f.calls() if c.local and mir.fns[c.rkey] in dec][0]
        a0, a1 = canon(fx.operand(c.args[0])), canon(fx.operand(c.args[1]))
        # by role, not by name: F(ctx, G(ctx, item)) with F a FIRST-of-sequence function (returns the FIRST-set type
        # from a loop over its sequence) and G the function giving an item's symbols after its dot
        e0 = strip_transparent(fx.operand(c.args[0]))
        okq = False
        if e0.k == "call" and e0.site is not None and e0.site.local and len(e0.a[1]) == 2:
            F = mir.fns.get(e0.site.rkey)
            e1 = strip_transparent(e0.a[1][1])
            if F is not None and F.output and F.output["head"].endswith("::FirstSet") and natural_loops(F) and canon(e0.a[1][0]) == "param1" \
                    and e1.k == "call" and e1.site is not None and e1.site.local and [canon(x_) for x_ in e1.a[1]] == ["param1", "param2"]:
                G = mir.fns.get(e1.site.rkey)
                okq = G is not None and G.output is not None and "Symbol" in G.output["s"] and any(t_["head"].endswith("::StateItem") for t_ in G.inputs)
        okq = okq and a1 == "param2.lookahead"
        res.inst(N4, "first-after-dot", c.where, True, "FIRST of %s with %s" % (a0[:100], a1))
        if not okq:
            res.violate(N4, "first-after-dot", c.where, "implied look-aheads must be FIRST(symbols after the dot of the given item) augmented with that item's own look-ahead; found (%s, %s)" % (a0[:120], a1))
        # ... on every path: the function has no other result than that augmentation (no shortcut for special sequences)
        rret = canon(fx.local(0))
        single = not rret.startswith("phi[") and re.match(r"^[\w:]+\(", rret) is not None and len([b for b in f.blocks if not b["cleanup"] and b["term"]["k"] == "switch"]) == 0
        res.inst(N4, "first-after-dot|single-result", f.where, True, rret[:140])
        if not single:
            res.violate(N4, "first-after-dot|single-result", f.where, "%s must return the augmented FIRST set on every path; it has other results / branches (`%s`): a shortcut for some sequences gives them different look-aheads" % (f.name, rret[:200]))
    res.floor("FIRST-after-dot sites", len(fa), 1)

    # ---- N6: FIRST of a symbol sequence
    seqs = []
    for f in stage:
        if f.kind == "Closure" or f.output is None or not f.output["head"].endswith("::FirstSet"):
            continue
        ls = natural_loops(f)
        if len(ls) != 1:
            continue
        (h, body) = ls[0]
        exits = [(b, s_) for b in body for s_ in f.succs(b) if s_ not in body and f.blocks[s_]["term"]["k"] != "unreachable"]
        if len(exits) < 2:
            continue
        seqs.append((f, h, body, exits))
    for (f, h, body, exits) in seqs:
        fx = Exprs(f)
        dom = f.dominators()
        # the epsilon component: a bool local flowing into the FirstSet aggregate, or the field of a FirstSet local
        eps_locals = set()
        for b in f.blocks:
            if b["cleanup"]:
                continue
            for s_ in b["stmts"]:
                if s_["k"] == "assign" and s_["rv"]["k"] == "agg" and s_["rv"].get("adt", "").endswith("::FirstSet") and "contains_epsilon" in s_["rv"].get("fields", []):
                    o = s_["rv"]["ops"][s_["rv"]["fields"].index("contains_epsilon")]
                    cur = o
                    for _ in range(4):
                        if cur["k"] in ("copy", "move") and not cur["pl"]["p"]:
                            l = cur["pl"]["l"]
                            if f.local_name(l):
                                eps_locals.add(l)
                                break
                            ds = f.defs(l)
                            if len(ds) == 1 and ds[0][0] == "assign" and ds[0][3]["rv"]["k"] == "use":
                                cur = ds[0][3]["rv"]["op"]
                                continue
                        break

        def eps_store(s_, value):
            if s_["k"] != "assign" or s_["rv"]["k"] != "use" or s_["rv"]["op"]["k"] != "const" or s_["rv"]["op"]["v"] not in (value, "const " + value):
                return False
            pl = s_["pl"]
            if not pl["p"] and pl["l"] in eps_locals:
                return True
            return any(isinstance(e, dict) and e.get("name") == "contains_epsilon" and str(e.get("owner", "")).endswith("::FirstSet") for e in pl["p"])

        false_blocks = {bi for bi, b in enumerate(f.blocks) if not b["cleanup"] and any(eps_store(s_, "false") for s_ in b["stmts"])}
        true_init = any((not b["cleanup"]) and bi not in body and bi in dom.get(h, ()) and (any(eps_store(s_, "true") for s_ in b["stmts"]) or any(s_["k"] == "assign" and s_["rv"]["k"] == "agg" and s_["rv"].get("adt", "").endswith("::FirstSet") and "const true" in str(s_["rv"]["ops"]) or (s_["k"] == "assign" and s_["rv"]["k"] == "agg" and s_["rv"].get("adt", "").endswith("::FirstSet") and any(o.get("v") in ("true", "const true") for o in s_["rv"]["ops"] if o["k"] == "const")) for s_ in b["stmts"])) for bi, b in enumerate(f.blocks))
        back_sources = [b for b in body if h in f.succs(b)]
        # the exhaustion exit: the switch on the discriminant of the loop's `next()` result
        exhaustion = set()
        for (b, s_) in exits:
            t = f.blocks[b]["term"]
            if t["k"] == "switch" and re.match(r"^discr\((Iterator|range|iter)[@\w]*::next\(", canon(fx.operand(t["discr"]))):
                exhaustion.add((b, s_))
        early = [e for e in exits if e not in exhaustion]
        okq = true_init and bool(early)
        missing = []
        for (b, s_) in early:
            # blocks of an early-exit path are not part of the natural loop: follow the straight-line chain
            # from the exit target until it joins other paths
            chain = []
            cur = s_
            seen_c = set()
            while cur is not None and cur not in seen_c:
                seen_c.add(cur)
                chain.append(cur)
                ss = f.succs(cur)
                if len(ss) != 1:
                    break
                nxt = ss[0]
                if len([p_ for p_ in f.preds(nxt) if p_ not in seen_c]) > 0 and len(f.preds(nxt)) > 1:
                    break
                cur = nxt
            in_loop_store = [x for x in false_blocks if x in body and x in dom.get(b, ()) and not all(x in dom.get(bs, ()) for bs in back_sources)]
            if not (set(chain) & false_blocks) and not in_loop_store:
                okq = False
                missing.append(b)
        res.inst(N6, "first-of-sequence|%s" % f.name, f.where, True, "epsilon initialised true: %s; %d early exit(s), each clears epsilon: %s" % (true_init, len(early), not missing))
        if not okq:
            res.violate(N6, "first-of-sequence|%s" % f.name, f.where, "FIRST of a symbol sequence must start nullable and every early exit of the loop (a terminal, or a nonterminal that is not nullable) must clear the epsilon flag; %s%d early exit(s) leave it set — the sequence is then considered nullable and the item's own look-ahead is wrongly added" % ("the flag is not initialised to true; " if not true_init else "", len(missing)))
    res.floor("FIRST-of-sequence loops", len(seqs), 2)  # the look-ahead one and at least one in the FIRST fixpoint (today 3: named and tuple fieldsets have their own)

    # ---- N7: a nonterminal of the sequence contributes its FIRST terminals whether or not it is nullable
    n7 = 0
    for (f, h, body, exits) in seqs:
        fx = Exprs(f)
        dom = f.dominators()
        for b in sorted(body):
            t_ = f.blocks[b]["term"]
            if t_["k"] != "switch":
                continue
            ce = canon(fx.operand(t_["discr"]))
            m_ = re.match(r"^(?:Not )?\(?(.*)\.contains_epsilon\)?$", ce)
            if not m_:
                continue
            X = m_.group(1)
            # a symbol's FIRST set is the result of a look-up (a call); the accumulator itself is a local
            if not re.search(r"\w\(", X):
                continue
            n7 += 1
            adders = []
            for c in f.calls():
                if any((X + ".terminals") in canon(fx.operand(a)) for a in c.args if a["k"] in ("copy", "move")):
                    adders.append(c)
            ablocks = {c.bb for c in adders}
            ok7 = any(c.bb in dom.get(b, ()) for c in adders)
            if not ok7 and adders:
                # not before the test: then on every path after it (each side adds them before going round or leaving)
                ok7 = True
                for s0 in f.succs(b):
                    work, seen7 = [s0], set()
                    while work and ok7:
                        x = work.pop()
                        if x in seen7 or x in ablocks or f.blocks[x]["cleanup"]:
                            continue
                        seen7.add(x)
                        if x == h or f.blocks[x]["term"]["k"] == "return":
                            ok7 = False
                            break
                        work.extend(f.succs(x))
            res.inst(N7, "first-terminals|%s" % f.name, f.where, True, "nullable test on %s; terminals added before the test: %s" % (X[:80], ok7))
            if not ok7:
                res.violate(N7, "first-terminals|%s" % f.name, f.where, "FIRST of a symbol sequence must take in the FIRST terminals of every nonterminal it visits whether or not it is nullable; here `%s.terminals` is %s — a nullable nonterminal then contributes nothing and look-ahead sets come out too small" % (X[:100], "added only on one side of the nullability test" if adders else "never added"))
    res.floor("nullability tests inside FIRST-of-sequence loops", n7, 2)

    # ---- N8: no symbol of the sequence is passed over: every way round the loop goes through the nullability test
    # of the current symbol (a `continue` before it treats the symbol as nullable and contributes nothing)
    N8 = "R-C17-firstskip"
    res.rule(N8, "in every FIRST-of-sequence loop each path from the loop head back to the loop head passes through the test of the current symbol's nullability: no symbol is skipped")
    n8 = 0
    for (f, h, body, exits) in seqs:
        fx = Exprs(f)
        tests = set()
        for b in body:
            t_ = f.blocks[b]["term"]
            if t_["k"] == "switch" and re.search(r"\.contains_epsilon\)?$", canon(fx.operand(t_["discr"]))):
                tests.add(b)
        if not tests:
            continue
        n8 += 1
        # walk from the successors of the head inside the body, never entering a test block: reaching the head again = skipped symbol
        work, seen8 = [s_ for s_ in f.succs(h) if s_ in body], set()
        skipped = False
        while work:
            x = work.pop()
            if x in seen8 or x in tests or x not in body:
                continue
            seen8.add(x)
            for s_ in f.succs(x):
                if s_ == h:
                    skipped = True
                work.append(s_)
        res.inst(N8, "no-symbol-skipped|%s" % f.name, f.where, True, "nullability tests at blocks %s; a way round the loop without them: %s" % (sorted(tests), skipped))
        if skipped:
            res.violate(N8, "no-symbol-skipped|%s" % f.name, f.where, "%s can go on to the next symbol of the sequence without having tested the current one's nullability (a `continue` / skipped case): the skipped symbol is treated as if it could vanish, FIRST sets and look-aheads come out too large" % f.name)
    res.floor("FIRST-of-sequence loops checked for skipped symbols", n8, 2)

    # ---- N5
    tr = [f for f in stage if any((c.rpath or "").endswith("HashSet::<T, S, A>::insert") and "Transition" in str(c.callee.get("args")) for c in f.calls())]
    if len(tr) != 1:
        res.floor("anchor: transition insertion", len(tr), 1)
    else:
        f = tr[0]
        fx = Exprs(f)
        c = [c for c in f.calls() if (c.rpath or "").endswith("HashSet::<T, S, A>::insert")][0]
        v = canon(fx.operand(c.args[1]))
        # by role, not by name: {from: param2, to: M(self, T(self, param2, param3)), symbol: param3} with
        # T: (builder, state index, symbol) -> State and M: (builder, State) -> state index
        ve = strip_transparent(fx.operand(c.args[1]))
        okt = False
        if ve.k == "agg" and str(ve.a[1]).endswith("Transition") and len(ve.a[2]) == 3 and canon(ve.a[2][0]) == "param2" and canon(ve.a[2][2]) == "param3":
            me = strip_transparent(ve.a[2][1])
            if me.k == "call" and me.site is not None and me.site.local and len(me.a[1]) == 2 and canon(me.a[1][0]) == "param1":
                M = mir.fns.get(me.site.rkey)
                te = strip_transparent(me.a[1][1])
                if M is not None and M.output and M.output["head"].endswith("::StateIndex") and te.k == "call" and te.site is not None and te.site.local and [canon(x_) for x_ in te.a[1]] == ["param1", "param2", "param3"]:
                    T = mir.fns.get(te.site.rkey)
                    okt = T is not None and T.output is not None and T.output["head"].endswith("::State")
        res.inst(N5, "transition-record", c.where, True, v[:200])
        if not okt:
            res.violate(N5, "transition-record", c.where, "the recorded transition must be {from: the expanded state, to: merge-or-enqueue(closure of the advanced items for this state and symbol), symbol: that symbol}; found `%s`" % v[:240])
        callers = [(g, cc) for g in stage for cc in g.calls() if cc.local and cc.rkey == f.key]
        srd = []
        for (g, cc) in callers:
            gx = Exprs(g)
            sym = canon(gx.operand(cc.args[2]))
            st_arg = canon(gx.operand(cc.args[1]))
            cctx = closure_loop_context(mir, g) if g.kind == "Closure" else None
            if cctx is not None:
                # `symbols.iter().for_each(|s| ..)`: the same loop, read in the parent's terms
                sym, st_arg = lift_closure_canon(sym, cctx), lift_closure_canon(st_arg, cctx)
            ml = re.match(r"^\(Iterator@Iter::next\(IntoIterator@\w+::into_iter\((?:slice::iter\()?(?:Deref@Oset::deref\()?((?:\w+::)*\w+)\(param1, param2\)\)?\)?\)\) as Some\)\.0$", sym)
            # the iterated collection is the result of the builder's "symbols right of a dot in this state" function
            # (by role: (builder, state index) -> ordered set of symbols)
            S = [h_ for h_ in stage if ml and short_path(h_.path) == ml.group(1) and h_.output is not None and "Symbol" in h_.output["s"] and any(t_["head"].endswith("::StateIndex") for t_ in h_.inputs)]
            okl = len(S) == 1 and st_arg == "param2"
            for h_ in S:
                if h_ not in srd:
                    srd.append(h_)
            res.inst(N5, "per-symbol-loop", cc.where, True, sym[:160])
            if not okl:
                res.violate(N5, "per-symbol-loop", cc.where, "every symbol right of a dot in the expanded state must get a transition (loop over the unfiltered symbol set of that state); found symbol `%s`" % sym[:200])
        for g in srd:
            r = canon(Exprs(g).local(0))
            okr = bool(re.match(r"^Iterator::collect\(Iterator::filter_map\(slice::iter\((Deref@Oset::deref\()?(?:(?:\w+::)*\w+\(param1, param2\)|param1\.states\[param2\.0\])\.items\)?\), .*\)\)$", r))
            res.inst(N5, "symbols-right-of-dot", g.where, True, r[:160])
            if not okr:
                res.violate(N5, "symbols-right-of-dot", g.where, "the symbols to expand must be collected from *all* items of the state; found `%s`" % r[:200])


def check(ctx):
    res = Result("C17", ctx["tier"], "other", ctx["seed"])
    run_rules(ctx, res)
    # the statement is about the *emitted tables*: the stages between the automaton and the table text are held to
    # their own necessary conditions too (rules of C01, C04, C11 on the same facts, reported under their own ids)
    from . import c01
    from ..report import Result as _R2
    r01 = _R2("C01", ctx["tier"], "other")
    c01.run_rules(ctx, r01)
    res.rule("imported", "necessary conditions of the stages after the construction, decided by other checks' rules on the same facts: C01 (renumbering, goto filling, builder-to-table move, error default, index functions, emitted index spaces), C04 (single guarded writer, equality, exhaustive un-bypassable scan), C11 (look-ahead/action pairing per item, arguments forwarded unchanged)")
    res.inst("imported", "C01|own rules", "", True, "%d instances, %d violations" % (len(r01.instances), len(r01.violations)))
    for v in r01.violations:
        res.violate(v.rule, v.key, v.where, v.msg, v.detail)
    c01.import_violations(ctx, res, "c04", "C04", lambda r: r.startswith("R-C04-"), "writer/eq/scan")
    c01.import_violations(ctx, res, "c11", "C11", lambda r: r in ("R-C11-la", "R-C11-forward", "R-C11-context"), "pairing/forwarding")
    res.assume("CLAUSE LEVEL ONLY: these are necessary conditions of the construction being LALR(1); they do not show that the emitted tables are exactly the LALR(1) tables for every grammar")
    return finish(res, "Named structural necessary conditions of the LALR(1) construction decided on MIR (def-use value reconstruction, control dependence, who-writes/who-compares): symmetric core equality on (rule, dot); FIRST fixpoint whose change flag covers every mutated component and whose loop exits only on a change-free pass over all rules; re-enqueue exactly on growth; closure skipping only contained items with FIRST(beta)+look-ahead-iff-nullable; a transition per symbol right of a dot. Exactness of the resulting tables is NOT decided.")
