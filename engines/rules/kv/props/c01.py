"""C01 (clauses) — the generated parser accepts exactly the language of the declared grammar.

The behaviour (every grammar, every token sequence) is not decided: no static argument in reach bounds it.
Decided: structural necessary conditions on every stage between the rule list and the emitted tables,
each of which, when broken, makes some grammar's parser accept or reject wrongly:

  own rules (this file)
    R-C01-renumber  state renumbering is applied consistently: start, every transition end and the state order
                    go through one and the same updater, whose map sends old position -> new position
    R-C01-goto      every nonterminal transition becomes goto(from, its own nonterminal) = its own target
    R-C01-move      every entry of the builder's action/goto maps is moved into the table under its own key
    R-C01-empty     cells not written are the error action / no goto; table sizes use the table's own lists; start = automaton start
    R-C01-index     table reader and writer use the same index function; index = state x width + column with
                    column < width (terminal position | number of terminals for end of input; nonterminal position)
    R-C01-kinds     emitted kind / state enums are numbered by position in the same lists, rows ascend over states,
                    columns follow list order, each cell is looked up under its own row state and column symbol,
                    the initial stack holds the table's start state
    R-C01-payload   the look-ahead kind of a token ignores its payload and is the same-named variant
  imported (decided by the named checks on the same facts)
    C17 N1-N6 (LALR construction), C11 look-ahead/action pairing and forwarding, C04 single writer / equality /
    exhaustive scan, C03 driver loop and end-of-input column, C02 pops / truncate / rule numbering / rule list,
    C05 table dimensions.
"""
import re

from ..mir import Mir, Exprs, canon, parse_at, inline_helpers, short_path, CALLABLE_RE, callable_fn, callable_result, shift_params
from ..syn import Syn, nodes, ident_of, unparse, method_chain
from .. import tpl
from ..report import Result, finish
from ..roles import roles_of


def agg_fields(fn, ex, adt_suffix, variant=None):
    out = []
    for bi, b in enumerate(fn.blocks):
        if b["cleanup"]:
            continue
        for s_ in b["stmts"]:
            if s_["k"] == "assign" and s_["rv"]["k"] == "agg" and s_["rv"].get("adt", "").endswith(adt_suffix) and (variant is None or s_["rv"].get("variant") == variant):
                f_, l_ = parse_at(s_["span"]["at"])
                out.append(({fl: canon(ex.operand(o)) for fl, o in zip(s_["rv"]["fields"], s_["rv"]["ops"])}, "%s:%d" % (f_, l_)))
    return out


def check_renumber(mir, res, rule):
    # O1: the normaliser = the function that aggregates Machine from an UnnormalizedMachine parameter
    norm = [f for f in mir.fns.values() if not f.derived and f.kind == "Fn" and any(i["head"].endswith("::UnnormalizedMachine") for i in f.inputs) and f.output and f.output["head"].endswith("machine::Machine")]
    if len(norm) != 1:
        res.floor("anchor: normaliser (UnnormalizedMachine -> Machine)", len(norm), 1)
        return
    f = norm[0]
    ex = Exprs(f)
    R = roles_of(mir)
    UPD, FROM_MAP = R.sp("updater_update"), R.sp("updater_from_map")
    if R.updater_update is None or R.updater_from_map is None:
        res.floor("anchor: index updater (usize -> usize look-up and its constructor from a Vec<usize>)", 0, 1)
        return
    ms = agg_fields(f, ex, "machine::Machine")
    if len(ms) != 1:
        res.unanalysable(rule, "normaliser|machine-aggregate", f.where, "expected one Machine aggregate, found %d" % len(ms))
        return
    vals, w = ms[0]
    sortc = [c for c in f.calls() if c.local and c.rkey in mir.fns and mir.fns[c.rkey].output and mir.fns[c.rkey].output["s"].startswith("(") and "IndexUpdater" in mir.fns[c.rkey].output["s"]]
    if len(sortc) != 1:
        res.unanalysable(rule, "normaliser|sort-call", f.where, "cannot find the call that sorts the states and returns the index updater")
        return
    U = canon(ex.local(sortc[0].dest["l"])) if not sortc[0].dest["p"] else None
    U = U or ""
    arg = canon(ex.operand(sortc[0].args[0]))
    res.inst(rule, "normaliser|sort-input", sortc[0].where, True, arg)
    if arg != "param1.states":
        res.violate(rule, "normaliser|sort-input", sortc[0].where, "the states that are sorted are `%s`, not the automaton's own state list" % arg)
    upd = "%s.1" % U
    want_start = re.compile(r"^StateIndex::StateIndex\{%s\(%s, const\(0_usize\)\)\}$" % (UPD, re.escape(upd)))
    vals["start"] = inline_helpers(mir, vals.get("start", ""), kinds=("Closure",))
    res.inst(rule, "normaliser|start", w, True, vals.get("start", "")[:160])
    if not want_start.match(vals.get("start", "")):
        res.violate(rule, "normaliser|start", w, "the start state must be the new position of the old first state (`updater.update(0)` with the updater of the same sort); found `%s`" % vals.get("start", "")[:200])
    st = vals.get("states", "")
    ok_states = st in ("%s.0" % U, "Iterator::collect(IntoIterator@Vec::into_iter(%s.0))" % U)
    res.inst(rule, "normaliser|states", w, True, st[:160])
    if not ok_states:
        res.violate(rule, "normaliser|states", w, "the state list must be the sorted list of the same sort whose updater renumbers the transitions; found `%s`" % st[:200])
    tr = vals.get("transitions", "")
    res.inst(rule, "normaliser|transitions", w, True, tr[:200])
    UPDN = R.nm("updater_update")
    WANT_T = {"from": "StateIndex::StateIndex{" + UPDN + "(%s, %s.from.0)}", "to": "StateIndex::StateIndex{" + UPDN + "(%s, %s.to.0)}", "symbol": "%s.symbol"}

    def closures(g):
        return [c_ for c_ in mir.fns.values() if c_.kind == "Closure" and c_.parent == g.key]

    def check_one(g, elem, updv, cap=None):
        """g renumbers one transition `elem` with updater `updv`: either aggregates it itself or calls the function that does.
        cap = what the closure g captured (a renumbering closure over the updater is looked through by inlining it)"""
        ts = agg_fields(g, Exprs(g), "machine::Transition")
        if len(ts) == 1:
            v, w2 = ts[0]
            if cap is not None:
                v = {k_: inline_helpers(mir, re.sub(r"\bparam1\.0\b", lambda _m: cap, x_), kinds=("Closure",)) for k_, x_ in v.items()}
            ok = v.get("from") == WANT_T["from"] % (updv, elem) and v.get("to") == WANT_T["to"] % (updv, elem) and v.get("symbol") == WANT_T["symbol"] % elem
            res.inst(rule, "transition-updater", w2, True, "%s" % v)
            if not ok:
                res.violate(rule, "transition-updater", w2, "a renumbered transition must be {from: update(from), to: update(to), symbol: unchanged}; found %s" % v)
            return True
        rc = canon(Exprs(g).local(0))
        m3 = re.match(r"^([\w:]+)\(%s, %s\)$" % (re.escape(elem), re.escape(updv)), rc)
        cc = [c for c in g.calls() if c.local and c.rkey in mir.fns]
        if m3 and len(cc) == 1:
            res.inst(rule, "set-updater|closure", g.where, True, rc)
            return check_one(mir.fns[cc[0].rkey], "param1", "param2")
        res.violate(rule, "set-updater|closure", g.where, "the per-transition step must build the renumbered transition from its element and the updater; found `%s`" % rc[:200])
        return True

    def check_set(g, expr, src_pat, updv_in_g):
        """expr (in g) = collect(map(into_iter(<all transitions>), closure{upd}))"""
        m2 = re.match(r"^Iterator::collect\(Iterator::map\(IntoIterator@\w+::into_iter\((.*)\), [\w:]+::(\{closure#\d+\})\{(.*)\}\)\)$", expr)
        if not m2 or not re.match(src_pat, m2.group(1)) or re.search(r"filter|skip|take|step_by|rev\(", m2.group(1)):
            return False
        cl = [c_ for c_ in closures(g) if c_.path.endswith(m2.group(2))]
        if len(cl) != 1:
            return False
        if m2.group(3) != updv_in_g:
            # the map closure captured something else than the updater: accepted only when what it captured, inlined,
            # renumbers with the updater (a local `renumber` closure over it)
            res.inst(rule, "set-updater", g.where, True, expr[:200])
            return check_one(cl[0], "param2", updv_in_g, cap=m2.group(3))
        res.inst(rule, "set-updater", g.where, True, expr[:200])
        return check_one(cl[0], "param2", "param1.0")

    SRC = r"^(Iterator::collect\(IntoIterator@\w+::into_iter\(param1\.transitions\)\)|param1\.transitions)$"
    done = check_set(f, tr, SRC, upd)
    if not done:
        mt = re.match(r"^([\w:]+)\((.*), %s\)$" % re.escape(upd), tr)
        if mt and re.match(SRC, mt.group(2)):
            cands = [g for g in mir.fns.values() if g.kind == "Fn" and len(g.inputs) == 2 and g.path.endswith("::" + mt.group(1).rsplit("::", 1)[-1])]
            if len(cands) == 1:
                g = cands[0]
                done = check_set(g, canon(Exprs(g).local(0)), r"^param1$", "param2")
                if not done:
                    res.violate(rule, "set-updater", g.where, "every transition must be mapped through the updater (into_iter().map(..).collect(), nothing dropped); found `%s`" % canon(Exprs(g).local(0))[:220])
                    done = True
    if not done:
        res.violate(rule, "normaliser|transitions", w, "all transitions of the automaton must be renumbered with the updater of the same sort; found `%s`" % tr[:220])
    # O4: the updater maps old position -> new position
    sortf = mir.fns[sortc[0].rkey]
    rs = canon(Exprs(sortf).local(0))
    m4 = re.match(r"^tuple\{Iterator::collect\(Iterator::map\(IntoIterator@Vec::into_iter\((?P<S>.*)\), (?P<PROJ>" + CALLABLE_RE + r")\)\), (?P<UPD>[\w:]+)\((?P<S2>.*)\)\}$", rs)
    res.inst(rule, "sort|result", sortf.where, True, rs[:220])
    if not m4 or m4.group("S") != m4.group("S2"):
        res.violate(rule, "sort|result", sortf.where, "the sorted list and the updater must come from one and the same sorted (position, item) vector; found `%s`" % rs[:240])
        return
    # (the projection is a closure or a function passed by path: both are read through their return value)
    g, _k = callable_fn(mir, sortf, m4.group("PROJ"))
    rc = callable_result(mir, sortf, m4.group("PROJ"))
    res.inst(rule, "sort|item-projection", (g or sortf).where, True, str(rc))
    if rc != "param2.1":
        res.violate(rule, "sort|item-projection", (g or sortf).where, "the sorted list must consist of the items of the sorted pairs (`.1`); found `%s`" % rc)
    # the change records and the map
    chg = [g for g in mir.fns.values() if not g.derived and any(a for a in agg_fields(g, Exprs(g), "::IndexChange"))]
    n_chg = 0
    OLD_F, NEW_F = "old", "new"
    for g in chg:
        for (v, w3) in agg_fields(g, Exprs(g), "::IndexChange"):
            n_chg += 1
            kshift = 0 if g.kind == "Closure" else 1  # a function passed by path has its argument in param1
            # the two fields are told apart by what is stored in them, not by their names: OLD holds the position
            # stored with the item, NEW the position after sorting
            sv = {k_: shift_params(x_, kshift) for k_, x_ in v.items()}
            olds = [k_ for k_, x_ in sv.items() if x_ == "param2.1.0"]
            news = [k_ for k_, x_ in sv.items() if x_ == "param2.0"]
            ok = len(sv) == 2 and len(olds) == 1 and len(news) == 1
            if ok:
                OLD_F, NEW_F = olds[0], news[0]
            res.inst(rule, "sort|change-record", w3, True, "%s" % v)
            if not ok:
                res.violate(rule, "sort|change-record", w3, "a change record must be {old: the position stored with the item, new: the position after sorting}; found %s — the updater would be the inverse permutation" % v)
            par = mir.fns.get(g.parent) if g.kind == "Closure" else None
            how = "%s{}" % short(par, g) if par is not None else None
            if par is None:
                # the record is made by a function passed by path: its user is whoever maps it over the sorted vector
                users = [h_ for h_ in mir.fns.values() if not h_.derived and h_.key != g.key and ("const(fn:%s)" % g.path) in canon(Exprs(h_).local(0))]
                par = users[0] if len(users) == 1 else None
                how = "const(fn:%s)" % g.path
            if par is not None:
                rp = canon(Exprs(par).local(0))
                okp = rp == "Iterator::collect(Iterator::map(Iterator::enumerate(slice::iter(param1)), %s))" % how
                res.inst(rule, "sort|change-walk", par.where, True, rp[:200])
                if not okp:
                    res.violate(rule, "sort|change-walk", par.where, "change records must be made for every element with its position after sorting (`iter().enumerate().map(..)`); found `%s`" % rp[:200])
    res.floor("index change record sites", n_chg, 1)
    # the map: sorted by old, projected to new, stored as the updater's map; update(i) = map[i]
    mk = [g for g in mir.fns.values() if not g.derived and g.kind == "Fn" and g.output and g.output["head"].endswith("IndexUpdater") and g.file == sortf.file]
    for g in mk:
        rg = canon(Exprs(g).local(0))
        srt = [c for c in g.calls() if (c.rpath or "").endswith("sort_by_key") or (c.rpath or "").endswith("sort_unstable_by_key")]
        okm = re.match(r"^" + FROM_MAP + r"\(Iterator::collect\(Iterator::map\(IntoIterator@Vec::into_iter\(([\w:]+\(param1\))\), (" + CALLABLE_RE + r")\)\)\)$", rg)
        good = False
        cls = {}
        if okm and len(srt) == 1:
            sorted_what = canon(Exprs(g).operand(srt[0].args[0]))
            keyc = canon(Exprs(g).operand(srt[0].args[1]))
            cls = {"key": callable_result(mir, g, keyc), "map": callable_result(mir, g, okm.group(2))}
            good = sorted_what == okm.group(1) and cls["key"] == "param2.%s" % OLD_F and cls["map"] == "param2.%s" % NEW_F
        res.inst(rule, "sort|map", g.where, True, "%s ; key/map callables %s" % (rg[:160], cls))
        if not good:
            res.violate(rule, "sort|map", g.where, "the updater's map must list `new` in ascending order of `old` (sort_by_key(old), map(new)); found `%s` with %s" % (rg[:200], cls))
    res.floor("updater map builders", len(mk), 1)
    up = [R.updater_update]
    for g in up:
        ru = canon(Exprs(g).local(0))
        res.inst(rule, "updater|update", g.where, True, ru)
        if ru != "Index@Vec::index(param1.index_map, param2)":
            res.violate(rule, "updater|update", g.where, "update(i) must be map[i]; found `%s`" % ru)
    fm = [R.updater_from_map]
    for g in fm:
        ru = canon(Exprs(g).local(0))
        if ru != "IndexUpdater::IndexUpdater{param1}":
            res.violate(rule, "updater|from_map", g.where, "from_map must store the map unchanged; found `%s`" % ru)
    res.floor("updater accessors", len(up) + len(fm), 2)


def short(par, g):
    """canon's rendering of closure g inside parent par"""
    tail = g.path.rsplit("::", 2)
    return "%s::%s" % (tail[-2], tail[-1])


def check_goto_fill(mir, res, rule):
    R = roles_of(mir)
    bset = [R.builder_set_goto] if R.builder_set_goto is not None else []
    if len(bset) != 1:
        res.floor("anchor: the builder's goto writer (&mut TableBuilder, .., Goto)", R.count("builder_set_goto"), 1)
        return
    n = 0
    for f in mir.fns.values():
        if f.derived:
            continue
        ex = None
        for c in f.calls():
            if c.rkey == bset[0].key:
                ex = ex or Exprs(f)
                n += 1
                a = [canon(ex.operand(x)) for x in c.args]
                m = re.match(r"^(.*)\.from$", a[1])
                X = m.group(1) if m else None
                ok = X is not None and a[2] == "(%s.symbol as Nonterminal).0" % X and a[3] == "Goto::State{%s.to}" % X
                full = X is not None and re.match(r"^\(Iterator@\w+::next\(IntoIterator@\w+::into_iter\(param1\.machine\.transitions\)\) as Some\)\.0$", X) is not None
                res.inst(rule, "goto-fill|%s" % f.path, c.where, True, "%s" % a[1:])
                if not ok:
                    res.violate(rule, "goto-fill|%s" % f.path, c.where, "a goto must be entered as (transition.from, the transition's own nonterminal) -> transition.to; found %s" % a[1:])
                elif not full:
                    res.violate(rule, "goto-fill|%s|walk" % f.path, c.where, "gotos must be entered for every transition of the automaton (plain iteration over machine.transitions); found `%s`" % X[:200])
    res.floor("goto fill sites", n, 1)


def check_move(mir, res, rule):
    fs = [g for g in mir.fns.values() if not g.derived and g.output and g.output["head"].endswith("table::Table") and any(i["head"].endswith("TableBuilder") for i in g.inputs)]
    if len(fs) != 1:
        res.floor("anchor: builder -> table", len(fs), 1)
        return
    f = fs[0]
    ex = Exprs(f)
    ret = canon(ex.local(0))
    seen = set()
    R = roles_of(mir)
    writers = {}
    if R.table_set_action is not None:
        writers[R.table_set_action.key] = "set_action"
    if R.table_set_goto is not None:
        writers[R.table_set_goto.key] = "set_goto"
    for c in f.calls():
        nm = writers.get(c.rkey) if c.local else None
        if nm is not None:
            a = [canon(ex.operand(x)) for x in c.args]
            fld = "actions" if nm == "set_action" else "gotos"
            K = "(Iterator@IntoIter::next(IntoIterator@HashMap::into_iter(param2.%s)) as Some).0" % fld
            from ..conflict import value_projections_of
            bt = [i["head"] for i in f.inputs if i["head"].endswith("TableBuilder")]
            aproj = value_projections_of(mir, bt[0], "actions")[1] if bt else ".1"
            want = [ret, K + ".0.0", K + ".0.1", K + (".1" + aproj if nm == "set_action" else ".1")]
            seen.add(nm)
            res.inst(rule, "move|%s" % nm, c.where, True, "%s" % a[1:])
            if a != want:
                res.violate(rule, "move|%s" % nm, c.where, "every builder entry must be written into the returned table under its own (state, symbol) key and with its own value; found %s" % [x[-80:] for x in a])
    if seen != {"set_action", "set_goto"}:
        res.violate(rule, "move|missing", f.where, "the builder's %s map is not moved into the table" % sorted({"set_action", "set_goto"} - seen))
    if not re.match(r"^[\w:]+\(param1\.machine, param1\.file\)$", ret):
        res.violate(rule, "move|base", f.where, "the table must start as the empty table of the same automaton and file; found `%s`" % ret[:160])


def check_empty(mir, res, rule):
    fs = [g for g in mir.fns.values() if not g.derived and g.kind in ("Fn", "AssocFn") and agg_fields(g, Exprs(g), "table::Table")]
    if len(fs) != 1:
        res.floor("anchor: empty table constructor", len(fs), 1)
        return
    f = fs[0]
    v0, w = agg_fields(f, Exprs(f), "table::Table")[0]
    # helper calls (sizes, list builders) are expanded so that the rule does not depend on how the constructor is cut up
    v = {k: inline_helpers(mir, x) for k, x in v0.items()}
    res.inst(rule, "empty|fields", w, True, "%s" % {k: x[:110] for k, x in v.items()})
    if not re.match(r"^param\d+\.start$", v.get("start", "")):
        res.violate(rule, "empty|start", w, "the table's start state must be the automaton's start; found `%s`" % v.get("start"))
    mp = re.match(r"^(param\d+)\.start$", v.get("start", ""))
    M = mp.group(1) if mp else "param1"
    LEN = r"(?:slice|Vec)::len"
    ST = r"(?:Deref@Oset::deref\()?%s\.states\)?" % re.escape(M)
    n = 0
    for (fld, lst, dflt, plus) in (("actions", "terminals", "Action::Err{}", True), ("gotos", "nonterminals", "Goto::Err{}", False)):
        L = re.escape(v.get(lst, "?"))
        width = (r"\(%s\(%s\) AddWithOverflow const\(1_usize\)\)\.0" % (LEN, L)) if plus else (r"%s\(%s\)" % (LEN, L))
        pat = r"^vec::from_elem\(%s, \(%s\(%s\) MulWithOverflow %s\)\.0\)$" % (re.escape(dflt), LEN, ST, width)
        ok = re.match(pat, v.get(fld, "")) is not None
        n += 1
        res.inst(rule, "empty|%s" % fld, w, True, v.get(fld, "")[:200])
        if not ok:
            res.violate(rule, "empty|%s" % fld, w, "unwritten cells must be `%s` and the `%s` array must have states x width cells with the width of the table's own `%s` list%s; found `%s`" % (dflt, fld, lst, " plus one" if plus else "", v.get(fld, "")[:240]))
    res.floor("empty array constructors", n, 2)


def check_index(mir, res, rule):
    R = roles_of(mir)
    # reader / writer / index function of each array, found by signature: (&Table, state, symbol) -> Action|Goto,
    # (&mut Table, state, symbol, Action|Goto), (&Table, state, symbol) -> usize
    by = {"action": R.table_action, "set_action": R.table_set_action, "action_index": R.table_action_index,
          "goto": R.table_goto, "set_goto": R.table_set_goto, "goto_index": R.table_goto_index, "state_count": R.table_state_count}
    by = {k: v for k, v in by.items() if v is not None}
    n = 0
    for (rd, wr, ix, arr) in (("action", "set_action", "action_index", "actions"), ("goto", "set_goto", "goto_index", "gotos")):
        if not all(k in by for k in (rd, wr, ix)):
            res.floor("anchor: Table::%s/%s/%s" % (rd, wr, ix), 0, 1)
            continue
        n += 1
        IX = short_path(by[ix].path)
        r_ = canon(Exprs(by[rd]).local(0))
        want_r = "Index@Vec::index(param1.%s, %s(param1, param2, param3))" % (arr, IX)
        res.inst(rule, "reader|%s" % rd, by[rd].where, True, r_)
        if r_ != want_r:
            res.violate(rule, "reader|%s" % rd, by[rd].where, "the reader must return `%s[%s(state, symbol)]`; found `%s`" % (arr, IX, r_[:200]))
        w = by[wr]
        exw = Exprs(w)
        im = [c for c in w.calls() if (c.rpath or "").endswith("IndexMut<I>>::index_mut")]
        okw = len(im) == 1 and [canon(exw.operand(a)) for a in im[0].args] == ["param1.%s" % arr, "%s(param1, param2, param3)" % IX]
        stores = []
        for b in w.blocks:
            if b["cleanup"]:
                continue
            for s_ in b["stmts"]:
                if s_["k"] == "assign" and s_["pl"]["p"]:
                    stores.append(canon(exw.rvalue(s_["rv"], 0, ())))
        okw = okw and stores == ["param4"]
        res.inst(rule, "writer|%s" % wr, w.where, True, "index_mut args ok=%s stores=%s" % (okw, stores))
        if not okw:
            res.violate(rule, "writer|%s" % wr, w.where, "the writer must store its value at `%s[%s(state, symbol)]` — the same index function, same argument order as the reader" % (arr, IX))
        ri = inline_helpers(mir, canon(Exprs(by[ix]).local(0)))
        if ix == "action_index":
            W = r"\(Vec::len\(param1\.terminals\) AddWithOverflow const\(1_usize\)\)\.0"
            col = r"phi\[Option::expect\(Iterator@Iter::position\(slice::iter\(param1\.terminals\), [\w:]+::\{closure#0\}\{\(param3 as Terminal\)\.0\}\), const\(\"[^\"]*\"\)\) \| Vec::len\(param1\.terminals\)\]"
        else:
            W = r"Vec::len\(param1\.nonterminals\)"
            col = r"Option::expect\(Iterator@Iter::position\(slice::iter\(param1\.nonterminals\), [\w:]+::\{closure#0\}\{param3\}\), const\(\"[^\"]*\"\)\)"
        oki = re.match(r"^\(\(param2\.0 MulWithOverflow %s\)\.0 AddWithOverflow %s\)\.0$" % (W, col), ri) is not None
        res.inst(rule, "index|%s" % ix, by[ix].where, True, ri[:240])
        if not oki:
            res.violate(rule, "index|%s" % ix, by[ix].where, "the index must be state x width + column with the column drawn from the list whose length is the width (end of input = last column); found `%s`" % ri[:260])
        cl = [g for g in mir.fns.values() if g.kind == "Closure" and g.parent == by[ix].key]
        for g in cl:
            rc = canon(Exprs(g).local(0))
            res.inst(rule, "index|%s|position-test" % ix, g.where, True, rc)
            if not re.match(r"^[\w:]*eq\(param2, param1\.0\)$", rc):
                res.violate(rule, "index|%s|position-test" % ix, g.where, "the column of a symbol must be the position of the element equal to it; found `%s`" % rc[:160])
    if "state_count" in by:
        rs = inline_helpers(mir, canon(Exprs(by["state_count"]).local(0)))
        res.inst(rule, "state-count", by["state_count"].where, True, rs)
        if rs != "(Vec::len(param1.actions) Div (Vec::len(param1.terminals) AddWithOverflow const(1_usize)).0)":
            res.violate(rule, "state-count", by["state_count"].where, "the number of states must be the action array's length divided by its row width; found `%s`" % rs)
    res.floor("table reader/writer pairs", n, 2)


def check_kinds(ctx, syn, efile, ts, res, rule, prule, mir=None):
    from .c05 import is_index
    mir = mir or Mir(ctx["facts"]["mir"])
    R = roles_of(mir)
    # method names of the table's accessors as the emitter's source spells them (found by signature, roles.py)
    # (the syntax tree is loaded with role functions under their canonical names, see kv/syn.py)
    SC = "state_count"
    RD = {"action": "action", "goto": "goto"}
    fmt = [t for t in ts if t.is_format]
    for t in fmt:
        if t.tokens is None:
            t.tokens = tpl.lex_segments(t.segs)
    fns = {fn["name"]: fn for (p, impl, fn) in syn.all_fns(path=efile)}
    # (1) `{name} = {i},` variant lines: i is the enumerate position over the complete list
    n_kind = 0
    for t in fmt:
        tk = t.tokens
        if len(tk) == 4 and tk[1].s == "=" and tk[3].s == "," and tk[2].k == "ph":
            n_kind += 1
            idx = tk[2].ph
            b = tpl.binding(t, idx)
            key = "numbering|%s" % t.fn
            fn = fns.get(t.fn)
            chain_txt = None
            if fn is not None:
                for m in nodes(fn["body"], "MethodCall"):
                    if m["method"] == "map" and any(id(x) == id(t.node) for x in nodes(m["args"][0], "Macro")):
                        root, chain = method_chain(m)
                        chain_txt = (unparse(root) + "." + ".".join(c[1] for c in chain)).replace(" ", "")
            ok = False
            if chain_txt is not None:
                if re.match(r"^self\.file\.(terminal_enum\.variants|nonterminals)\.iter\.enumerate\.map$", chain_txt):
                    ok = is_index(t, idx)
                elif re.match(r"^\(?0\.\.self\.(table\.%s\(\)|\w+\(\))\)?\.map$" % SC, chain_txt):
                    # closure parameter itself is the position; the variant name must carry the same number
                    name_ph = [p_[1] for p_ in (tk[0].parts if tk[0].k == "mixed" else []) if p_[0] == "ph"]
                    ok = b is not None and bool(name_ph) and name_ph[-1] == idx
                    mc = re.match(r"^\(?0\.\.self\.(\w+)\(\)\)?\.map$", chain_txt)
                    if ok and mc:
                        # the count behind the range is the number of rules: one per struct, one per enum variant
                        cf = [g for g in mir.fns.values() if g.name == mc.group(1) and g.kind == "AssocFn" and g.file.endswith(efile.rsplit("/", 1)[-1])]
                        rc = canon(Exprs(cf[0]).local(0)) if len(cf) == 1 else "?"
                        cls = [canon(Exprs(g).local(0)) for g in mir.fns.values() if g.kind == "Closure" and cf and g.parent == cf[0].key]
                        okc = (re.match(r"^Iterator::sum\(Iterator::map\(slice::iter\(param1\.file\.nonterminals\), [\w:]+::\{closure#0\}\{\}\)\)$", rc) is not None and len(cls) == 1
                               and set(cls[0][4:-1].split(" | ")) == {"Vec::len((param2 as Enum).0.variants)", "const(1_usize)"}) or re.match(r"^Iterator(@\w+)?::count\(%s\(param1\.file\)\)$" % R.sp("file_get_rules"), rc) is not None
                        res.inst(rule, "rule-count|%s" % mc.group(1), cf[0].where if cf else t.where, True, "%s ; %s" % (rc[:120], cls))
                        if not okc:
                            res.violate(rule, "rule-count|%s" % mc.group(1), cf[0].where if cf else t.where, "the number of rule-kind variants must be the number of rules (one per struct, one per enum variant of every declared nonterminal); `%s` computes `%s` %s — a dispatch arm then names a variant that does not exist, or reductions are numbered past the enum" % (mc.group(1), rc[:160], cls))
            res.inst(rule, key, t.where, True, "%s ; discriminant {%s}" % (chain_txt, idx))
            if not ok:
                res.violate(rule, key, t.where, "kind/state variants must be numbered by their position in the complete list (`%s` with `{%s}`): a table column or row then belongs to another symbol or state" % (chain_txt, idx))
    res.floor("numbered variant templates (terminal kinds, nonterminal kinds, states, rule kinds)", n_kind, 4)
    # (2) rows ascend over all states; each cell is looked up under its own row state and column symbol
    n_cell = 0
    all_f = list(syn.all_fns(path=efile))

    def closure_and_source(fn_, call_):
        """(parameter text of the innermost closure of fn_ containing call_, the chain it is mapped over) or (None, None)"""
        encl_ = [c for c in nodes(fn_["body"], "Closure") if any(x is call_ for x in nodes(c["body"], "MethodCall"))]
        if not encl_:
            return None, None
        cp_ = unparse(encl_[-1]["inputs"][0]).replace(" ", "") if encl_[-1]["inputs"] else None
        src_ = None
        for mm in nodes(fn_["body"], "MethodCall"):
            if mm["method"] == "map" and mm["args"] and mm["args"][0] is encl_[-1]:
                root, chain = method_chain(mm["recv"])
                src_ = (unparse(root) + "".join("." + c[1] for c in chain)).replace(" ", "")
        return cp_, src_

    def state_params(fn_):
        return [i["pat"]["name"] for i in fn_["inputs"] if "pat" in i and i["pat"].get("k") == "PIdent" and "StateIndex" in (i.get("ty") or "")]

    for (p, impl, fn) in all_f:
        for m in nodes(fn["body"], "MethodCall"):
            if not (m["method"] in RD and unparse(m["recv"]).replace(" ", "") == "self.table" and len(m["args"]) == 2):
                continue
            mrole = RD[m["method"]]
            n_cell += 1
            a0, a1 = [unparse(a).replace(" ", "") for a in m["args"]]
            sp = state_params(fn)
            cp, src = closure_and_source(fn, m)
            row_fn = fn
            if cp is None:
                # the look-up sits in an item function `f(state, symbol)`; the row function maps it over the list
                others = [i["pat"]["name"] for i in fn["inputs"] if "pat" in i and i["pat"].get("k") == "PIdent" and i["pat"]["name"] not in sp]
                callers = [(p2, fn2, c2) for (p2, impl2, fn2) in all_f for c2 in nodes(fn2["body"], "MethodCall") if c2["method"] == fn["name"] and ident_of(c2["recv"]) == "self" and fn2 is not fn]
                if bool(sp) and a0 == sp[0] and len(others) == 1 and a1 == others[0] and len(callers) == 1 and len(callers[0][2]["args"]) == 2:
                    p2, fn2, c2 = callers[0]
                    cp2, src2 = closure_and_source(fn2, c2)
                    b0, b1 = [unparse(a).replace(" ", "") for a in c2["args"]]
                    sp2 = state_params(fn2)
                    if cp2 is not None and bool(sp2) and b0 == sp2[0] and b1 == cp2:
                        cp, src, row_fn = a1, src2, fn2  # (a1 is the item function's own symbol parameter, fed with the closure parameter)
            key = "cell|%s" % fn["name"]
            want_src = {"action": r"^self\.table\.terminals\.iter\.map\.chain$", "goto": r"^self\.table\.nonterminals\.iter$"}[mrole]
            ok = bool(sp) and a0 == sp[0] and a1 == cp and src is not None and re.match(want_src, src) is not None
            res.inst(rule, key, "%s:%d" % (efile, m["line"]), True, "%s(%s, %s) over %s" % (m["method"], a0, a1, src))
            if not ok:
                res.violate(rule, key, "%s:%d" % (efile, m["line"]), "a cell must be looked up under the row's own state (`%s`) and the column's own symbol (`%s`), columns in list order; found `%s(%s, %s)` over `%s`" % (sp[0] if sp else "?", cp, m["method"], a0, a1, src))
            # callers of the row function: rows over 0..state_count ascending with StateIndex(i)
            for (p2, impl2, fn2) in all_f:
                for c2 in nodes(fn2["body"], "MethodCall"):
                    if c2["method"] == row_fn["name"] and ident_of(c2["recv"]) == "self" and fn2 is not row_fn:
                        ip, rows = closure_and_source(fn2, c2)
                        arg = unparse(c2["args"][0]).replace(" ", "") if c2["args"] else None
                        okr = arg == "StateIndex(%s)" % ip and rows is not None and re.match(r"^\(?0\.\.self\.table\.%s\(\)\)?$" % SC, rows) is not None
                        res.inst(rule, "rows|%s" % fn2["name"], "%s:%d" % (efile, c2["line"]), True, "%s(%s) over %s" % (row_fn["name"], arg, rows))
                        if not okr:
                            res.violate(rule, "rows|%s" % fn2["name"], "%s:%d" % (efile, c2["line"]), "row i must be the row of state i for i ascending over all states; found `%s(%s)` over `%s`" % (row_fn["name"], arg, rows))
    res.floor("table cell look-ups in the emitter", n_cell, 2)
    # (3) the initial stack holds the table's start state
    n_start = 0
    for t in fmt:
        tk = t.tokens
        for i in range(len(tk) - 6):
            if tk[i].s == "vec" and tk[i + 1].s == "!" and tk[i + 2].s == "[" and tk[i + 4].s == "::" and tk[i + 5].k == "mixed" and tk[i + 6].s == "]":
                phs = [p_[1] for p_ in tk[i + 5].parts if p_[0] == "ph"]
                if not phs:
                    continue
                d = tpl.resolve_text(t, phs[-1]).replace(" ", "")
                if "start" not in d and "start" not in phs[-1]:
                    continue
                n_start += 1
                ok = re.match(r"^payload:StateIndex#0of(self\.)?table\.start$", d) is not None
                res.inst(rule, "start-state", t.where, True, d)
                if not ok:
                    res.violate(rule, "start-state", t.where, "the initial state stack must hold the table's start state; `{%s}` is `%s`" % (phs[-1], d))
    res.floor("initial state stack template", n_start, 1)
    # (4) payload-blind look-ahead kind
    n_pay = 0
    for t in fmt:
        tk = t.tokens
        # {T} :: {name} ( _ ) => Self :: {name} ,
        if len(tk) == 11 and tk[1].s == "::" and tk[3].s == "(" and tk[5].s == ")" and tk[6].s == "=>" and tk[7].s == "Self" and tk[8].s == "::" and tk[10].s == ",":
            n_pay += 1
            ok = tk[4].s == "_" and tk[2].k == tk[9].k == "ph" and tk[2].ph == tk[9].ph
            res.inst(prule, "kind-of-token|%s" % t.fn, t.where, True, t.text.strip())
            if not ok:
                res.violate(prule, "kind-of-token|%s" % t.fn, t.where, "the look-ahead kind of a token must be the same-named kind and must not look at the payload (`(_)`); found `%s`" % t.text.strip())
    res.floor("token -> look-ahead kind arm templates", n_pay, 1)


def import_violations(ctx, res, modname, pid, keep=None, what=""):
    """run another property's check on the same facts in dry mode; copy the violations whose rule passes `keep`"""
    import importlib
    from .. import report
    mod = importlib.import_module("kv.props." + modname)
    old = (report.DRY, report.LAST)
    report.DRY = True
    try:
        mod.check(ctx)
        vs = list(report.LAST or [])
    finally:
        report.DRY, report.LAST = old
    vs = [v for v in vs if keep is None or keep(v.rule)]
    res.inst("imported", "%s|%s" % (pid, what), "", True, "%d violations" % len(vs))
    for v in vs:
        res.violate(v.rule, v.key, v.where, v.msg, v.detail)


def run_rules(ctx, res):
    REN, GOTO, MOVE, EMPTY, IDX, KINDS, PAY = "R-C01-renumber", "R-C01-goto", "R-C01-move", "R-C01-empty", "R-C01-index", "R-C01-kinds", "R-C01-payload"
    res.rule(REN, "the normaliser takes start, state order and every transition end through the updater of one sort of the automaton's own state list; a renumbered transition is {update(from), update(to), same symbol}; the updater's map lists the new position in ascending order of the old position and update(i) = map[i]")
    res.rule(GOTO, "the goto filler iterates all transitions and enters (transition.from, the transition's own nonterminal) -> Goto::State(transition.to)")
    res.rule(MOVE, "the final table is the empty table of the same automaton and file with every entry of the builder's two maps written under its own key with its own value")
    res.rule(EMPTY, "the empty table has start = automaton start, arrays of states x (terminals + 1) error actions and states x nonterminals empty gotos, sized from the table's own lists")
    res.rule(IDX, "Table::action/set_action and goto/set_goto address the array through the same index function with the same argument order; index = state x width + column, column = position of the equal element in the list whose length (+1 for end of input, which takes the last column) is the width; state_count = array length / width")
    res.rule(KINDS, "emitted kind, state and rule-kind variants are numbered by their position in the complete list; rows are written for i ascending over all states as StateIndex(i); each cell is looked up under the row's own state and the column's own symbol in list order; the initial stack holds table.start")
    res.rule(PAY, "the look-ahead kind of a token is the same-named kind and ignores the payload")
    res.rule("imported", "necessary conditions decided by other checks on the same facts, reported here under their own rule ids: C17 N1-N6, C11 (look-ahead/action pairing, forwarding, context), C04 (single guarded writer, equality, exhaustive scan), C03 (driver loop, end-of-input column), C02 (pops, truncate, rule numbering, rule list), C05 (array dimensions)")
    mir = Mir(ctx["facts"]["mir"])
    check_renumber(mir, res, REN)
    check_goto_fill(mir, res, GOTO)
    check_move(mir, res, MOVE)
    check_empty(mir, res, EMPTY)
    check_index(mir, res, IDX)
    from .c03 import load_templates
    syn, efile, ts, consts = load_templates(ctx)
    if efile is None:
        res.floor("anchor: emitter file", 0, 1)
    else:
        check_kinds(ctx, syn, efile, ts, res, KINDS, PAY, mir)


def check(ctx):
    res = Result("C01", ctx["tier"], "other", ctx["seed"])
    run_rules(ctx, res)
    import_violations(ctx, res, "c17", "C17", None, "N1-N6")
    import_violations(ctx, res, "c11", "C11", lambda r: r.startswith("R-C11-") or r == "floor", "pairing")
    import_violations(ctx, res, "c04", "C04", lambda r: r.startswith("R-C04-"), "writer/eq/scan")
    import_violations(ctx, res, "c03", "C03", lambda r: r.startswith("R-C03-") or r == "floor", "driver")
    import_violations(ctx, res, "c02", "C02", lambda r: r in ("R-C02-pops", "R-C02-truncate", "R-C02-ruleidx", "R-C02-rules"), "pops/truncate/ruleidx/rules")
    import_violations(ctx, res, "c05", "C05", lambda r: r == "R-C05-dims", "dims")
    res.assume("not decided: that the automaton is exactly the LALR(1) automaton and hence that acceptance equals derivability — only the listed necessary conditions of every stage; sufficiency would need the algorithm's correctness proof (C17)")
    res.assume("the fixed text of the emitted driver loop is pinned by the snapshot tests; what is decided about it are the placeholder-dependent parts (C03 rules)")
    return finish(res, "Clause-level: structural necessary conditions of language equality along the whole pipeline (rule list, LALR construction clauses, renumbering, table filling, index functions, emitted index spaces, reduction pops, driver) decided on MIR value expressions and on the emitter's templates. Acceptance = derivability itself is not decided.")
