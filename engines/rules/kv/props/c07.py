"""C07 — generate is total: sound may-panic / may-diverge inventory over everything reachable from
generate.  Every site must be discharged by a named invariant whose establishing rule is checked
on the same run; unmatched sites fail closed."""
import re

from ..mir import Mir, Exprs, canon, strip_transparent, Call, natural_loops, short_path, control_deps_transitive, parse_at, change_flag_condition
from ..roles import roles_of
from ..report import Result, finish

PANIC_FNS = ("std::rt::panic_fmt", "core::panicking::panic", "core::panicking::panic_fmt", "std::rt::begin_panic", "core::panicking::panic_display",
             "core::panicking::panic_str", "core::panicking::unreachable_display", "core::panicking::assert_failed", "core::panicking::panic_explicit",
             "core::panicking::panic_nounwind", "std::process::abort", "std::process::exit", "core::panicking::panic_bounds_check", "core::option::unwrap_failed",
             "core::option::expect_failed", "core::result::unwrap_failed", "std::panic::panic_any", "std::panic::resume_unwind")
PANIC_METHODS = {
    "std::option::Option::<T>::": ("unwrap", "expect", "unwrap_unchecked"),
    "std::result::Result::<T, E>::": ("unwrap", "expect", "unwrap_err", "expect_err", "into_ok", "unwrap_unchecked"),
    "std::vec::Vec::<T, A>::": ("insert", "remove", "swap_remove", "drain", "split_off", "splice", "extend_from_within", "dedup_by_key_unchecked"),
    "std::string::String::": ("insert", "insert_str", "remove", "drain", "split_off", "truncate", "replace_range"),
    "std::collections::VecDeque::<T, A>::": ("swap", "split_off", "drain", "range", "rotate_left", "rotate_right"),
    "core::slice::<impl [T]>::": ("split_at", "split_at_mut", "copy_from_slice", "clone_from_slice", "swap", "chunks", "chunks_exact", "chunks_mut", "windows", "rotate_left", "rotate_right", "select_nth_unstable", "copy_within", "swap_with_slice", "rchunks"),
    "std::slice::<impl [T]>::": ("split_at", "copy_from_slice", "swap", "chunks", "windows", "concat_unchecked"),
    "core::str::<impl str>::": ("split_at", "split_at_mut", "slice_unchecked"),
    "std::iter::Iterator::": ("step_by",),
    "std::char::methods::<impl char>::": ("from_digit", "to_digit", "from_u32_unchecked"),
    "std::cell::RefCell::<T>::": ("borrow", "borrow_mut"),
    "std::num::NonZero::<T>::": ("new_unchecked",),
}
ASSERT_IGNORED = ("MisalignedPointerDereference", "NullPointerDereference")


def is_index_call(p):
    return bool(re.search(r"std::ops::Index(Mut)?<", p) or re.search(r"impl std::ops::Index(Mut)?<", p))


def is_panic_site(c):
    p = c.rpath or ""
    if p in PANIC_FNS or (c.path or "") in PANIC_FNS:
        return "panic"
    if is_index_call(p):
        return "index"
    for prefix, names in PANIC_METHODS.items():
        if p.startswith(prefix) and p[len(prefix):] in names:
            return "method"
    return None


class Ctx:
    pass


def cd_tests(fn, ex, bb, cdt):
    """[(canon of the discriminant, taken value or 'otherwise')] guarding block bb (transitively)"""
    out = []
    for (a, s_) in cdt.get(bb, ()):
        t = fn.blocks[a]["term"]
        if t["k"] != "switch":
            continue
        val = None
        for (v, tb) in t["targets"]:
            if tb == s_:
                val = v
        out.append((canon(ex.operand(t["discr"])), val if val is not None else "otherwise"))
    return out


def run_rules(mir, res, cx):
    INV, LOOPS, REC = "R-C07-inventory", "R-C07-loops", "R-C07-rec"
    res.rule(INV, "every call of a panicking std API (unwrap/expect, panic!, Index/IndexMut, Vec::insert/remove/…, slice splitting, …) and every Assert terminator (overflow, bounds, division) in code reachable from generate is matched by a discharge rule naming an invariant; an unmatched site is a violation")
    res.rule(LOOPS, "every natural loop is a `for` over a finite std iterator or one of the reviewed worklist/fixpoint loops identified by role (exit test on VecDeque::pop_front, on the change flag of a local fixpoint step, on HashSet::contains of a value that changes every iteration)")
    res.rule(REC, "every call-graph cycle reachable from generate is in the reviewed set: tokenizer re-dispatch (depth <= 2, checked), CST->AST conversions (depth = nesting of the parsed tree), the type printer (depth = type nesting), derived impls on recursive types")
    gens = [f for f in mir.fns.values() if f.pub and f.name == "generate" and f.kind == "Fn"]
    if len(gens) != 1:
        res.floor("anchor: pub fn generate", len(gens), 1)
        return
    reach = mir.reachable_from([gens[0].key], include_trait_impls=True)
    res.count("bodies reachable from generate (incl. all trait impls)", len(reach))
    n_sites = 0
    n_gen = 0
    per_rule = {}
    undischarged = 0
    for k in sorted(reach):
        fn = mir.fns[k]
        generated = cx.generated_file is not None and fn.file.endswith(cx.generated_file)
        ex = Exprs(fn)
        cdt = None
        sites = []
        for c in fn.calls():
            kind = is_panic_site(c)
            if kind:
                sites.append(("call", kind, c.bb, c, c.where))
        for (bb, t) in fn.asserts():
            if t["akind"] in ASSERT_IGNORED:
                continue
            f_, l_ = parse_at(t["span"]["at"])
            sites.append(("assert", t["akind"] + (":" + t["detail"] if t["detail"] else ""), bb, t, "%s:%d" % (f_, l_)))
        if not sites:
            continue
        if generated:
            n_gen += len(sites)
            for s_ in sites:
                if not cx.c09_ok:
                    res.violate(INV, "D-parser|%s|%s" % (fn.path, s_[1]), s_[4], "site in the generated parser is not discharged because C09 (translation validation of the tables and reduce arms) failed on this run: %s" % cx.c09_why)
                    undischarged += 1
            continue
        cdt = control_deps_transitive(fn)
        ordn = {}
        for (cls, kind, bb, obj, where) in sites:
            n_sites += 1
            if cls == "call":
                desc = short_path(obj.rpath)
                args = [canon(ex.operand(a)) for a in obj.args]
            else:
                desc = kind
                args = [canon(ex.operand(o)) for o in obj["ops"]]
            tests = cd_tests(fn, ex, bb, cdt)
            ordn[desc] = ordn.get(desc, 0) + 1
            key = "%s|%s|#%d" % (fn.path, desc, ordn[desc])
            rule, ok, why = discharge(mir, cx, fn, ex, cls, kind, bb, obj, desc, args, tests)
            if rule is None:
                undischarged += 1
                res.violate(INV, "undischarged|" + key, where, "may-panic site `%s(%s)` in %s is not covered by any discharge rule (guards: %s)" % (desc, ", ".join(a[:80] for a in args), fn.path, [t_[0][:60] for t_ in tests][:4]))
                continue
            per_rule[rule] = per_rule.get(rule, 0) + 1
            res.inst(INV, key, where, True, "%s: %s" % (rule, why[:160]))
            if not ok:
                undischarged += 1
                res.violate(INV, "%s|%s" % (rule, key), where, "may-panic site `%s(%s)`: discharge rule %s applies but its establishing rule fails: %s" % (desc, ", ".join(a[:80] for a in args), rule, why))
    res.count("may-panic sites outside the generated parser", n_sites)
    res.count("may-panic sites inside the generated parser (discharged together by C09)", n_gen)
    res.extra["sites_per_discharge_rule"] = per_rule
    res.floor("may-panic sites examined outside the generated parser", n_sites, 40)
    res.floor("may-panic sites in the generated parser", n_gen, 100)

    # ---- loops
    W_EXPECT = {}
    n_loops = 0
    for k in sorted(reach):
        fn = mir.fns[k]
        if cx.generated_file is not None and fn.file.endswith(cx.generated_file):
            continue
        ls = natural_loops(fn)
        if not ls:
            continue
        ex = Exprs(fn)
        for (h, body) in ls:
            n_loops += 1
            calls = [Call(fn, b, fn.blocks[b]["term"]) for b in sorted(body) if fn.blocks[b]["term"]["k"] == "call"]
            forl = [c for c in calls if c.expn and "`for` loop" in c.expn and (c.rpath or "").endswith("::next")]
            key = "%s|loop" % fn.path
            if forl:
                it = forl[0]
                root_ty = fn.local_ty(it.args[0]["pl"]["l"])["s"] if it.args and it.args[0]["k"] in ("copy", "move") and not it.args[0]["pl"]["p"] else ""
                allty = " ".join(l["ty"]["s"] for l in fn.locals)
                infinite = [w for w in ("RangeFrom", "Repeat<", "Cycle<", "RepeatWith", "Successors", "FromFn", "iter::Repeat") if w in root_ty]
                res.inst(LOOPS, key + "|for", fn.where, False, "for over %s" % short_path(it.rpath))
                if infinite:
                    res.violate(LOOPS, key + "|infinite-iterator", fn.where, "`for` over a possibly infinite iterator (%s)" % infinite)
                continue
            exits = [(b, s_) for b in body for s_ in fn.succs(b) if s_ not in body]
            role = None
            for (b, s_) in exits:
                t = fn.blocks[b]["term"]
                if t["k"] == "switch":
                    ce = canon(ex.operand(t["discr"]))
                    if ce.startswith("discr(VecDeque::pop_front("):
                        role = "worklist(pop_front)"
                    elif re.match(r"^(Not\()?HashSet::(contains|insert)\(", ce):
                        # the tested value must change every iteration: it depends on a loop-carried counter
                        e = ex.operand(t["discr"])
                        dep = any(x.k == "cycle" or (x.k == "phi") for x in e.walk()) and "AddWithOverflow" in ce
                        # the tested value itself must be recomputed inside the loop
                        redefined = False
                        for cc in calls:
                            if (cc.rpath or "").endswith(("HashSet::<T, S, A>::contains", "HashSet::<T, S, A>::insert")) and len(cc.args) == 2:
                                from ..mir import borrow_root
                                root, via = borrow_root(fn, cc.args[1])
                                l = root["l"] if root is not None else None
                                seen_l = set()
                                while l is not None and l not in seen_l:
                                    seen_l.add(l)
                                    ds = fn.defs(l)
                                    if any(d_[1] in body for d_ in ds):
                                        redefined = True
                                        break
                                    # follow a single plain move/deref-call outside the loop
                                    nxt = None
                                    if len(ds) == 1 and ds[0][0] == "call":
                                        c0 = fn.call_at(ds[0][1])
                                        if c0.args and c0.args[0]["k"] in ("copy", "move") and (c0.rpath or "").endswith("::deref"):
                                            r2, _ = borrow_root(fn, c0.args[0])
                                            nxt = r2["l"] if r2 is not None else None
                                    l = nxt
                        if not dep and redefined:
                            # the candidate is built by appending to a fresh String inside the loop: `s.push_str(&i.to_string())`
                            # with i the loop-carried counter — the value reconstruction does not see mutation through
                            # `&mut`, so look at what is appended to the tested local
                            from ..mir import borrow_root
                            tested = set()
                            for cc in calls:
                                if (cc.rpath or "").endswith(("HashSet::<T, S, A>::contains", "HashSet::<T, S, A>::insert")) and len(cc.args) == 2:
                                    r0, _v = borrow_root(fn, cc.args[1])
                                    l0 = r0["l"] if r0 is not None else None
                                    seen0 = set()
                                    while l0 is not None and l0 not in seen0:
                                        seen0.add(l0)
                                        tested.add(l0)
                                        ds0 = fn.defs(l0)
                                        nxt0 = None
                                        if len(ds0) == 1 and ds0[0][0] == "call":
                                            c0 = fn.call_at(ds0[0][1])
                                            if c0.args and c0.args[0]["k"] in ("copy", "move") and (c0.rpath or "").endswith("::deref"):
                                                r2, _ = borrow_root(fn, c0.args[0])
                                                nxt0 = r2["l"] if r2 is not None else None
                                        l0 = nxt0
                            for cc in calls:
                                if (cc.rpath or "").endswith(("String::push_str", "String::push")) and len(cc.args) == 2 and cc.bb in body:
                                    r1, _v = borrow_root(fn, cc.args[0])
                                    if r1 is not None and r1["l"] in tested:
                                        ae = ex.operand(cc.args[1])
                                        if any(x.k in ("cycle", "phi") for x in ae.walk()) and "AddWithOverflow" in canon(ae):
                                            dep = True
                        role = "fresh-name(contains)" if (dep and redefined) else "contains-without-progress"
                    elif change_flag_condition(ce) is not None:
                        # boolean flag returned by a local step function
                        role = "fixpoint(change-flag)"
            fkey = "crate"
            W_EXPECT[(fkey, role)] = W_EXPECT.get((fkey, role), 0) + 1
            res.inst(LOOPS, key + "|" + str(role), fn.where, True, "reviewed role: %s" % role)
            if role is None or role == "contains-without-progress":
                res.violate(LOOPS, key + "|unclassified", fn.where, "loop in %s is neither a `for` over a finite iterator nor a reviewed worklist/fixpoint loop (exit conditions: %s)%s" % (fn.path, [canon(ex.operand(fn.blocks[b]["term"]["discr"]))[:100] for (b, s_) in exits if fn.blocks[b]["term"]["k"] == "switch"], "; the tested name does not depend on a counter that advances in every iteration" if role else ""))
    # counted over the crate, by role (not by file: moving a reviewed loop to another file changes nothing)
    REVIEWED = {("crate", "worklist(pop_front)"): 2, ("crate", "fixpoint(change-flag)"): 1, ("crate", "fresh-name(contains)"): 1}
    for (fk, role), n in W_EXPECT.items():
        if role and role != "contains-without-progress" and n > REVIEWED.get((fk, role), 0):
            res.violate(LOOPS, "unreviewed|%s|%s" % (fk, role), fk, "%d loops of role %s in %s, %d were reviewed (A-L1..3): a new worklist/fixpoint loop needs a termination argument" % (n, role, fk, REVIEWED.get((fk, role), 0)))
    res.count("natural loops classified", n_loops)
    res.floor("natural loops classified", n_loops, 15)

    # ---- recursion
    sccs = mir.sccs(reach)
    for comp in sccs:
        fns = [mir.fns[k] for k in comp]
        files = sorted(set(f.file.rsplit("/", 1)[-1] for f in fns))
        key = "scc|%s|%d" % (",".join(files), len(comp))
        if cx.generated_file is not None and all(f.file.endswith(cx.generated_file) for f in fns):
            res.inst(REC, key, "", False, "inside the generated parser")
            continue
        if all(f.derived for f in fns):
            res.inst(REC, key, "", True, "derived impls on a recursive type (depth = nesting)")
            continue
        if all(f.trait == "std::convert::From" and f.inputs and f.inputs[0]["head"].startswith("parser::") for f in fns):
            res.inst(REC, key, fns[0].where, True, "CST->AST conversion (depth = depth of the parsed tree)")
            continue
        if all((f.kind == "Closure" and mir.fns.get(f.root) in fns) or (f.kind == "Fn" and len(f.inputs) == 1 and f.inputs[0]["s"].startswith("&") and "data::ast::" in f.inputs[0]["s"] and (f.output or {}).get("s") == "std::string::String") for f in fns):
            # a printer recursing over the parsed type tree by shared reference: depth = nesting of the type
            res.inst(REC, key, fns[0].where, True, "type printer (depth = type nesting)")
            continue
        if cx.roles.tokenizer_type() is not None and all(f.impl is not None and f.impl["self_ty"]["head"] == cx.roles.tokenizer_type() for f in fns):
            ok, why = tokenizer_redispatch_bounded(mir, fns)
            res.inst(REC, key, fns[0].where, True, "tokenizer re-dispatch: %s" % why)
            if not ok:
                res.violate(REC, key + "|unbounded", fns[0].where, "tokenizer re-dispatch recursion is not bounded: %s" % why)
            continue
        res.violate(REC, key + "|unreviewed", fns[0].where, "unreviewed recursion: %s" % [f.path for f in fns][:6])
    res.count("call-graph cycles classified", len(sccs))
    res.floor("call-graph cycles classified", len(sccs), 5)


def tokenizer_redispatch_bounded(mir, fns):
    """the handler of the initial state re-dispatches nowhere, and the flush does not dispatch:
    so a re-dispatch (flush; dispatch) always lands in the initial state's handler and stops."""
    keys = {f.key for f in fns}
    # the dispatcher: the member called by all other members
    cg = mir.callgraph()
    disp = [f for f in fns if all(f.key in cg.get(g.key, ()) for g in fns if g.key != f.key)]
    relayed = []
    if len(disp) != 1:
        # handlers may re-dispatch through a shared relay (`flush; dispatch`): the dispatcher is then the member that
        # calls the most members; everyone else calls it directly or calls only a member that does
        ranked = sorted(fns, key=lambda f: -len([k for k in cg.get(f.key, ()) if k in keys]))
        d0 = ranked[0]
        direct0 = [h for h in fns if h.key != d0.key and d0.key in cg.get(h.key, ())]
        rest0 = [h for h in fns if h.key != d0.key and h not in direct0]
        if direct0 and all({k for k in cg.get(h.key, ()) if k in keys} <= {r.key for r in direct0} and {k for k in cg.get(h.key, ()) if k in keys} for h in rest0):
            disp = [d0]
            relayed = rest0
        else:
            return False, "no single dispatcher in the cycle"
    d = disp[0]
    # handlers the dispatcher calls that are NOT in the cycle never re-dispatch; those in the cycle do.
    # every cyclic handler must call the flush *before* the dispatcher, and the flush must end in the initial state
    cx_initial = None
    for h in fns:
        if h.key == d.key or h in relayed:
            continue  # (a relayed handler re-dispatches only through a member checked here)
        order = [c for c in h.calls() if c.local]
        names = [c.rkey for c in order]
        if d.key not in names:
            return False, "%s is in the cycle but does not call the dispatcher" % h.path
        i = names.index(d.key)
        if i == 0:
            return False, "%s re-dispatches without flushing first" % h.path
        flush = mir.fns.get(names[i - 1])
        if flush is None or flush.key in keys:
            return False, "%s: the call before the re-dispatch is not the (acyclic) flush" % h.path
        # the flush assigns the initial state (the one the constructor sets) on its success path
        initial = None
        # by role: the tokenizer struct is the flush's own `Self`; its state field is the one field of enum type
        owner = flush.impl["self_ty"]["head"] if flush.impl else None
        sfield = None
        oadt = mir.adts.get(owner) or {}
        if oadt.get("kind") == "Struct":
            enum_fields = [f_["name"] for f_ in oadt["variants"][0]["fields"] if (mir.adts.get(f_["ty"].get("head")) or {}).get("kind") == "Enum"]
            sfield = enum_fields[0] if len(enum_fields) == 1 else None
        for g in mir.fns.values():
            if g.file != flush.file or g.derived or sfield is None:
                continue
            for b in g.blocks:
                for s_ in b["stmts"]:
                    if s_["k"] == "assign" and s_["rv"]["k"] == "agg" and s_["rv"].get("ak") == "adt" and sfield in s_["rv"].get("fields", []) and s_["rv"]["adt"] == owner:
                        initial = canon(Exprs(g).operand(s_["rv"]["ops"][s_["rv"]["fields"].index(sfield)]))
        wrote = False
        fex = Exprs(flush)
        for b in flush.blocks:
            if b["cleanup"]:
                continue
            for s_ in b["stmts"]:
                if s_["k"] == "assign" and any(isinstance(e, dict) and e.get("name") == sfield and e.get("owner") == owner for e in s_["pl"]["p"]):
                    if initial is not None and canon(fex.rvalue(s_["rv"], 0, ())) == initial:
                        wrote = True
        if not wrote:
            return False, "the flush does not reset the state to the initial state (%s)" % initial
        cx_initial = initial
    # the initial state's handler is not in the cycle
    for c in d.calls():
        if c.local and c.rkey not in keys and initial_handler(mir, d, c, cx_initial):
            return True, "depth <= 2: flush resets to the initial state whose handler (%s) is outside the cycle" % mir.fns[c.rkey].name
    outside = [mir.fns[c.rkey].name for c in d.calls() if c.local and c.rkey not in keys]
    return False, "the handler of the initial state is inside the re-dispatch cycle (handlers outside: %s)" % outside


def initial_handler(mir, d, c, initial):
    """is call c of dispatcher d the arm taken for the initial state variant?"""
    if initial is None:
        return False
    m = re.match(r"^\w+::(\w+)\{\}$", initial)
    if not m:
        return False
    variant = m.group(1)
    ex = Exprs(d)
    cdt = control_deps_transitive(d)
    a = None
    for adt in mir.adts.values():
        if adt.get("kind") == "Enum" and any(v["name"] == variant for v in adt["variants"]) and parse_at((adt.get("span") or {}).get("at", "?:0:0: 0:0"))[0] == d.file:
            a = adt
    if a is None:
        return False
    idx = [i for i, v in enumerate(a["variants"]) if v["name"] == variant][0]
    dom = None
    for (blk, succ) in cdt.get(c.bb, ()):
        t = d.blocks[blk]["term"]
        if t["k"] != "switch":
            continue
        ce = canon(ex.operand(t["discr"]))
        on_state = ce.startswith("discr(param1.state")
        if not on_state and re.match(r"^discr\(phi\[param1 \| .*\]\.state", ce):
            # the dispatcher also assigns the state itself (handlers inlined into it): the flow-insensitive value of
            # `self` then mixes in those writes; the test is on the incoming state if it comes before every such write
            dom = dom or d.dominators()
            writes = [bi for bi, b in enumerate(d.blocks) if not b["cleanup"] and any(s_["k"] == "assign" and s_["pl"]["l"] == 1 and s_["pl"]["p"] for s_ in b["stmts"])]
            on_state = all(blk in dom.get(w_, ()) and w_ != blk for w_ in writes)
        if on_state:
            for (v, tb) in t["targets"]:
                if tb == succ and v == idx:
                    return True
    return False


# ------------------------------------------------------------------ discharge rules

def discharge(mir, cx, fn, ex, cls, kind, bb, obj, desc, args, tests):
    f = fn.file.rsplit("/", 1)[-1]
    # D-arith: additions/multiplications on byte offsets, counts and table sizes (A-size)
    if cls == "assert" and kind in ("Overflow:Add", "Overflow:Mul"):
        return "D-arith", True, "bounded by input length x small constants (A-size: the property's own 64 KiB / 2000 declarations bound)"
    if cls == "assert" and kind == "Overflow:Sub":
        a, b = args
        if re.match(r"^NonZero::get\(", a) and b == "const(1_usize)":
            return "D-nonzero", True, "NonZero::get() >= 1, so get() - 1 cannot underflow"
        if re.search(r"\.dollarless_position\.0$", a) and b in ('str::len(const("$"))', "const(1_usize)"):
            ok, why = cx.dollarless_ok
            return "D-span", ok, "dollarless_position is constructed only as start + 1: " + why
        return None, False, ""
    if cls == "assert" and kind in ("DivisionByZero", "RemainderByZero"):
        # divisor: find the Div in the target block
        t = obj
        tb = fn.blocks[t["target"]]
        for s_ in tb["stmts"]:
            if s_["k"] == "assign" and s_["rv"]["k"] == "bin" and s_["rv"]["op"] in ("Div", "Rem"):
                from ..mir import inline_helpers
                d = inline_helpers(mir, canon(ex.operand(s_["rv"]["b"])))
                if re.match(r"^\(.* AddWithOverflow const\(1_usize\)\)\.0$", d):
                    return "D-div", True, "divisor is `len + 1` (%s)" % d[:80]
                return "D-div", False, "divisor `%s` is not of the form x + 1" % d[:80]
        return None, False, ""
    if cls == "assert" and kind == "BoundsCheck":
        ln, ix = args
        if re.search(r"\.states\)?\)?$", ln) and re.match(r"^param\d+\.0$", ix):
            return "D-stateidx", cx.stateidx_ok[0], "state index is a position of the states vector (A-idx): " + cx.stateidx_ok[1]
        # v[i] with i the counter of `for i in 0..v.len()` over the same v
        mlen = re.match(r"^PtrMetadata\((.*)\)$", ln)
        mix = re.match(r"^\(range::next\(IntoIterator@\w+::into_iter\(Range::Range\{const\(0_usize\), (?:slice|Vec)::len\((.*)\)\}\)\) as Some\)\.0$", ix)
        if mlen and mix and mlen.group(1) == mix.group(1):
            return "D-range", True, "index is the counter of 0..len() of the indexed collection itself"
        return None, False, ""
    # calls
    c = obj
    p = c.rpath or ""
    nm = p.rsplit("::", 1)[-1]
    if kind == "panic":
        # D-dotlen: panic arm of the symbol accessor; D-gotoonce; D-tableidx guards
        if is_symbol_accessor(fn):
            ok, why = cx.dotlen_ok
            return "D-dotlen", ok, why
        if any(("HashMap::get(" in t_[0] and t_[1] == 1) or (t_[0].startswith("discr(HashMap::entry(") and t_[1] == 0) for t_ in tests) and cx.roles.builder_set_goto is not None and fn.key == cx.roles.builder_set_goto.key:
            return "D-gotoonce", True, "one goto per (state, nonterminal): transitions are a set keyed by (from, symbol, to) of a deterministic automaton (A-goto)"
        SCre = cx.roles.sp("table_state_count")
        if any((re.match(r"^\(param\d+(\.0)? Ge %s\(param1\)\)$" % SCre, t_[0]) and t_[1] != 0) or (re.match(r"^\(param\d+(\.0)? Lt %s\(param1\)\)$" % SCre, t_[0]) and t_[1] == 0) for t_ in tests):
            # `if state >= count { panic! }` or the same guard spelled `assert!(state < count)`
            return "D-tableidx", cx.stateidx_ok[0], "explicit guard `state >= state_count`; state indices are positions of the states vector (A-idx)"
        return None, False, ""
    if nm in ("unwrap", "expect") and p.startswith(("std::option::Option", "std::result::Result")):
        a0 = args[0]
        if re.match(r"^NonZero::new\(const\(([1-9]\d*)_usize\)\)$", a0):
            return "D-nonzero", True, "non-zero constant"
        m = re.match(r"^NonZero::new\(\(NonZero::get\((.*)\) SubWithOverflow const\(1_usize\)\)\.0\)$", a0)
        if m:
            want = "(NonZero::get(%s) Eq const(1_usize))" % m.group(1)
            ok = any(t_[0] == want and t_[1] == 0 for t_ in tests)
            return "D-nonzero", ok, "get() - 1 on the path where `get() == 1` is false" if ok else "the decrement is not guarded by `get() == 1` being false (guards: %s)" % [t_[0][:60] for t_ in tests]
        if re.match(r"^HashMap::get(_mut)?\((param\d+|param\d+\.first_sets), ", a0) and "FirstSet" in fn.local_ty(c.args[0]["pl"]["l"])["s"]:
            ok1, why1 = cx.ntkeys_ok
            ok2, why2 = cx.ntref_ok
            return "D-firstmap", ok1 and ok2, "FIRST map has a key for every nonterminal (%s) and every nonterminal reference is defined (%s)" % (why1, why2)
        if re.match(r"^Iterator@Iter::position\(slice::iter\(param1\.terminals\), ", a0):
            return "D-tref", cx.tref_ok[0] and cx.table_cols_ok[0], "terminal references are defined terminals (%s); table columns are all terminal variants (%s)" % (cx.tref_ok[1], cx.table_cols_ok[1])
        if re.match(r"^Iterator@Iter::position\(slice::iter\(param1\.nonterminals\), ", a0):
            return "D-ntref", cx.ntref_ok[0] and cx.table_cols_ok[0], "nonterminal references are defined nonterminals (%s); table columns are all nonterminals (%s)" % (cx.ntref_ok[1], cx.table_cols_ok[1])
        if re.match(r"^HashMap::get\(param1(\.0)?\.\w+, .*\.name\)$", a0) or re.match(r"^HashMap::get\(param1(\.0)?\.\w+, param2\.dollarless_name\)$", a0):
            return "D-tref", cx.tref_ok[0] and cx.method_map_ok[0], "method-name map is built from all terminal variants (%s); references are defined terminals (%s)" % (cx.method_map_ok[1], cx.tref_ok[1])
        if re.match(r"^%s\(param\d+(\.\w+)*\.terminal_enum, " % cx.roles.sp("terminal_get_type"), a0):
            return "D-tref", cx.tref_ok[0] and cx.get_type_ok[0], "get_type searches all terminal variants by full name (%s); references are defined terminals (%s)" % (cx.get_type_ok[1], cx.tref_ok[1])
        if re.match(r"^%s\(param1\.machine, param\d+, (?:param\d+|\(%s\(.*\.dot\) as Terminal\)\.0\.name)\)$" % (cx.roles.sp("machine_shift_dest"), cx.roles.sp("symbol_accessor")), a0):
            return "D-shiftdest", True, "every terminal right of a dot has a transition from its state (A-trans: the worklist expands every state after its last growth)"
        return None, False, ""
    if kind == "index":
        a0, a1 = args[0], args[1] if len(args) > 1 else ""
        if "str" in p and "Range" in a1:
            if cx.roles.tokenizer_file() is not None and fn.file == cx.roles.tokenizer_file():
                return "D-slice", cx.c08_ok, "tokenizer indices are char boundaries with start <= end <= len (C08 R-C08-table/-adv): %s" % cx.c08_why
            if re.match(r"^param2$", a0) and cx.roles.token_start is not None and cx.roles.token_len is not None and short_path(cx.roles.token_start.path) + "(" in a1 and short_path(cx.roles.token_len.path) + "(" in a1:
                return "D-slice", cx.c08_ok and cx.c09_ok, "error span = token start/length as stored by the tokenizer (C09 R-C09-span, C08): %s %s" % (cx.c09_why, cx.c08_why)
            return None, False, ""
        if is_symbol_accessor(fn):
            ok, why = cx.dotlen_ok
            return "D-dotlen", ok, why
        if re.search(r"\.states$", a0) and re.match(r"^param\d+\.0$", a1):
            return "D-stateidx", cx.stateidx_ok[0], "A-idx: " + cx.stateidx_ok[1]
        if re.search(r"\.index_map$", a0):
            return "D-stateidx", cx.stateidx_ok[0], "index updater is a permutation of the state positions (A-idx): " + cx.stateidx_ok[1]
        if re.search(r"\.rules$", a0) and (re.match(r"^param\d+$", a1) or re.match(r"^\([\w.]+ as Original\)\.0$", a1)):
            return "D-ruleidx", cx.ruleidx_ok[0], "rule indices are produced only by enumerate over the same rule list: " + cx.ruleidx_ok[1]
        if re.search(r"\.(actions|gotos)$", a0) and re.match(r"^(%s|%s)\(param1, " % (cx.roles.sp("table_action_index"), cx.roles.sp("table_goto_index")), a1):
            return "D-tableidx", True, "index computed by the guarded index function (state < state_count checked there, column < width); table length = states x width by construction (A-table)"
        m = re.match(r"^(Iterator::collect\(.*\)), const\(0_usize\)$", "%s, %s" % (a0, a1))
        if m:
            coll = m.group(1)
            need = [("Vec::is_empty(%s)" % coll, 0), ("(Vec::len(%s) Gt const(1_usize))" % coll, 0)]
            ok = all(any(t_[0] == n_[0] and t_[1] == n_[1] for t_ in tests) for n_ in need)
            return "D-one", ok, "index 0 after `is_empty()` and `len() > 1` early returns on the same collection" if ok else "index 0 is not dominated by both early returns (guards: %s)" % [t_[0][:50] for t_ in tests]
        return None, False, ""
    if nm == "insert" and p.startswith("std::vec::Vec") and fn.impl and fn.impl["self_ty"]["head"].endswith("::Oset"):
        return "D-binsearch", cx.c18_insert_ok, "index is the Err payload of binary_search on the same vector (C18 R-C18-insert)"
    return None, False, ""


def is_symbol_accessor(fn):
    """(fieldset, position) -> symbol: by signature (roles.symbol_accessor), or any Fieldset method that can panic"""
    sig = fn.impl is not None and not fn.impl.get("trait") and fn.impl["self_ty"]["head"].endswith("ast::Fieldset") and len(fn.inputs) == 2 and fn.inputs[1].get("s") == "usize" and "IdentOrTerminalIdent" in (fn.output or {}).get("s", "")
    return sig or (fn.impl is not None and fn.impl["self_ty"]["head"].endswith("::Fieldset") and any(c.rpath in PANIC_FNS for c in fn.calls()))


# ------------------------------------------------------------------ establishing rules

def establish(mir, ctx, res):
    cx = Ctx()
    cx.roles = roles_of(mir)
    EST = "R-C07-establish"
    res.rule(EST, "establishing rules of the invariants the discharge rules rely on (each evaluated on this run): C08/C09/C18 verdicts, R-C10-kind, R-C07-ntkeys, who-constructs rules for state/rule indices and dollarless positions, the dot/length guard of the symbol accessor, completeness of the terminal method map and table columns")
    # generated parser + C09
    from ..syn import Syn
    from .c09 import find_generated_parser
    syn = Syn(ctx["facts"]["syn"])
    gp = find_generated_parser(syn, ctx["repo"])
    cx.generated_file = gp[0][1] if gp else None
    cx.c09_ok, cx.c09_why = sub_verdict(ctx, "c09", "C09")
    cx.c08_ok, cx.c08_why = sub_verdict(ctx, "c08", "C08")
    res.inst(EST, "C09-verdict", "", True, cx.c09_why)
    res.inst(EST, "C08-verdict", "", True, cx.c08_why)
    # C18 insert
    from .c18 import find_set_adt, check_insert
    from ..report import Result as R2
    tmp = R2("C18", "quick", "proof")
    sa = find_set_adt(mir)
    okc18 = False
    if sa:
        for f in mir.fns.values():
            if f.impl and f.impl["self_ty"]["head"] == sa["path"] and f.name == "insert" and f.kind == "AssocFn":
                okc18 = check_insert(f, sa["path"], tmp) and not tmp.violations
    cx.c18_insert_ok = okc18
    res.inst(EST, "C18-insert", "", True, str(okc18))
    # R-C10-kind
    from .c10 import check_kind, validators, check_pass
    errs = [p for p in mir.adts if p.rsplit("::", 1)[-1] == "KikiErr"]
    tmp = R2("C10", "quick", "other")
    kind_ok = False
    if errs:
        gens = [f for f in mir.fns.values() if f.pub and f.name == "generate" and f.kind == "Fn"]
        V = validators(mir, errs[0])
        entry = [mir.fns[c.rkey] for c in gens[0].calls() if c.local and c.rkey in {f.key for f in V}]
        if entry:
            stage = check_pass(mir, V, entry[0], errs[0], tmp)
            check_kind(mir, stage, errs[0], tmp)
            bad = [v for v in tmp.violations if v.rule in ("R-C10-kind", "R-C10-pass") or (v.rule == "floor" and ("reference-check" in v.key or "validator" in v.key))]
            kind_ok = not bad
            why = "R-C10-kind and R-C10-pass hold" if kind_ok else "C10 fails: %s" % bad[0].msg[:160]
    cx.ntref_ok = (kind_ok, why if errs else "no KikiErr")
    cx.tref_ok = (kind_ok, why if errs else "no KikiErr")
    res.inst(EST, "R-C10-kind", "", True, cx.ntref_ok[1])
    # R-C07-ntkeys: keys of the FIRST map come from the file's nonterminal list
    cx.ntkeys_ok = check_ntkeys(mir, res, EST)
    cx.stateidx_ok = check_who_constructs(mir, res, EST, "StateIndex")
    cx.ruleidx_ok = check_rule_index(mir, res, EST)
    cx.dollarless_ok = check_dollarless(mir, res, EST)
    cx.dotlen_ok = check_dotlen(mir, res, EST)
    cx.method_map_ok = check_method_map(mir, res, EST)
    cx.get_type_ok = check_get_type(mir, res, EST)
    cx.table_cols_ok = check_table_cols(mir, res, EST)
    return cx


def sub_verdict(ctx, modname, pid):
    """evaluate another property's rules on the same facts (no evidence written)"""
    import importlib
    from ..report import Result as R2
    from ..syn import Syn
    mod = importlib.import_module("kv.props." + modname)
    r = R2(pid, "quick", "other")
    try:
        if modname == "c08":
            mod.run_rules(Syn(ctx["facts"]["syn"]), r)
        else:
            mod.run_all_rules(ctx, r)
    except Exception as e:  # a crash of the imported check is a failure of the invariant
        return False, "%s crashed: %r" % (pid, e)
    if r.violations:
        v = r.violations[0]
        return False, "%s fails (%d violations), e.g. %s: %s" % (pid, len(r.violations), v.rule, v.msg[:140])
    return True, "%s holds on this run (%d rule instances)" % (pid, len(r.instances))


def fn_of(mir, pred):
    return [f for f in mir.fns.values() if pred(f)]


def check_ntkeys(mir, res, rule):
    """the key set inserted at FIRST-map creation derives from the file's *nonterminal list*"""
    n = 0
    ok = False
    why = "no HashMap<String, FirstSet>::insert found"
    for fn in mir.fns.values():
        ex = None
        for c in fn.calls():
            if (c.rpath or "").startswith("std::collections::HashMap") and c.rpath.endswith("::insert") and c.args and c.args[0]["k"] in ("copy", "move") and not c.args[0]["pl"]["p"] and "FirstSet" in fn.local_ty(c.args[0]["pl"]["l"])["s"]:
                ex = ex or Exprs(fn)
                n += 1
                k = canon(ex.operand(c.args[1]))
                # follow local callees through their return value
                src = k
                for _ in range(4):
                    m = re.search(r"(\w+)::(\w+)\(param1\)", src)
                    if not m:
                        break
                    cal = [g for g in mir.fns.values() if g.name == m.group(2) and m.group(1) in g.path]
                    if len(cal) != 1:
                        break
                    src = canon(Exprs(cal[0]).local(0))
                elem_ok = bool(re.search(r"slice::iter\(param1\.nonterminals\)", src)) and not re.search(r"(filter|flat_map|skip|take)\(", src) and "Nonterminal::name" in closure_text(mir, src)
                ok = elem_ok
                why = "keys from `%s`" % src[:140]
                res.inst(rule, "R-C07-ntkeys", c.where, True, why)
                if not elem_ok:
                    res.violate("R-C07-ntkeys", "first-set-map-keys", c.where, "the FIRST map must get a key for every nonterminal of the file (iterate the nonterminal list and take each name, no narrowing step); keys come from `%s` — a nonterminal without rules (variant-less enum) has no entry and its lookup panics" % src[:160])
    if n != 1:
        return False, "expected one insert into the FIRST map, found %d" % n
    return ok, why


def closure_text(mir, src):
    out = []
    for m in re.finditer(r"(\w+)::\{closure#(\d+)\}", src):
        for f in mir.fns.values():
            if f.kind == "Closure" and f.path.endswith("%s::{closure#%s}" % (m.group(1), m.group(2))):
                out.append(canon(Exprs(f).local(0)))
    return " ".join(out)


def check_who_constructs(mir, res, rule, tyname):
    """every aggregate of the state-index newtype takes its operand from a position of the states vector"""
    bad = []
    n = 0
    ok_forms = (
        r"^const\(0_usize\)$",
        r"^Vec::len\(param1\.states\)$",
        r"^\(range::next\(.*Range::Range\{const\(0_usize\), (slice|Vec)::len\(.*\.states\)?\)\}\)\) as Some\)\.0$",
        r"^\(Iterator@Enumerate::next\(.*\) as Some\)\.0\.0$",
        r"^param2\.0$",  # closure over enumerate: (index, state)
        r"^IndexUpdater::update\(param\d+, .*\)$",
        r"^IndexUpdater::update\(.*\)$",
    )
    for fn in mir.fns.values():
        if fn.derived or "/parser.rs" in fn.file:
            continue
        ex = None
        for b in fn.blocks:
            if b["cleanup"]:
                continue
            for s_ in b["stmts"]:
                if s_["k"] == "assign" and s_["rv"]["k"] == "agg" and s_["rv"].get("adt", "").endswith("::" + tyname):
                    ex = ex or Exprs(fn)
                    n += 1
                    e = canon(ex.operand(s_["rv"]["ops"][0]))
                    good = any(re.match(p, e) for p in ok_forms)
                    if e == "param2" and fn.kind == "Closure":
                        parent = mir.fns.get(fn.parent)
                        psrc = canon(Exprs(parent).local(0)) if parent else ""
                        good = bool(re.search(r"Range::Range\{const\(0_usize\), %s\(" % roles_of(mir).sp("table_state_count"), psrc)) or bool(re.search(r"Iterator::enumerate\(.*\.states", psrc))
                        from ..mir import closure_loop_context, lift_closure_canon
                        cctx = closure_loop_context(mir, fn)
                        if not good and cctx is not None:
                            # the body of `(0..states.len()).try_for_each(|i| ..)`: the same range counter
                            good = any(re.match(p, lift_closure_canon(e, cctx)) for p in ok_forms)
                    res.inst(rule, "who-constructs|%s|%s" % (tyname, fn.path), fn.where, True, e[:120])
                    if not good:
                        bad.append((fn, e))
    for (fn, e) in bad:
        res.violate(rule, "who-constructs|%s|%s" % (tyname, fn.path), fn.where, "%s built from `%s`, which is not a position of the states vector (len before push, enumerate index, range counter, 0, or the index updater)" % (tyname, e[:120]))
    if n < 3:
        return False, "only %d construction sites found" % n
    return (not bad), "%d construction sites of %s, all from positions of the states vector" % (n, tyname)


def check_rule_index(mir, res, rule):
    bad = []
    n = 0
    for fn in mir.fns.values():
        if fn.derived or "/parser.rs" in fn.file:
            continue
        ex = None
        for b in fn.blocks:
            if b["cleanup"]:
                continue
            for s_ in b["stmts"]:
                if s_["k"] == "assign" and s_["rv"]["k"] == "agg" and s_["rv"].get("adt", "").endswith("::RuleIndex") and s_["rv"]["variant"] == "Original":
                    ex = ex or Exprs(fn)
                    n += 1
                    e = canon(ex.operand(s_["rv"]["ops"][0]))
                    # closure over the indices produced by the enumerate/filter_map over self.rules
                    good = e in ("param2",) or re.match(r"^\(Iterator@\w+::next\(.*\) as Some\)\.0(\.0)?$", e)
                    src = ""
                    if good and fn.kind == "Closure":
                        parent = mir.fns.get(fn.parent)
                        if parent:
                            src = canon(Exprs(parent).local(0))
                            RI = roles_of(mir).rule_indices_for_nonterminal
                            good = RI is not None and short_path(RI.path) + "(" in src
                            if good:
                                prod = [RI]
                                psrc = canon(Exprs(prod[0]).local(0)) if len(prod) == 1 else ""
                                good = bool(re.search(r"Iterator::enumerate\(slice::iter\(param1\.rules\)\)", psrc))
                                src = psrc
                    res.inst(rule, "who-constructs|RuleIndex|%s" % fn.path, fn.where, True, "%s <- %s" % (e, src[:100]))
                    if not good:
                        bad.append((fn, e))
    for (fn, e) in bad:
        res.violate(rule, "who-constructs|RuleIndex|%s" % fn.path, fn.where, "RuleIndex::Original built from `%s`, not from enumerate() over the rule list" % e[:120])
    if n < 1:
        return False, "no construction site of RuleIndex::Original found"
    return (not bad), "%d construction sites, all enumerate() positions of the rule list" % n


def check_dollarless(mir, res, rule):
    n = 0
    bad = []
    for fn in mir.fns.values():
        if fn.derived or "/parser.rs" in fn.file:
            continue
        ex = None
        for b in fn.blocks:
            if b["cleanup"]:
                continue
            for s_ in b["stmts"]:
                if s_["k"] == "assign" and s_["rv"]["k"] == "agg" and s_["rv"].get("adt", "").endswith("token::TerminalIdent"):
                    ex = ex or Exprs(fn)
                    n += 1
                    i = s_["rv"]["fields"].index("dollarless_position")
                    e = canon(ex.operand(s_["rv"]["ops"][i]))
                    good = bool(re.match(r"^ByteIndex::ByteIndex\{\(.* AddWithOverflow (str::len\(const\(\"\$\"\)\)|const\(1_usize\)|methods::len_utf8\(const\('\$'\)\))\)\.0\}$", e))
                    res.inst(rule, "who-constructs|dollarless_position|%s" % fn.path, fn.where, True, e[:120])
                    if not good:
                        bad.append((fn, e))
    for (fn, e) in bad:
        res.violate(rule, "who-constructs|dollarless_position|%s" % fn.path, fn.where, "dollarless_position built as `%s`, not as start + 1: `position - 1` in the error span can underflow" % e[:120])
    if n < 1:
        return False, "no construction site found"
    return (not bad), "%d construction site(s), all `start + 1`" % n


def check_dotlen(mir, res, rule):
    """the symbol accessor is called only on the path where dot != len of the same fieldset"""
    acc = [f for f in mir.fns.values() if is_symbol_accessor(f)]
    if len(acc) != 1:
        return False, "symbol accessor not found"
    a = acc[0]
    sites = []
    for fn in mir.fns.values():
        for c in fn.calls():
            if c.local and c.rkey == a.key:
                sites.append((fn, c))
    ok = bool(sites)
    why = ""
    for (fn, c) in sites:
        ex = Exprs(fn)
        cdt = control_deps_transitive(fn)
        fs, dot = canon(ex.operand(c.args[0])), canon(ex.operand(c.args[1]))
        want = "(%s Eq Fieldset::len(%s))" % (dot, fs)
        tests = cd_tests(fn, ex, c.bb, cdt)
        good = any(t_[0] == want and t_[1] == 0 for t_ in tests) and dot.endswith(".dot")
        res.inst(rule, "D-dotlen|%s" % fn.path, c.where, True, "called with (%s, %s) under %s: %s" % (fs[:60], dot, want[:80], good))
        why = "single call site guarded by `dot == len` being false; items have dot <= len (A-dot)"
        if not good:
            ok = False
            why = "call in %s is not on the false branch of `%s`" % (fn.path, want[:100])
            res.violate(rule, "D-dotlen|%s" % fn.path, c.where, "the symbol accessor (which panics on an empty fieldset and indexes by `dot`) must only be called where `dot == fieldset.len()` is known to be false for the same fieldset and dot; " + why)
    return ok, why


def check_method_map(mir, res, rule):
    """the terminal -> extraction-method-name map is collected from all terminal variants"""
    for fn in mir.fns.values():
        for b in fn.blocks:
            if b["cleanup"]:
                continue
            for s_ in b["stmts"]:
                if s_["k"] == "assign" and s_["rv"]["k"] == "agg" and s_["rv"].get("adt", "").endswith("::SrcBuilder"):
                    ex = Exprs(fn)
                    flds = s_["rv"]["fields"]
                    mapf = [f for f in flds if "method" in f]
                    if len(mapf) != 1:
                        return False, "cannot find the method-name map field"
                    e = canon(ex.operand(s_["rv"]["ops"][flds.index(mapf[0])]))
                    good = bool(re.match(r"^Iterator::collect\(Iterator::map\(Iterator::enumerate\(slice::iter\(param2\.terminal_enum\.variants\)\), .*\)\)$", e))
                    ctext = closure_text(mir, e)
                    good = good and "param2.1.dollarless_name" in ctext
                    mh = re.match(r"^([\w:]+)\(param2\.terminal_enum\)$", e)
                    if not good and mh:
                        # a helper that fills the map in a `for` loop over all variants
                        from ..mir import filled_in_complete_loop
                        hs = [g for g in mir.fns.values() if g.kind in ("Fn", "AssocFn") and not g.derived and short_path(g.path) == mh.group(1)]
                        fl = filled_in_complete_loop(hs[0], ("HashMap::new", "BTreeMap::new"), ("HashMap::insert", "BTreeMap::insert")) if len(hs) == 1 else None
                        if fl is not None:
                            src, iargs = fl
                            good = bool(re.match(r"^(IntoIterator@\w+::into_iter\()?Iterator::enumerate\(slice::iter\(param1\.variants\)\)\)?$", src)) and bool(re.match(r"^\(Iterator@Enumerate::next\(.*\) as Some\)\.0\.1\.dollarless_name$", iargs[0]))
                            e = "%s: for .. in %s { insert(%s, ..) }" % (e, src, iargs[0][-40:])
                    res.inst(rule, "D-tref|method-map", fn.where, True, e[:140])
                    if not good:
                        res.violate(rule, "D-tref|method-map", fn.where, "the terminal->method map must be collected from *all* terminal variants keyed by their own name; found `%s`" % e[:160])
                    return good, "collected from enumerate over all terminal variants, keyed by each variant's name"
    return False, "SrcBuilder aggregate not found"


def check_get_type(mir, res, rule):
    g = [roles_of(mir).terminal_get_type] if roles_of(mir).terminal_get_type is not None else []
    if len(g) != 1:
        return False, "get_type not found"
    e = canon(Exprs(g[0]).local(0))
    good = bool(re.match(r"^Option::map\(Iterator@Iter::find\(slice::iter\(param1\.variants\), .*\), .*\)$", e))
    ct = closure_text(mir, e)
    good = good and "PartialEq" in ct and "dollarless_name" in ct
    res.inst(rule, "D-tref|get_type", g[0].where, True, e[:140])
    if not good:
        res.violate(rule, "D-tref|get_type", g[0].where, "get_type must search all terminal variants by full-name equality; found `%s` / closure `%s`" % (e[:120], ct[:120]))
    return good, "find over all variants by name equality"


def check_table_cols(mir, res, rule):
    ok = True
    n = 0
    for fn in mir.fns.values():
        for b in fn.blocks:
            if b["cleanup"]:
                continue
            for s_ in b["stmts"]:
                if s_["k"] == "assign" and s_["rv"]["k"] == "agg" and s_["rv"].get("adt", "").endswith("table::Table") and not fn.derived:
                    ex = Exprs(fn)
                    flds = s_["rv"]["fields"]
                    n += 1
                    for fname, want in (("terminals", r"terminal_enum\.variants"), ("nonterminals", r"nonterminals")):
                        e = canon(ex.operand(s_["rv"]["ops"][flds.index(fname)]))
                        src = e
                        m = re.match(r"^\w+::(\w+)\(param\d+\)$", e)
                        if m:
                            cal = [g for g in mir.fns.values() if g.name == m.group(1) and g.file == fn.file]
                            if len(cal) == 1:
                                src = canon(Exprs(cal[0]).local(0))
                        good = bool(re.match(r"^Iterator::collect\(Iterator::map\(slice::iter\(param\d+\.%s\), .*\)\)$" % want, src))
                        res.inst(rule, "table-columns|" + fname, fn.where, True, src[:120])
                        if not good:
                            ok = False
                            res.violate(rule, "table-columns|" + fname, fn.where, "table column list `%s` must be mapped from all %s of the file without narrowing; found `%s`" % (fname, fname, src[:140]))
    if n < 1:
        return False, "no Table aggregate found"
    return ok, "both column lists mapped from the complete lists of the validated file"


def check(ctx):
    res = Result("C07", ctx["tier"], "other", ctx["seed"])
    mir = Mir(ctx["facts"]["mir"])
    cx = establish(mir, ctx, res)
    run_rules(mir, res, cx)
    if ctx["tier"] == "thorough":
        facts2 = ctx["extract_facts"](ctx["repo"], ctx["scratch"], release_shape=True)
        mir2 = Mir(facts2["mir"])
        r2 = Result("C07", "thorough", "other")
        cx2 = cx
        run_rules_release(mir2, r2, cx2)
        for v in r2.violations:
            res.violations.append(v)
        res.inst("config", "release-shape", "", True, "inventory re-evaluated on MIR built with -C overflow-checks=off -C debug-assertions=off: %d sites, %d violations" % (r2.counts.get("may-panic sites outside the generated parser", 0), len(r2.violations)))
    for a in ("A-L1 FIRST fixpoint terminates (monotone growth over a finite domain)", "A-L2/A-L3 worklists terminate (a state is re-enqueued only after strict growth of a bounded item set)",
              "A-trans every terminal right of a dot has a transition", "A-goto one goto per (state, nonterminal)", "A-dot items have dot <= |rhs|",
              "A-idx state indices are positions of the states vector; the renumbering is a permutation", "A-table table length = states x width",
              "A-size the property's input bounds (64 KiB, 2000 declarations, nesting 256) keep offsets/counts far from overflow and recursion within the host stack",
              "allocation failure and std calls outside the may-panic list are out of scope"):
        res.assume(a)
    return finish(res, "Sound may-panic / may-diverge inventory on MIR over the Instance-resolved call graph from generate (every local trait impl assumed callable): each panicking std call and each Assert terminator must match a discharge rule whose invariant is established by a rule evaluated on the same run (C08, C09, C10-kind, C18-insert, who-constructs rules, guards found by control dependence); loops and call-graph cycles must be of a reviewed role. Quantitative depth/time and three reviewed worklist termination arguments are assumptions.")


def run_rules_release(mir2, r2, cx):
    from .. import mir as _m
    r2.rule("R-C07-inventory", "")
    _m.UNCHECKED_AS_CHECKED = True
    try:
        run_rules(mir2, r2, cx)
    finally:
        _m.UNCHECKED_AS_CHECKED = False
    # floors differ in the release shape (no overflow asserts): drop floor violations
    r2.violations = [v for v in r2.violations if v.rule != "floor"]
