"""C05 — the emitted module compiles for any legal user naming, with no trait bounds.

Decided: the hygiene discipline of the generator's templates (token walk over every template,
binding resolution of every placeholder, MIR def-use for the fresh-name machinery).  Not decided:
general well-typedness of the emitted text for every grammar shape."""
import re

from ..syn import Syn, nodes, ident_of, path_str, unparse, method_chain
from .. import tpl
from ..tpl import RUST_KEYWORDS
from ..report import Result, finish
from .c03 import load_templates, all_items

PRELUDE_OK = {"Self", "Vec", "Box", "Option", "Some", "None", "Result", "Ok", "Err", "TryFrom", "IntoIterator", "Iterator", "Into", "From", "String"}
ASSOC_OK = {"Item", "Error"}


def first_letter(s_):
    for ch in s_:
        if ("a" <= ch <= "z") or ("A" <= ch <= "Z"):
            return ch
    return None


def classify_binding(desc):
    """what kind of text a placeholder prints, from its resolved binding description"""
    if desc is None:
        return "unknown"
    if desc.startswith("const:"):
        return "literal"
    return desc


class Names:
    """what SrcBuilder::new binds each field to: fresh(base) | user(kind) | other"""

    def __init__(self):
        self.fields = {}
        self.fresh_fn = None
        self.ctor_fn = None


def through_local_closure(init, lets):
    """`fresh("X")` with `let mut fresh = |p| f(p, <set>)` in the same function is the call `f("X", <set>)`"""
    if not (init["k"] == "Call" and init["func"]["k"] == "Path" and len(init["args"]) == 1 and len(init["func"]["path"]["segs"]) == 1):
        return init
    cl = lets.get(init["func"]["path"]["segs"][0])
    if cl is None or cl["k"] != "Closure" or len(cl["inputs"]) != 1:
        return init
    pat = cl["inputs"][0]
    while pat["k"] == "PType":
        pat = pat["pat"]
    body = cl["body"]
    while body["k"] == "BlockExpr" and len(body["block"]["stmts"]) == 1 and body["block"]["stmts"][0]["k"] == "ExprStmt" and not body["block"]["stmts"][0]["semi"]:
        body = body["block"]["stmts"][0]["expr"]
    if pat["k"] != "PIdent" or body["k"] != "Call" or len(body["args"]) != 2 or ident_of(body["args"][0]) != pat["name"]:
        return init
    return {"k": "Call", "func": body["func"], "args": [init["args"][0], body["args"][1]]}


def analyse_ctor(syn, efile, res, rule):
    """find the struct literal that fills the builder (shorthand fields bound by lets in the same fn)"""
    nm = Names()
    for (p, impl, fn) in syn.all_fns(path=efile):
        for s_ in nodes(fn["body"], "Struct"):
            if len(s_["fields"]) >= 8 and all(f["shorthand"] or ident_of(f["expr"]) is not None for f in s_["fields"]):
                nm.ctor_fn = fn
                lets = {}
                for st in fn["body"]["stmts"]:
                    if st["k"] == "Let" and st["pat"]["k"] in ("PIdent", "PType") and st.get("init") is not None:
                        pn = st["pat"]["name"] if st["pat"]["k"] == "PIdent" else st["pat"]["pat"].get("name")
                        lets[pn] = st["init"]
                for f in s_["fields"]:
                    name = f["member"]
                    init = lets.get(name if f["shorthand"] else ident_of(f["expr"]))  # `field: local` like `field`
                    if init is None:
                        # a parameter passed through
                        nm.fields[name] = ("param", name)
                        continue
                    init = through_local_closure(init, lets)
                    if init["k"] == "Call" and init["func"]["k"] == "Path" and len(init["args"]) == 2 and init["args"][0]["k"] == "Lit" and init["args"][0]["lit"]["t"] == "str":
                        nm.fields[name] = ("fresh", init["args"][0]["lit"]["v"], path_str(init["func"]), re.sub(r"^&\s*mut\s+", "", unparse(init["args"][1])))
                        nm.fresh_fn = path_str(init["func"])
                    else:
                        txt = unparse(init).replace(" ", "")
                        m = re.match(r"^file\.start(\.to_owned\(\)|\.clone\(\)|\.to_string\(\))?$", txt)
                        m2 = re.match(r"^file\.terminal_enum\.name(\.to_owned\(\)|\.clone\(\)|\.to_string\(\))?$", txt)
                        if m:
                            nm.fields[name] = ("user", "start")
                        elif m2:
                            nm.fields[name] = ("user", "terminal-enum")
                        else:
                            nm.fields[name] = ("other", txt[:80])
                nm.lets = lets
    mir_refine_ctor(syn, nm)
    return nm


def mir_refine_ctor(syn, nm):
    """fields the syntax could not classify are classified on MIR: a field filled with `F("Base", <set>)` where F is the
    fresh-name function found by role ((&str, &mut used-set | &mut self holding it) -> String) is a fresh name, however
    the call is spelled (free function, method of a small struct, local closure)"""
    import os
    from ..mir import Mir, Exprs, canon, short_path, _split_args, inline_helpers
    from ..roles import roles_of
    mirp = os.path.join(os.path.dirname(os.path.abspath(getattr(syn, "path", ""))), "mir.json")
    if not os.path.exists(mirp):
        return
    mir = Mir(mirp)
    F = roles_of(mir).fresh_name_fn
    if F is None:
        return
    Fs = short_path(F.path)
    for fn in mir.fns.values():
        if fn.derived:
            continue
        ex = None
        for b in fn.blocks:
            if b["cleanup"]:
                continue
            for s_ in b["stmts"]:
                if not (s_["k"] == "assign" and s_["rv"]["k"] == "agg" and s_["rv"].get("adt", "").endswith("::SrcBuilder")):
                    continue
                ex = ex or Exprs(fn)
                for name, op in zip(s_["rv"]["fields"], s_["rv"]["ops"]):
                    if name in nm.fields and nm.fields[name][0] != "other":
                        continue
                    v = canon(ex.operand(op))
                    if not v.startswith(Fs + "("):
                        continue
                    args, _e = _split_args(v, len(Fs))
                    lits = [a for a in (args or []) if re.match(r'^const\("(.*)"\)$', a)]
                    others = [a for a in (args or []) if a not in lits]
                    if len(lits) == 1 and len(others) == 1:
                        nm.fields[name] = ("fresh", re.match(r'^const\("(.*)"\)$', lits[0]).group(1), F.name, others[0])
                        nm.fresh_fn = F.name
                        nm.fresh_key = F.key
                        G_ = roles_of(mir).file_defined_identifiers
                        nm.avoid_expr = inline_helpers(mir, others[0], skip=((short_path(G_.path),) if G_ is not None else ()))


def check_fresh_machinery(ctx, nm, res, rule):
    """MIR: the avoid set is built from all three user name sources; the fresh-name function inserts what it returns"""
    from ..mir import Mir, Exprs, canon
    mir = Mir(ctx["facts"]["mir"])
    # the set handed to the fresh-name function
    used = None
    if nm.ctor_fn is not None:
        for st in nm.ctor_fn["body"]["stmts"]:
            if st["k"] == "Let" and st["pat"]["k"] == "PIdent" and st.get("init") is not None:
                txt = unparse(st["init"]).replace(" ", "")
                m = re.match(r"^(?:&mut)?(\w+)\.(\w+)\(\)$", txt)
                if m and any(v[0] == "fresh" and v[3] == st["pat"]["name"] for v in nm.fields.values()):
                    used = (st["pat"]["name"], m.group(2))
    if used is None and getattr(nm, "avoid_expr", None):
        # MIR classification (mir_refine_ctor): the set handed over is the result of the file's defined-identifiers
        # function, directly or stored unchanged in the small struct whose method the fresh-name function is
        from ..roles import roles_of
        from ..mir import short_path
        G = roles_of(mir).file_defined_identifiers
        if G is not None and re.match(r"^(?:[\w:]+\{)?%s\(param\d+\)\}?$" % re.escape(short_path(G.path)), nm.avoid_expr):
            used = ("<mir>", G.name)
    if used is None:
        res.unanalysable(rule, "avoid-set", "", "cannot find the set of used identifiers handed to the fresh-name function")
        return
    srcfn = [f for f in mir.fns.values() if f.name == used[1] and f.kind == "AssocFn" and f.impl and f.impl["self_ty"]["head"].endswith("validated_file::File")]
    if len(srcfn) != 1:
        res.unanalysable(rule, "avoid-set-fn", "", "function %s not found in MIR" % used[1])
        return
    g = srcfn[0]
    e = canon(Exprs(g).local(0))
    res.inst(rule, "avoid-set", g.where, True, e[:200])
    # expand local helper calls
    full = e
    for _ in range(3):
        for m in list(re.finditer(r"File::(\w+)\(param1\)", full)):
            hf = [f for f in mir.fns.values() if f.name == m.group(1) and f.impl and f.impl["self_ty"]["head"].endswith("validated_file::File")]
            if len(hf) == 1:
                inner = canon(Exprs(hf[0]).local(0))
                clos = " ".join(canon(Exprs(c).local(0)) for c in mir.fns.values() if c.kind == "Closure" and c.parent == hf[0].key)
                full = full.replace(m.group(0), "[%s :: %s]" % (inner, clos))
    srcs = {
        "nonterminal names": bool(re.search(r"slice::iter\(param1\.nonterminals\)", full)) and ("name.name" in full or "Nonterminal::name" in full),
        "terminal variant names": bool(re.search(r"slice::iter\(param1\.terminal_enum\.variants\)", full)) and "dollarless_name" in full,
        "terminal enum name": bool(re.search(r"iter::once\(param1\.terminal_enum\.name\)", full)),
    }
    narrowing = re.findall(r"Iterator::(filter|skip|take|step_by|take_while|skip_while)\(", full)
    for k, v in srcs.items():
        res.inst(rule, "avoid-set|" + k, g.where, True, str(v))
        if not v:
            res.violate(rule, "avoid-set|" + k, g.where, "the set of identifiers the fresh names must avoid does not include the %s (found: %s)" % (k, full[:240]))
    if narrowing:
        res.violate(rule, "avoid-set|narrowing", g.where, "narrowing adaptor %s in the construction of the avoid set" % narrowing)
    # the fresh-name function: every returned name was inserted
    ff = [f for f in mir.fns.values() if f.name == (nm.fresh_fn or "").rsplit("::", 1)[-1] and f.kind == "Fn"]
    if getattr(nm, "fresh_key", None) in mir.fns:
        ff = [mir.fns[nm.fresh_key]]
    if len(ff) != 1:
        res.unanalysable(rule, "fresh-fn", "", "fresh-name function not found in MIR")
        return
    f = ff[0]
    ex = Exprs(f)
    dom = f.dominators()
    inserts = [c for c in f.calls() if (c.rpath or "").endswith("HashSet::<T, S, A>::insert")]
    rets = []
    for i, b in enumerate(f.blocks):
        if b["cleanup"]:
            continue
        for s_ in b["stmts"]:
            if s_["k"] == "assign" and s_["pl"]["l"] == 0 and not s_["pl"]["p"]:
                rets.append((i, canon(ex.rvalue(s_["rv"], 0, ()))))
        t_ = b["term"]
        if t_["k"] == "call" and t_["dest"]["l"] == 0 and not t_["dest"]["p"]:
            c = f.call_at(i)
            rets.append((i, canon(ex.local(0))))
    ok = bool(rets)
    for (bb, val) in rets:
        good = False
        for c in inserts:
            iv = canon(ex.operand(c.args[1]))
            if c.bb in dom.get(bb, ()) and (iv == val or val in iv or iv in val):
                good = True
        res.inst(rule, "fresh-fn|return", f.where, True, "returns %s, dominated by an insert of it: %s" % (val[:80], good))
        if not good:
            ok = False
            res.violate(rule, "fresh-fn|return-not-inserted", f.where, "the fresh-name function returns `%s` on a path where that name was not inserted into the used set: two internal items can get the same name" % val[:120])
    # the candidate is tested with contains on the same set
    tests = [c for c in f.calls() if (c.rpath or "").endswith(("HashSet::<T, S, A>::contains", "HashSet::<T, S, A>::insert"))]
    res.floor("containment tests (contains / the bool of insert) in the fresh-name function", len(tests), 1)
    # ... and what is returned is a name the set was just found NOT to contain: the return is dominated by the
    # not-contained edge of a containment test of that very value (edge dominance, so that it also works inside
    # the exit-less search loop, where classic control dependence sees nothing)
    for (bb, val) in rets:
        free = False
        seen_tests = []
        for a_, blk in enumerate(f.blocks):
            if blk["cleanup"] or blk["term"]["k"] != "switch":
                continue
            t_ = blk["term"]
            ce = canon(ex.operand(t_["discr"]))
            m_ = re.match(r"^(Not\()?HashSet::contains\(param\d+(?:\.\w+)*, (.*?)\)\)?$", ce)
            m_i = re.match(r"^(Not\()?HashSet::insert\(param\d+(?:\.\w+)*, (.*?)\)\)?$", ce)
            if not m_ and not m_i:
                continue
            tested = (m_ or m_i).group(2)
            tg = {v: tb for (v, tb) in t_["targets"]}
            neg_ = bool((m_ or m_i).group(1))
            if m_i:
                # `insert` returns true exactly when the value was not present: the not-contained edge is the true edge
                neg_ = not neg_
            if not neg_:
                sf = tg.get(0)
            else:
                sf = t_["otherwise"] if 0 in tg else None
            if sf is None:
                continue
            edge_dom = sf in dom.get(bb, ()) and f.preds(sf) == [a_]
            seen_tests.append((tested[:60], edge_dom))
            if edge_dom and (tested == val or tested in val or val in tested):
                free = True
        res.inst(rule, "fresh-fn|return-free", f.where, True, "returns %s; dominated by the not-contained edge of a test of it: %s (%s)" % (val[:60], free, seen_tests))
        if not free:
            res.violate(rule, "fresh-fn|return-not-tested", f.where, "the fresh-name function returns `%s` without the used set having just been found not to contain that very name (tests: %s): the name can be one the user (or an earlier internal item) already has" % (val[:120], seen_tests))


def defining_positions(toks):
    """(kind, token) for tokens in defining position of an item or a binder"""
    out = []
    for i, t_ in enumerate(toks):
        if t_.k not in ("ident", "ph", "mixed"):
            continue
        prev = toks[i - 1] if i > 0 else None
        prev2 = toks[i - 2] if i > 1 else None
        if prev is not None and prev.k == "ident" and prev.s in ("enum", "struct", "static", "const", "fn", "mod", "trait", "type", "union"):
            # `const` in `*const T` never occurs in the templates
            out.append((prev.s, i))
        elif prev is not None and prev.k == "ident" and prev.s == "impl" and not (i + 1 < len(toks) and toks[i + 1].s == "<"):
            # `impl X {`  (inherent)  /  `impl Trait for X` handled via `for`
            nxt = toks[i + 1] if i + 1 < len(toks) else None
            if nxt is not None and nxt.s == "{":
                out.append(("impl", i))
        elif prev is not None and prev.k == "ident" and prev.s == "let" and i + 1 < len(toks) and toks[i + 1].s in ("=", ":", ";"):
            out.append(("let", i))
        elif prev is not None and prev.k == "ident" and prev.s == "mut" and prev2 is not None and prev2.s == "let" and i + 1 < len(toks) and toks[i + 1].s in ("=", ":", ";"):
            out.append(("let", i))
    return out


def generic_params(toks):
    """tokens declared as generic parameters: `fn name<A, B>` / `impl<A>`"""
    out = []
    for i, t_ in enumerate(toks):
        if t_.s == "<" and i >= 1:
            p = toks[i - 1]
            p2 = toks[i - 2] if i >= 2 else None
            if (p2 is not None and p2.k == "ident" and p2.s == "fn") or (p.k == "ident" and p.s == "impl"):
                j = i + 1
                depth = 1
                expect = True
                while j < len(toks) and depth > 0:
                    if toks[j].s == "<":
                        depth += 1
                    elif toks[j].s == ">":
                        depth -= 1
                    elif depth == 1 and toks[j].s == ",":
                        expect = True
                    elif depth == 1 and expect and toks[j].k in ("ident", "ph", "mixed"):
                        out.append(j)
                        expect = False
                    elif depth == 1 and toks[j].k == "lifetime":
                        expect = False
                    j += 1
    return out


def in_attr_mask(toks):
    mask = [False] * len(toks)
    i = 0
    while i < len(toks):
        if toks[i].s == "#" and i + 1 < len(toks) and (toks[i + 1].s == "[" or (toks[i + 1].s == "!" and i + 2 < len(toks) and toks[i + 2].s == "[")):
            j = i
            depth = 0
            while j < len(toks):
                mask[j] = True
                if toks[j].s == "[":
                    depth += 1
                elif toks[j].s == "]":
                    depth -= 1
                    if depth == 0:
                        break
                j += 1
            i = j + 1
        else:
            if toks[i].k == "doc":
                mask[i] = True
            i += 1
    return mask


def run_rules(ctx, res):
    FRESH, LIT, BIND, PATH, UNIQ, BOUNDS, EMPTY, CAPS = "R-C05-fresh", "R-C05-literal", "R-C05-binder", "R-C05-path", "R-C05-unique-fns", "R-C05-bounds", "R-C05-emptymatch", "R-C05-caps"
    DIMS = "R-C05-dims"
    res.rule(DIMS, "the declared lengths of the emitted action/goto arrays equal the number of rows/items the emitter writes: rows over 0..state_count, items over the table's complete terminal (+1 for end of input) / nonterminal list, through length-preserving adapters only; the table's lists are the full image of the file's lists (MIR)")
    res.rule(FRESH, "every placeholder in a defining position of a module-level item (enum/static/fn/impl, generic parameter) is bound to a result of the fresh-name function or to a user name; the avoid set holds all three user name sources; every fresh name is inserted back")
    res.rule(LIT, "every literal identifier in a template is a keyword, a member after `.`, inside an attribute, a path segment (see R-C05-path), lowercase-initial (user item names are uppercase-initial or letterless: R-C05-caps), a std-prelude name from the fixed allow-list, an associated-item name in binding position, or a literal variant declared inside an internal enum; a capitalised literal in binder position is always a violation")
    res.rule(BIND, "a local binder whose text contains user text must start with a literal lowercase letter (otherwise it can equal a user unit struct and parse as a constant pattern) and end in a position index")
    res.rule(PATH, "every path `{X}::seg` / `Self::seg` on an internal enum names a declared literal variant, the same placeholder as the declaration, an associated function declared in a template impl, or a member of the user list the enum is built from; a literal segment where the declaration uses a placeholder is a violation")
    res.rule(UNIQ, "generated function/method names that depend on user text end in a position index taken from enumerate()")
    res.rule(BOUNDS, "no #[derive] on an internal enum whose variants carry user payload types; derived internal enums only carry other derived internal enums")
    res.rule(EMPTY, "a match whose arms are solely a list over terminal variants (empty for `terminal T {}`) must scrutinise by value, not through a reference")
    res.rule(CAPS, "the capitalisation validators guarantee user item names are never lowercase-initial (imported from C10 R-C10-leaf/-pass)")
    syn, efile, ts, consts = load_templates(ctx)
    if efile is None:
        res.floor("anchor: emitter file", 0, 1)
        return
    fmt = [t for t in ts if t.is_format]
    res.count("format! templates in the emitter", len(fmt))
    res.count("string literals in the emitter (incl. plain)", len(ts))
    res.floor("format! templates in the emitter", len(fmt), 30)
    nm = analyse_ctor(syn, efile, res, FRESH)
    if nm.ctor_fn is None:
        res.unanalysable(FRESH, "builder-ctor", efile, "cannot find the struct literal that binds the internal names")
        return
    n_fresh = sum(1 for v in nm.fields.values() if v[0] == "fresh")
    res.count("fresh-name bindings", n_fresh)
    res.floor("fresh-name bindings", n_fresh, 8)
    check_fresh_machinery(ctx, nm, res, FRESH)

    def kind_of_ph(t, name):
        """fresh | user:<what> | index | literal | derived:<desc>"""
        d = tpl.resolve_text(t, name)
        if d.startswith("const:"):
            return "literal"
        m = re.match(r"^self\.(\w+)$", d)
        if m and m.group(1) in nm.fields:
            f = nm.fields[m.group(1)]
            return "fresh:%s" % f[1] if f[0] == "fresh" else ("user:%s" % f[1] if f[0] == "user" else "other:%s" % (f[1],))
        m = re.match(r"^expr:&?self\.(\w+)$", d)
        if m and m.group(1) in nm.fields:
            f = nm.fields[m.group(1)]
            return "fresh:%s" % f[1] if f[0] == "fresh" else ("user:%s" % f[1] if f[0] == "user" else "other:%s" % (f[1],))
        m = re.match(r"^expr:&?(\w+)\.name\.name$", d) or re.match(r"^expr:&?(\w+)\.name\(\)$", d)
        if m:
            return "user:nonterminal-or-variant-name(%s)" % m.group(1)
        m = re.match(r"^expr:&?(\w+)\.dollarless_name\.raw\(\)$", d)
        if m:
            return "user:terminal-name(%s)" % m.group(1)
        return "derived:" + d

    # token streams
    internal_enums = {}  # placeholder key -> {"decl": template, "variants": [...], "derive": bool}
    impl_fns = {}  # enum placeholder key -> set of fn names declared in `impl X {`
    all_tok = []
    for t in fmt:
        toks = tpl.lex_segments(t.segs)
        t.tokens = toks
        all_tok.append((t, toks))

    def tkey(t, tok):
        """stable key of a token: literal text, or placeholder kinds"""
        if tok.k == "ph":
            return "{%s}" % kind_of_ph(t, tok.ph)
        if tok.k == "mixed":
            return "".join(p[1] if p[0] != "ph" else "{%s}" % kind_of_ph(t, p[1]) for p in tok.parts)
        return tok.s

    # pass 1: declarations of internal enums and impls
    for (t, toks) in all_tok:
        i = 0
        while i < len(toks):
            if toks[i].k == "ident" and toks[i].s == "enum" and i + 2 < len(toks) and toks[i + 2].s == "{":
                # public user enums (`pub enum {name}`) are not internal
                is_pub = i >= 1 and toks[i - 1].s == "pub"
                name_tok = toks[i + 1]
                k = tkey(t, name_tok)
                j = i + 3
                depth = 1
                variants = []
                payload_ph = []
                expect = True
                while j < len(toks) and depth > 0:
                    s_ = toks[j].s
                    if s_ in ("{", "(", "["):
                        depth += 1
                    elif s_ in ("}", ")", "]"):
                        depth -= 1
                    elif depth == 1 and s_ == ",":
                        expect = True
                    elif depth == 1 and expect and toks[j].k in ("ident", "ph", "mixed"):
                        variants.append(tkey(t, toks[j]))
                        expect = False
                        # a line-alone list placeholder is followed by the next variant without comma
                        if toks[j].k == "ph" and kind_of_ph(t, toks[j].ph).startswith("derived:") and j + 1 < len(toks) and toks[j + 1].s not in (",", "(", "=", "{"):
                            expect = True
                    elif depth == 2 and toks[j].k in ("ph", "mixed"):
                        payload_ph.append(tkey(t, toks[j]))
                    j += 1
                derive = False
                b = i - 1
                if is_pub:
                    b -= 1
                if b >= 0 and toks[b].s == "]":
                    # attribute right before
                    bb = b
                    while bb >= 0 and toks[bb].s != "#":
                        bb -= 1
                    derive = any(x.s == "derive" for x in toks[bb:b])
                if not is_pub:
                    internal_enums[k] = {"t": t, "variants": variants, "payload": payload_ph, "derive": derive, "line": toks[i].line}
                i = j
                continue
            if toks[i].k == "ident" and toks[i].s == "impl" and i + 2 < len(toks) and toks[i + 2].s == "{" and toks[i + 1].k in ("ph", "mixed", "ident"):
                k = tkey(t, toks[i + 1])
                j = i + 3
                depth = 1
                while j < len(toks) and depth > 0:
                    if toks[j].s == "{":
                        depth += 1
                    elif toks[j].s == "}":
                        depth -= 1
                    elif depth == 1 and toks[j].s == "fn" and j + 1 < len(toks):
                        impl_fns.setdefault(k, set()).add(tkey(t, toks[j + 1]))
                    j += 1
            i += 1
    res.count("internal enums declared in templates", len(internal_enums))
    res.floor("internal enums declared in templates", len(internal_enums), 5)
    res.extra["internal_enums"] = {k: {"variants": v["variants"], "derive": v["derive"], "payload": v["payload"]} for k, v in internal_enums.items()}

    PATH_TAIL_FNS.clear()
    PATH_TAIL_NODES.clear()
    for (t, toks) in all_tok:
        for i, tok in enumerate(toks):
            if tok.k == "ph" and i >= 2 and toks[i - 1].s == "::" and toks[i - 2].k in ("ph", "mixed"):
                hk = tkey(t, toks[i - 2])
                if hk in internal_enums:
                    alts = fn_alternatives(syn, efile, t, tok, consts)
                    if alts is not None and all(a in internal_enums[hk]["variants"] for a in alts):
                        PATH_TAIL_FNS.add(alt_fn_name(t, tok))
                        mark_inline_tail(t, tok)
    n_lit = n_path = n_def = n_bind = 0
    gen_fn_defs, gen_fn_calls = [], []
    for (t, toks) in all_tok:
        mask = in_attr_mask(toks)
        gens = set(generic_params(toks))
        defs = dict((i, kind) for (kind, i) in defining_positions(toks))
        # current `impl X {` context for Self:: paths
        impl_stack = []
        brace_depth = 0
        enum_body = []  # stack of (depth) where we are directly inside an enum body
        for i, tok in enumerate(toks):
            s_ = tok.s
            if s_ == "{":
                brace_depth += 1
                if i >= 2 and toks[i - 2].s == "impl":
                    impl_stack.append((brace_depth, tkey(t, toks[i - 1])))
                elif i >= 2 and toks[i - 2].s == "for" and any(toks[j].s == "impl" for j in range(max(0, i - 12), i - 2)):
                    impl_stack.append((brace_depth, tkey(t, toks[i - 1])))  # impl Trait<..> for X {
                if i >= 2 and toks[i - 2].s == "enum":
                    enum_body.append(brace_depth)
            elif s_ == "}":
                if impl_stack and impl_stack[-1][0] == brace_depth:
                    impl_stack.pop()
                if enum_body and enum_body[-1] == brace_depth:
                    enum_body.pop()
                brace_depth -= 1
            if mask[i] or tok.k not in ("ident", "ph", "mixed"):
                continue
            prev = toks[i - 1] if i > 0 else None
            nxt = toks[i + 1] if i + 1 < len(toks) else None
            where = "%s (template line %d)" % (t.where, tok.line)
            # ---- defining positions with placeholders: R-C05-fresh
            if (i in defs and defs[i] in ("enum", "static", "fn", "impl", "struct", "const", "type", "mod", "trait")) or i in gens:
                what = "generic-param" if i in gens else defs[i]
                if tok.k in ("ph", "mixed"):
                    parts = tok.parts if tok.k == "mixed" else [("ph", tok.ph)]
                    if what in ("struct", "enum") and len(parts) > 1 and parts[0][0] == "ph" and parts[1][0] == "ph":
                        parts = parts[:1]  # `{name}{fieldset}`: the name is the first placeholder
                    kinds = [kind_of_ph(t, p[1]) for p in parts if p[0] == "ph"]
                    n_def += 1
                    key = "def|%s|%s" % (what, "".join(p[1] if p[0] != "ph" else "{%s}" % kind_of_ph(t, p[1]) for p in parts))
                    is_pub = any(toks[j].s == "pub" for j in range(max(0, i - 3), i))
                    okk = all(k.startswith(("fresh:", "user:", "literal")) or (k.startswith("derived:") and what in ("fn",)) for k in kinds)
                    res.inst(FRESH, key, where, True, "%s" % kinds)
                    if what == "fn" and any(k.startswith("derived:") for k in kinds):
                        # generated function names: checked by R-C05-unique-fns
                        if tok.k == "ph":
                            gen_fn_defs.append((t, tok, tpl.resolve_text(t, tok.ph).replace(" ", ""), where))
                    elif not okk:
                        res.violate(FRESH, key, where, "the name in %s position `%s` is not bound to a fresh name or a user name (%s)" % (what, tok.s, kinds))
                    if what == "generic-param" and not all(k.startswith("fresh:") for k in kinds):
                        res.violate(FRESH, key + "|generic", where, "generic parameter `%s` must be a fresh name" % tok.s)
                else:
                    # literal name in a defining position
                    n_def += 1
                    fl = first_letter(tok.s)
                    key = "def|%s|%s" % (what, tok.s)
                    if what == "type" and tok.s in ASSOC_OK and impl_stack_has_trait(toks, i):
                        continue
                    res.inst(LIT, key, where, True, "literal %s name" % what)
                    if what == "generic-param" or fl is None or fl.isupper():
                        res.violate(LIT, key, where, "hard-coded %s name `%s` can clash with (or shadow) a user-defined type of the same name" % (what, tok.s))
                continue
            # ---- binders: R-C05-binder
            if i in defs and defs[i] == "let":
                n_bind += 1
                if tok.k in ("ph", "mixed"):
                    parts = tok.parts if tok.k == "mixed" else [("ph", tok.ph)]
                    kinds = [(p[0], kind_of_ph(t, p[1]) if p[0] == "ph" else p[1]) for p in parts]
                    has_user = any(k[0] == "ph" and k[1].startswith(("derived:", "user:")) and not is_index(t, parts[idx][1]) for idx, k in enumerate(kinds))
                    key = "binder|%s" % tkey_plain(t, tok)
                    first = kinds[0]
                    starts_with_letter = first[0] in ("ident",) and first_letter(first[1]) is not None and first_letter(first[1]).islower()
                    ends_with_index = kinds[-1][0] == "ph" and is_index(t, parts[-1][1])
                    res.inst(BIND, key, where, True, "parts %s" % [k[1][:30] for k in kinds])
                    if has_user and not starts_with_letter:
                        res.violate(BIND, key, where, "local binder `%s` starts with user text: for a letterless field name (e.g. `_0`) it can equal a user unit struct `%s` and is then parsed as a constant pattern (rustc E0308)" % (render(tok), render(tok)))
                    if has_user and not ends_with_index:
                        res.violate(BIND, key + "|no-index", where, "local binder `%s` contains user text but does not end in a position index: two binders of one scope can coincide" % render(tok))
                else:
                    fl = first_letter(tok.s)
                    if fl is not None and fl.isupper():
                        res.violate(LIT, "binder|%s" % tok.s, where, "capitalised binder `%s` shadows a user type of the same name" % tok.s)
                continue
            # ---- calls of generated methods: `.{m}(`
            if tok.k == "ph" and prev is not None and prev.s == "." and nxt is not None and nxt.s == "(" and kind_of_ph(t, tok.ph).startswith("derived:"):
                gen_fn_calls.append((t, tok, tpl.resolve_text(t, tok.ph).replace(" ", ""), where))
            # ---- paths
            if prev is not None and prev.s == "::" and i >= 2:
                head = toks[i - 2]
                hk = None
                if head.k in ("ph", "mixed"):
                    hk = tkey(t, head)
                elif head.k == "ident" and head.s == "Self" and impl_stack:
                    hk = impl_stack[-1][1]
                if head.k == "ident" and head.s == "Self" and impl_stack and hk not in internal_enums and ("user:" in (hk or "")) and tok.k == "ident" and first_letter(tok.s) is not None and first_letter(tok.s).isupper():
                    # `Self::Name` inside an impl for a *user* type: a user enum may have a variant of any capitalised name
                    n_path += 1
                    key = "self-assoc|Self::%s|%s" % (tok.s, hk)
                    res.inst(PATH, key, where, True, "literal `Self::%s` in an impl for a user type" % tok.s)
                    res.violate(PATH, key, where, "`Self::%s` inside an impl for a user type: when the user's enum has a variant called `%s` the path is ambiguous between the variant and the associated item (rustc lint ambiguous_associated_items, deny by default) and the emitted module does not compile" % (tok.s, tok.s))
                    continue
                if hk is not None and hk in internal_enums:
                    n_path += 1
                    en = internal_enums[hk]
                    seg = tkey(t, tok)
                    key = "path|%s::%s" % (hk, seg)
                    ok = False
                    why = ""
                    if tok.k == "ident":
                        if seg in en["variants"]:
                            ok, why = True, "declared literal variant"
                        elif seg in impl_fns.get(hk, ()):
                            ok, why = True, "associated function declared in a template impl"
                        else:
                            why = "`%s` is not a literal variant of the enum (declared: %s) nor an associated function (%s)" % (seg, en["variants"], sorted(impl_fns.get(hk, ())))
                    else:
                        alts = fn_alternatives(syn, efile, t, tok, consts) if tok.k == "ph" else None
                        if seg in en["variants"]:
                            ok, why = True, "same placeholder as the declaration"
                        elif alts is not None:
                            missing = [a for a in alts if a not in en["variants"]]
                            ok = not missing
                            why = "spliced from a helper whose alternatives start with %s%s" % (alts, "" if ok else "; not declared: %s" % missing)
                            if ok:
                                PATH_TAIL_FNS.add(alt_fn_name(t, tok))
                                mark_inline_tail(t, tok)
                        else:
                            lists = [v for v in en["variants"] if v.startswith("{derived:")]
                            parts = tok.parts if tok.k == "mixed" else [("ph", tok.ph)]
                            kinds = [kind_of_ph(t, p[1]) for p in parts if p[0] == "ph"]
                            lit_prefix = "".join(p[1] for p in parts if p[0] != "ph")
                            if lists and all(k.startswith(("derived:", "user:")) or is_index(t, p[1]) for k, p in zip(kinds, [p for p in parts if p[0] == "ph"])):
                                ok, why = True, "member of the list the enum is built from (%s)" % lists[0][:60]
                            else:
                                why = "placeholder segment `%s` matches no declared variant %s" % (seg, en["variants"])
                    res.inst(PATH, key, where, True, why[:120])
                    if not ok:
                        res.violate(PATH, key, where, "path `%s::%s` on an internal enum: %s" % (render(head), render(tok), why))
                continue
            # ---- literal identifiers
            if tok.k == "ident":
                s2 = tok.s
                if s2 in RUST_KEYWORDS or s2 == "_":
                    continue
                if prev is not None and prev.s == ".":
                    continue
                if nxt is not None and nxt.s == "::" and (prev is None or prev.s != "::"):
                    # head of a path: std / crate paths
                    if s2 in ("std", "core", "alloc", "crate", "super"):
                        continue
                n_lit += 1
                fl = first_letter(s2)
                key = "lit|%s" % s2
                if i == 0 and (t.fn in PATH_TAIL_FNS or id(t.node) in PATH_TAIL_NODES):
                    continue  # spliced right after `Enum::` — checked as a path segment by R-C05-path
                if fl is not None and fl.islower():
                    continue
                if enum_body and brace_depth == enum_body[-1] and (prev is None or prev.s in ("{", ",")):
                    res.inst(LIT, key + "|variant", where, False, "literal variant inside an internal enum")
                    continue
                if s2 in PRELUDE_OK:
                    continue
                if s2 in ASSOC_OK and ((nxt is not None and nxt.s == "=") or (prev is not None and prev.s in ("type",))):
                    continue
                res.inst(LIT, key, where, True, "capitalised literal")
                res.violate(LIT, key, where, "hard-coded capitalised identifier `%s` in emitted code: a user nonterminal/terminal of that name changes its meaning" % s2)
    res.count("literal identifiers classified", n_lit)
    res.count("qualified paths on internal enums checked", n_path)
    res.count("defining positions checked", n_def)
    res.count("local binders checked", n_bind)
    res.floor("literal identifiers classified", n_lit, 50)
    res.floor("qualified paths on internal enums checked", n_path, 15)
    res.floor("defining positions checked", n_def, 15)

    # ---- R-C05-bounds
    derived = {k for k, v in internal_enums.items() if v["derive"]}
    for k, v in internal_enums.items():
        res.inst(BOUNDS, "enum|" + k, v["t"].where, True, "derive=%s payload=%s" % (v["derive"], v["payload"]))
        if v["derive"]:
            for p in v["payload"]:
                if p not in derived:
                    res.violate(BOUNDS, "derive-on-payload|%s|%s" % (k, p), v["t"].where, "internal enum %s has #[derive] but carries `%s`, which is not a derived internal enum: a trait would be demanded of a user payload type" % (k, p))

    # ---- R-C05-emptymatch (AST of the parsed item templates)
    for (t, it) in all_items(ts):
        fns = []
        if it["k"] == "Impl":
            fns = [(it["self_ty"].strip(), f) for f in it["items"] if f["k"] == "Fn"]
        elif it["k"] == "Fn":
            fns = [(None, it)]
        for (st, f) in fns:
            for m in nodes(f["body"], "Match"):
                arms = m["arms"]
                if len(arms) == 1 and arms[0]["pat"]["k"] == "PIdent" and arms[0]["pat"]["name"].startswith("__PH_"):
                    ph = tpl.ph_names(arms[0]["pat"]["name"])
                    scrut = ident_of(m["expr"])
                    pty = None
                    for inp in f["inputs"]:
                        if "pat" in inp and inp["pat"].get("name") == scrut:
                            pty = inp["ty"].replace(" ", "")
                    over = list_source(t, ph[0]) if ph else "?"
                    key = "%s|%s|%s" % (strip_ph(st), f["name"], strip_ph(pty))
                    res.inst(EMPTY, key, t.where, True, "arms from %s over %s; scrutinee type %s" % (ph, over, pty))
                    if pty is not None and pty.startswith("&") and "terminal_enum.variants" in over:
                        res.violate(EMPTY, key, t.where, "`match %s {}` on a reference `%s` with arms generated per terminal variant: for `terminal T {}` the match is empty and rustc rejects it (E0004: type &T is non-empty)" % (scrut, pty))

    # ---- R-C05-unique-fns
    for t in fmt:
        if not t.segs:
            continue
        txt = "".join(s_[1] if s_[0] == "text" else "\x01" for s_ in t.segs)
        if not re.fullmatch(r"[A-Za-z0-9_\x01]+", txt) or "\x01" not in txt or not re.search(r"[A-Za-z_]", txt):
            # (a template without a literal letter or underscore is not the spelling of a generated identifier)
            continue
        phs = [s_ for s_ in t.segs if s_[0] == "ph"]
        kinds = [kind_of_ph(t, p[1]) for p in phs]
        if not any(k.startswith(("derived:", "fresh:", "user:")) for k in kinds):
            continue
        if t.fn == (nm.fresh_fn or "").rsplit("::", 1)[-1]:
            continue  # the fresh-name candidate itself (base + counter), checked by R-C05-fresh
        last = t.segs[-1]
        key = "ident-template|%s|%s" % (t.fn, "".join(s_[1] if s_[0] == "text" else "{}" for s_ in t.segs))
        ok = last[0] == "ph" and is_index(t, last[1])
        res.inst(UNIQ, key, t.where, True, "last part %s; index=%s" % (last[1], ok))
        if not ok:
            res.violate(UNIQ, key, t.where, "generated identifier `%s` depends on user text but does not end in an enumerate() position index: two terminals/rules can yield the same name" % t.text)

    # ---- generated method names: the definition site and the call sites read the name from one and the same table
    def name_table(d):
        m_ = re.match(r"^expr:self\.(\w+)\.get\(.*\)(\.unwrap\(\)|\?)$", d)
        return m_.group(1) if m_ else None
    if gen_fn_calls:
        tables = {name_table(d) for (_, _, d, _) in gen_fn_calls}
        for (t_, tok_, d, w_) in gen_fn_defs:
            if not any(c_[1].ph != tok_.ph or True for c_ in gen_fn_calls):
                continue
            # only method definitions that are called through a placeholder elsewhere are of interest: the per-terminal extractors
            if not ("self" in [x.s for x in t_.tokens[:12]]):
                continue
            tb = name_table(d)
            res.inst(UNIQ, "name-source|%s" % t_.fn, w_, True, "definition name from %s; call sites read %s" % (d[:80], sorted(x for x in tables if x)))
            if tb is None or tables != {tb}:
                res.violate(UNIQ, "name-source|%s" % t_.fn, w_, "the generated method defined here is named by `%s` while its call sites take the name from %s: computed twice, the two can differ for some terminal names and the emitted module then calls a method that does not exist" % (d[:120], sorted(x for x in tables if x) or [c_[2][:60] for c_ in gen_fn_calls][:2]))

    # ---- R-C05-caps
    from ..mir import Mir
    from .c10 import check_leaf, validators, check_pass
    from ..report import Result as R2
    mir = Mir(ctx["facts"]["mir"])
    errs = [p for p in mir.adts if p.rsplit("::", 1)[-1] == "KikiErr"]
    tmp = R2("C10", "quick", "other")
    if errs:
        gens = [f for f in mir.fns.values() if f.pub and f.name == "generate" and f.kind == "Fn"]
        V = validators(mir, errs[0])
        entry = [mir.fns[c.rkey] for c in gens[0].calls() if c.local and c.rkey in {f.key for f in V}]
        if entry:
            stage = check_pass(mir, V, entry[0], errs[0], tmp)
            check_leaf(mir, stage, errs[0], tmp)
            from .c10 import check_kind as _c10_kind
            _c10_kind(mir, stage, errs[0], tmp)
    # user item names are pairwise distinct and references resolve within their kind (C10's kind / clash-map rule):
    # two items of one name, or a field typed by a name of the wrong kind, do not compile
    UNIQ_ITEMS = "R-C05-distinct-items"
    res.rule(UNIQ_ITEMS, "validation guarantees that top-level user names (nonterminals, terminal variants, the terminal enum) are pairwise distinct and that every reference resolves to a definition of its own kind (imported from C10 R-C10-kind incl. the clash map)")
    vk_ = [v for v in tmp.violations if v.rule == "R-C10-kind" or (v.rule == "floor" and ("reference-check" in v.key or "R-C10-kind" in v.key))]
    res.inst(UNIQ_ITEMS, "C10 kind and clash-map rule", "", True, "%d violations" % len(vk_))
    for v in vk_:
        res.violate(UNIQ_ITEMS, "c10|" + v.key, v.where, "the emitted module declares one item per user name and refers to each by kind; C10's rule fails: " + v.msg)
    bad = [v for v in tmp.violations if v.rule in ("R-C10-leaf", "R-C10-pass") or (v.rule == "floor" and ("R-C10-leaf" in v.key or "R-C10-pass" in v.key or "validator" in v.key))]
    res.inst(CAPS, "capitalisation-validators", "", True, "R-C10-leaf and R-C10-pass: %s" % ("hold" if not bad else bad[0].msg[:100]))
    if bad:
        res.violate(CAPS, "capitalisation-validators", bad[0].where, "lowercase literal names in templates are only safe if user item names cannot be lowercase-initial, but the capitalisation validation fails: " + bad[0].msg[:200])

    # ---- R-C05-dims
    from .c07 import check_table_cols
    from .. import dims
    tmp2 = R2("C07", "quick", "other")
    cols_ok, note = check_table_cols(mir, tmp2, "R-C07-tables")
    res.inst(DIMS, "table-lists-complete", "", True, note)
    for v in tmp2.violations:
        res.violate(DIMS, v.key, v.where, v.msg + " — the emitted arrays then have fewer columns than their declared length")
    bad_lists = {v.key.split("|", 1)[1] for v in tmp2.violations if "|" in v.key}
    # numbering of the emitted kind / state / rule-kind enums (C01's rule on the same facts): a dispatch arm or table
    # cell that names a variant the enum does not declare does not compile
    from . import c01 as _c01
    tmp3 = R2("C01", "quick", "other")
    _c01.check_kinds(ctx, syn, efile, ts, tmp3, "R-C01-kinds", "R-C01-payload", mir)
    vk = [v for v in tmp3.violations if v.rule in ("R-C01-kinds", "floor")]
    res.inst(DIMS, "enum-numbering (C01 kinds rule)", "", True, "%d violations" % len(vk))
    for v in vk:
        res.violate(DIMS, "numbering|" + v.key, v.where, v.msg)
    # payload types are spliced into the module as text: the printer must reproduce them token for token (C13's rule)
    from . import c13 as _c13
    tmp4 = R2("C13", "quick", "other")
    _c13.run_printer_rules(ctx, tmp4)
    vp = [v for v in tmp4.violations if v.rule in ("R-C13-printer", "R-C13-flatten", "floor")]
    res.inst(LIT, "payload-type printer (C13 printer rule)", "", True, "%d violations" % len(vp))
    for v in vp:
        res.violate(LIT, "payload-printer|" + v.key, v.where, "a payload type that is printed wrongly is spliced into the emitted module and does not compile: " + v.msg)
    dims.run(ctx, syn, efile, fmt, res, DIMS, {"table.terminals": cols_ok or "terminals" not in bad_lists, "table.nonterminals": cols_ok or "nonterminals" not in bad_lists} if note != "no Table aggregate found" else {})


def impl_stack_has_trait(toks, i):
    """is token i inside `impl Trait<..> for X { … }`?"""
    depth = 0
    j = i
    while j >= 0:
        if toks[j].s == "}":
            depth += 1
        elif toks[j].s == "{":
            if depth == 0:
                k = j
                while k >= 0 and toks[k].s != "impl" and toks[k].s not in ("}", ";"):
                    k -= 1
                return k >= 0 and toks[k].s == "impl" and any(x.s == "for" for x in toks[k:j])
            depth -= 1
        j -= 1
    return False


PATH_TAIL_FNS = set()


def alt_fn_name(t, tok):
    b = tpl.binding(t, tok.ph)
    if b is not None and b[0] == "let" and b[1] is not None:
        m = re.match(r"^self\.(\w+)\(", unparse(b[1]))
        return m.group(1) if m else None
    return None


def alt_inline_expr(t, tok):
    """the placeholder is bound to a `match` written in place (the helper inlined): that expression"""
    b = tpl.binding(t, tok.ph)
    e = b[1] if b is not None and b[0] == "let" else None
    # (a block that binds a few names and ends in the match — what an inlined helper with renamed parameters reads as)
    while e is not None and e.get("k") == "BlockExpr" and e["block"]["stmts"] and e["block"]["stmts"][-1].get("k") == "ExprStmt" and not e["block"]["stmts"][-1].get("semi") \
            and all(st.get("k") == "Let" for st in e["block"]["stmts"][:-1]):
        e = e["block"]["stmts"][-1]["expr"]
    if e is not None and e.get("k") == "Match":
        return e
    return None


PATH_TAIL_NODES = set()


def fn_alternatives(syn, efile, t, tok, consts):
    """leading identifiers of every string a helper `self.f(..)` can return (format templates and CONST.to_string())"""
    fname = alt_fn_name(t, tok)
    inline = alt_inline_expr(t, tok) if fname is None else None
    if fname is None and inline is None:
        return None
    out = []
    bodies = [fn["body"] for (p, impl, fn) in syn.all_fns(path=efile) if fn["name"] == fname] if fname is not None else [inline]
    for body_ in bodies:
        fn = {"body": body_}
        for m in nodes(fn["body"], "Macro"):
            if m["name"] == "format" and m["args"] and m["args"][0]["k"] == "Lit":
                segs = tpl.parse_format(m["args"][0]["lit"]["v"]) or []
                first = segs[0] if segs else None
                if first is None:
                    return None
                if first[0] == "ph":
                    if first[1] in consts:
                        out.append(consts[first[1]])
                    else:
                        return None
                else:
                    mm = re.match(r"^([A-Za-z_][A-Za-z0-9_]*)", first[1])
                    if not mm:
                        return None
                    out.append(mm.group(1))
        for m in nodes(fn["body"], "MethodCall"):
            if m["method"] in ("to_string", "to_owned") and ident_of(m["recv"]) in consts:
                out.append(consts[ident_of(m["recv"])])
    return out or None


def mark_inline_tail(t, tok):
    e = alt_inline_expr(t, tok)
    if e is not None:
        for m in nodes(e, "Macro"):
            PATH_TAIL_NODES.add(id(m))
        for l in nodes(e, "Lit"):
            PATH_TAIL_NODES.add(id(l))


def strip_ph(s_):
    if s_ is None:
        return "None"
    return re.sub(r"__PH_(.*?)__(?![A-Za-z0-9])", r"{\1}", s_)


def render(tok):
    if tok.k == "ph":
        return "{%s}" % tok.ph
    if tok.k == "mixed":
        return "".join(p[1] if p[0] != "ph" else "{%s}" % p[1] for p in tok.parts)
    return tok.s


def tkey_plain(t, tok):
    return render(tok)


def is_index(t, name):
    """is placeholder `name` bound to an enumerate() position (closure tuple param #0 over .enumerate(), or a
    usize parameter whose name ends in `index`)?"""
    b = tpl.binding(t, name)
    if b is None:
        return False
    if b[0] == "tuple-elem" and b[2] == 0 and isinstance(b[1], dict) and b[1].get("k") == "ClosureParam":
        # the closure is an argument of map/filter_map on a chain containing enumerate()
        return closure_over_enumerate(t, b[1]["closure"])
    if b[0] == "tuple-elem" and b[2] == 0 and isinstance(b[1], dict) and b[1].get("k") == "ForItem":
        # `for (i, x) in <..>.enumerate()`
        root, chain = method_chain(b[1]["expr"])
        return bool(chain) and chain[-1][1] == "enumerate"
    if b[0] == "param" and (b[2] or "").strip() == "usize":
        return True
    if b[0] in ("let", "arg") and b[1] is not None and b[1]["k"] == "Path" and ident_of(b[1]) != name:
        return is_index(t, ident_of(b[1]))
    if b[0] == "variant-payload":
        return False
    if b[0] == "let" and b[1] is not None:
        txt = unparse(b[1])
        return False
    return False


def closure_over_enumerate(t, closure):
    for m in nodes(t.fn_node["body"], "MethodCall"):
        if any(a is closure for a in m["args"]):
            root, chain = method_chain(m["recv"])
            return any(c[1] == "enumerate" for c in chain)
    return False


def list_source(t, name):
    b = tpl.binding(t, name)
    if b is None:
        return "?"
    if b[0] == "let" and b[1] is not None:
        txt = unparse(b[1])
        m = re.match(r"^self\.(\w+)\(\)", txt)
        if m:
            for (tt_fn) in [t.fn_node]:
                pass
            return "fn:" + m.group(1) + ":" + fn_iter_source(t, m.group(1))
        return txt
    return "?"


def fn_iter_source(t, fname):
    """the collection a helper `fn fname(&self) -> String` iterates"""
    src = getattr(t, "_syn", None)
    return FN_SOURCES.get(fname, "?")


FN_SOURCES = {}


def index_fn_sources(syn, efile):
    for (p, impl, fn) in syn.all_fns(path=efile):
        for m in nodes(fn["body"], "MethodCall"):
            root, chain = method_chain(m)
            if ident_of(root) == "self" and chain and chain[-1][1] in ("join", "collect"):
                flds = [c[1] for c in chain if c[0] == "field"]
                FN_SOURCES.setdefault(fn["name"], ".".join(flds))


def check(ctx):
    res = Result("C05", ctx["tier"], "other", ctx["seed"])
    syn = Syn(ctx["facts"]["syn"])
    files = tpl.find_emitter_file(syn)
    if files:
        index_fn_sources(syn, files[0])
    run_rules(ctx, res)
    res.assume("preconditions of the property: user identifiers are not Rust keywords or prelude items; field names within one fieldset are distinct")
    res.assume("not decided: general well-typedness of the emitted text for every grammar shape (the e2e crate compiles the fixture grammars)")
    return finish(res, "Template hygiene decided by a token walk over every format! literal of the emitter with each placeholder resolved to its binding (fresh name / user name / position index / derived text), plus MIR def-use for the avoid set and the fresh-name function: internal items are only named through fresh names, literal identifiers cannot collide with user names, paths on internal enums use the declared variants, binders and generated function names are collision-free, derives never reach user payload types, empty-arm matches scrutinise by value.")
