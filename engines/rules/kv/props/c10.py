"""C10 — static well-formedness rules are enforced and reported truthfully.

Decided on MIR: (a) enforcement structure (every validator on every path to Ok, over every element,
errors never lost), (b) kind soundness of the reference checks, (c) truthfulness as provenance of
each error payload, (d) exactly-one rules, (e) the capitalisation leaf predicate.
"""
import re

from ..mir import Mir, Exprs, E, canon, strip_transparent, Call, natural_loops, short_path, control_deps_transitive, borrow_root
from ..report import Result, finish
from ..errdisc import check_err_discipline, is_err_result

NARROWING = ("skip", "take", "step_by", "take_while", "skip_while", "nth", "last", "find", "filter", "rev", "find_map", "map_while", "position", "rposition", "max", "min", "max_by_key", "min_by_key", "peekable", "next", "next_back", "first", "split_first", "split_last", "chunks", "windows")

NAME_OWNER_KIND = {
    "data::ast::Struct": "NT", "data::ast::Enum": "NT",
    "data::ast::TerminalEnumVariant": "T", "data::ast::TerminalEnum": "E",
    "data::validated_file::TerminalVariant": "T", "data::validated_file::TerminalEnum": "E",
    "data::ast::EnumVariant": "VARIANT", "data::ast::NamedField": "FIELD",
}


def unwrap_name(s_):
    """peel name-view wrappers from a canonical expression"""
    prev = None
    while prev != s_:
        prev = s_
        s_ = re.sub(r"^(DollarlessTerminalName::raw|ToString@DollarlessTerminalName::to_string|ToString@\w+::to_string|str::to_owned|String::as_str)\((.*)\)$", r"\2", s_)
    return s_


def name_base(s_):
    """`X.name` / `X.name.name` -> X"""
    s_ = unwrap_name(s_)
    m = re.match(r"^(.*?)(\.name)+$", s_)
    return m.group(1) if m else None


def positions_of(base):
    return tuple(base + s_ for s_ in (".position", ".dollarless_position", ".name.position", ".name.dollarless_position"))


def validators(mir, err_path):
    """V: functions of the validation module tree returning Result<_, KikiErr>"""
    out = []
    for f in mir.fns.values():
        if f.kind in ("Fn", "AssocFn") and "/validate_ast/" in f.file and f.output is not None and is_err_result(f.output, err_path):
            out.append(f)
    return out


def err_variants_of(mir, fnkey, err_path, memo):
    """KikiErr variants constructible (transitively through local calls) by a function"""
    if fnkey in memo:
        return memo[fnkey]
    memo[fnkey] = set()
    fn = mir.fns.get(fnkey)
    out = set()
    if fn is not None:
        for b in fn.blocks:
            if b["cleanup"]:
                continue
            for s_ in b["stmts"]:
                if s_["k"] == "assign" and s_["rv"]["k"] == "agg" and s_["rv"].get("adt") == err_path:
                    out.add(s_["rv"]["variant"])
        for k in mir.callgraph().get(fnkey, ()):
            out |= err_variants_of(mir, k, err_path, memo)
    memo[fnkey] = out
    return out


def reaches_call_to(fn, start_bb, pred, stop=frozenset()):
    """does some path from start_bb reach a call satisfying pred (before returning, and without
    going round a loop: blocks in `stop` — the dominators of the dispatching block — end the walk)?"""
    seen = set()
    st = [start_bb]
    while st:
        b = st.pop()
        if b in seen or b in stop:
            continue
        seen.add(b)
        t = fn.blocks[b]["term"]
        if t["k"] == "call":
            c = Call(fn, b, t)
            if pred(c):
                return True
        st.extend(fn.succs(b))
    return False


def only_err_returns(fn, start_bb, err_path):
    """all paths from start_bb return an Err (no Ok written to the return place)"""
    seen = set()
    st = [start_bb]
    wrote_err = False
    while st:
        b = st.pop()
        if b in seen:
            continue
        seen.add(b)
        for s_ in fn.blocks[b]["stmts"]:
            if s_["k"] == "assign" and s_["pl"]["l"] == 0 and not s_["pl"]["p"] and s_["rv"]["k"] == "agg":
                if s_["rv"].get("variant") == "Ok":
                    return False
                if s_["rv"].get("variant") == "Err":
                    wrote_err = True
        t = fn.blocks[b]["term"]
        if t["k"] == "call":
            c = Call(fn, b, t)
            if c.dest["l"] == 0 and "from_residual" not in (c.rpath or ""):
                return False
        st.extend(fn.succs(b))
    return wrote_err


def enum_of_discr(fn, ex, bb):
    """(adt path, expr) if block bb switches on the discriminant of an enum-typed place"""
    t = fn.blocks[bb]["term"]
    if t["k"] != "switch":
        return None
    d = t["discr"]
    if d["k"] not in ("copy", "move"):
        return None
    for df in fn.defs(d["pl"]["l"]):
        if df[0] == "assign" and df[3]["rv"]["k"] == "discr":
            pl = df[3]["rv"]["pl"]
            ty = fn.local_ty(pl["l"])
            # type of the projected place: take last field's ty if any
            last = [e for e in pl["p"] if isinstance(e, dict) and "f" in e]
            tys = last[-1]["ty"] if last else ty["s"]
            return tys.lstrip("&").strip(), ex.place(pl)
    return None


def variant_of_target(mir, adt_path, val):
    a = mir.adts.get(adt_path)
    if a and 0 <= val < len(a["variants"]):
        return a["variants"][val]["name"]
    return "#%d" % val


OK_BY_CONSTRUCTION = (
    # (enum variant skipped, KikiErr variants the skipped validator can raise) -> reason
    (("Fieldset", "Empty"), None, "an empty fieldset has no fields and no symbols to validate"),
    (("IdentOrUnderscore", "Underscore"), {"FieldFirstLetterNotLowercase"}, "`_` is not a field name: the lowercase rule does not apply"),
    (("FileItem", "Start"), {"NameClash"}, "a start declaration defines no name"),
    (("FileItem", "Terminal"), {"NameClash"}, "terminal names are defined by the separate pass over the terminal enum"),
)


def check_pass(mir, V, entry, err_path, res):
    rule = "R-C10-pass"
    Vkeys = {f.key for f in V}
    reach = mir.reachable_from([entry.key], include_trait_impls=False)
    # (1) every validator is reachable from the entry
    for f in V:
        res.inst(rule, "reachable|" + f.path, f.where, True, str(f.key in reach))
        if f.key not in reach:
            res.violate(rule, "dead-validator|" + f.path, f.where, "validator %s is not reachable from the validation entry: its rule is not enforced" % f.path)
    # functions of the stage: V plus their closures
    stage = [mir.fns[k] for k in reach if "/validate_ast/" in mir.fns[k].file]
    memo = {}
    n_sites = 0
    selectors = {}
    for fn in stage:
        ex = Exprs(fn)
        # (2) narrowing adaptors over AST collections
        for c in fn.calls():
            nm = (c.rpath or "").rsplit("::", 1)[-1]
            if c.callee is None or not c.args or c.args[0]["k"] not in ("copy", "move") or c.args[0]["pl"]["p"]:
                continue
            aty = fn.local_ty(c.args[0]["pl"]["l"])
            over_ast = any(a.startswith("data::") for a in aty["adts"])
            is_iter = "iter" in (c.rpath or "").lower() or "slice" in (c.rpath or "")
            if nm in NARROWING and over_ast and is_iter and not c.local:
                # `next` of a for loop is not narrowing
                if nm == "next" and c.expn and "for" in c.expn:
                    continue
                res.violate(rule, "narrowing|%s|%s" % (fn.path, nm), c.where, "`%s` over a collection of grammar items in the validation stage: not every element is validated" % nm)
            if nm == "filter_map" and over_ast:
                sel = selector_variants(mir, fn, c, ex)
                res.inst(rule, "selector|%s" % fn.path, c.where, True, "selects %s" % (sorted(sel) if sel is not None else "?"))
                if sel is None:
                    res.unanalysable(rule, "selector|%s" % fn.path, c.where, "filter_map over grammar items whose closure is not a plain variant selector")
                else:
                    for v in sel:
                        selectors.setdefault(v, []).append(fn.path)
        # (3) guards of validator calls
        cd = None
        for c in fn.calls():
            is_v = c.local and c.rkey in Vkeys
            if not is_v:
                continue
            n_sites += 1
            if cd is None:
                cd = control_deps_transitive(fn)
            loops_ = natural_loops(fn)
            for (a, s_) in sorted(cd.get(c.bb, ())):
                t = fn.blocks[a]["term"]
                if t["k"] != "switch":
                    continue
                # a test inside a loop that the call is not part of does not decide whether the call happens: the call
                # comes after the loop whatever the loop's elements were (its dependence on such a test is only the
                # loop's own exit)
                if any(a in body_ and c.bb not in body_ and all(x_ in body_ for x_ in fn.succs(a) if not fn.blocks[x_]["cleanup"] and fn.blocks[x_]["term"]["k"] != "unreachable") for (h_, body_) in loops_):
                    continue  # (a test with a branch that leaves the loop - an early return - is still judged)
                dexpr = canon(ex.operand(t["discr"]))
                key = "guard|%s->%s" % (fn.path.rsplit("::", 1)[-1], mir.fns[c.rkey].path.rsplit("::", 1)[-1])
                if dexpr.startswith("discr(Try@Result::branch("):
                    continue
                if re.match(r"^discr\((Iterator@\w+|range|iter)::next\(", dexpr):
                    continue
                en = enum_of_discr(fn, ex, a)
                if en is not None and en[0] in mir.adts or (en is not None and en[0].split("<")[0] in mir.adts):
                    adt = en[0].split("<")[0]
                    # arms that reach no validator must be OK by construction
                    targets = list(t["targets"]) + [[None, t["otherwise"]]]
                    doms = fn.dominators().get(a, set())
                    for (val, tb) in targets:
                        if val is None:
                            if fn.blocks[tb]["term"]["k"] == "unreachable":
                                continue
                            covered = {v_ for (v_, _) in t["targets"]}
                            rest = [i_ for i_ in range(len(mir.adts[adt]["variants"])) if i_ not in covered]
                            vname = variant_of_target(mir, adt, rest[0]) if len(rest) == 1 else "<otherwise>"
                        else:
                            vname = variant_of_target(mir, adt, val)
                        if reaches_call_to(fn, tb, lambda cc: cc.local and cc.rkey in Vkeys, stop=doms):
                            continue
                        errs = err_variants_of(mir, c.rkey, err_path, memo)
                        short = adt.rsplit("::", 1)[-1]
                        allowed = False
                        for ((en_, vn_), evs, why) in OK_BY_CONSTRUCTION:
                            if en_ == short and vn_ == vname and (evs is None or errs <= evs):
                                allowed = True
                        res.inst(rule, key + "|skip|%s::%s" % (short, vname), c.where, True, "skipped validator can raise %s; allowed=%s" % (sorted(errs), allowed))
                        if not allowed:
                            res.violate(rule, key + "|skip|%s::%s" % (short, vname), c.where,
                                        "the call of validator %s is skipped for %s::%s although it enforces %s — that check does not apply to every element" % (mir.fns[c.rkey].path, short, vname, sorted(errs)))
                    continue
                # boolean test: the other side must lead only to an error return
                others = [x for x in fn.succs(a) if x != s_]
                if others and all(only_err_returns(fn, o, err_path) for o in others):
                    continue
                res.violate(rule, key + "|conditional", c.where, "the call of validator %s is guarded by `%s`, whose other branch does not fail: the rule is not enforced on every path" % (mir.fns[c.rkey].path, dexpr[:120]))
            res.inst(rule, "site|%s->%s" % (fn.path.rsplit("::", 1)[-1], mir.fns[c.rkey].path.rsplit("::", 1)[-1]), c.where, True, "")
        # validators passed as function values to map
        for c in fn.calls():
            for a in c.args:
                if a["k"] == "const" and "fn" in a and a["fn"].get("local") and a["fn"]["key"] in Vkeys:
                    nm = (c.rpath or "").rsplit("::", 1)[-1]
                    n_sites += 1
                    res.inst(rule, "fnvalue|%s->%s" % (fn.path.rsplit("::", 1)[-1], a["fn"]["path"].rsplit("::", 1)[-1]), c.where, True, "handed to `%s`" % nm)
                    if nm != "map":
                        res.violate(rule, "fnvalue|%s|%s" % (fn.path, nm), c.where, "validator passed as a function value to `%s` (only `map` over the whole collection, consumed by collect::<Result<..>>, is understood)" % nm)
    res.count("validators (V)", len(V))
    res.count("validator call sites examined", n_sites)
    res.floor("validators found", len(V), 15)
    res.floor("validator call sites examined", n_sites, 20)
    # complementary coverage of the item-kind selectors
    for v in ("Start", "Struct", "Enum", "Terminal"):
        res.inst(rule, "selector-coverage|" + v, "", True, "%s" % selectors.get(v))
        if v not in selectors:
            res.violate(rule, "selector-coverage|" + v, "", "no item-kind selector picks FileItem::%s: items of that kind are never validated" % v)
    return stage


def selector_variants(mir, fn, c, ex):
    """variants for which the filter_map closure/fn returns Some"""
    a = c.args[1]
    key = None
    if a["k"] == "const" and "fn" in a and a["fn"].get("local"):
        key = a["fn"]["key"]
    elif a["k"] in ("copy", "move") and not a["pl"]["p"]:
        ty = fn.local_ty(a["pl"]["l"])
        if ty.get("closures"):
            key = ty["closures"][0]
    elif a["k"] == "const" and "closure" in a:
        key = a["closure"]
    f = mir.fns.get(key)
    if f is None:
        return None
    fex = Exprs(f)
    sw = [i for i, b in enumerate(f.blocks) if not b["cleanup"] and b["term"]["k"] == "switch"]
    if len(sw) != 1:
        return None
    en = enum_of_discr(f, fex, sw[0])
    if en is None:
        return None
    adt = en[0].split("<")[0]
    t = f.blocks[sw[0]]["term"]
    out = set()
    for (val, tb) in list(t["targets"]) + [[None, t["otherwise"]]]:
        # does the arm write Some to the return place?
        seen = set()
        st = [tb]
        some = False
        while st:
            b = st.pop()
            if b in seen:
                continue
            seen.add(b)
            for s_ in f.blocks[b]["stmts"]:
                if s_["k"] == "assign" and s_["pl"]["l"] == 0 and s_["rv"]["k"] == "agg" and s_["rv"].get("variant") == "Some":
                    some = True
            st.extend(f.succs(b))
        if some:
            if val is None:
                return None
            out.add(variant_of_target(mir, adt, val))
    return out


# ------------------------------------------------------------------ kinds

def name_kind_of(e):
    """kind tag of a name expression from the owner of the field at its root"""
    e = strip_transparent(e)
    while e.k == "call" and e.a[1]:
        nm = short_path(e.a[0])
        if nm.endswith(("::raw", "::to_string", "::to_owned", "::clone", "::as_str", "::name")):
            if nm.endswith("Nonterminal::name"):
                return {"NT"}
            e = strip_transparent(e.a[1][0])
        else:
            break
    # walk down .name chains
    cur = e
    owners = []
    while cur.k == "field":
        owners.append((cur.a[1], cur.a[2]))
        cur = strip_transparent(cur.a[0])
    for (nm, owner) in owners:
        if nm in ("name", "dollarless_name") and owner in NAME_OWNER_KIND:
            return {NAME_OWNER_KIND[owner]}
    if e.k == "phi":
        out = set()
        for x in e.a[0]:
            k = name_kind_of(x)
            if k is None:
                return None
            out |= k
        return out
    return None


def closure_key_of(fn, op_or_expr):
    if isinstance(op_or_expr, E):
        e = strip_transparent(op_or_expr)
        if e.k == "agg" and e.a[0] == "closure":
            return e.a[1]
        if e.k == "const" and str(e.a[0]).startswith("fn:"):
            return None
    return None


def return_exprs(f):
    ex = Exprs(f)
    return ex.local(0)


def elem_kinds(mir, fn, e, depth=0):
    """kinds of the names contained in the collection/iterator expression e (None = unknown)"""
    if depth > 12:
        return None
    e = strip_transparent(e)
    if e.k == "call":
        nm = short_path(e.a[0])
        base = nm.rsplit("::", 1)[-1]
        if base in ("collect", "iter", "into_iter", "cloned", "copied", "from_iter") and e.a[1]:
            return elem_kinds(mir, fn, e.a[1][0], depth + 1)
        if base == "chain":
            a, b = elem_kinds(mir, fn, e.a[1][0], depth + 1), elem_kinds(mir, fn, e.a[1][1], depth + 1)
            return None if a is None or b is None else a | b
        if base in ("map", "filter_map", "flat_map") and len(e.a[1]) == 2:
            cl = strip_transparent(e.a[1][1])
            key = None
            if cl.k == "agg" and cl.a[0] == "closure":
                key = cl.a[1]
            elif cl.k == "const" and str(cl.a[0]).startswith("fn:"):
                p = cl.a[0][3:]
                fs = mir.by_path.get(p, [])
                key = fs[0].key if len(fs) == 1 else None
            f = mir.fns.get(key)
            if f is None:
                return None
            r = strip_transparent(Exprs(f).local(0))
            outs = r.a[0] if r.k == "phi" else [r]
            kinds = set()
            for o in outs:
                o = strip_transparent(o)
                if o.k == "agg" and o.a[1].endswith("::None"):
                    continue
                if o.k == "agg" and o.a[1].endswith("::Some") and o.a[2]:
                    o = o.a[2][0]
                k = name_kind_of(o)
                if k is None:
                    return None
                kinds |= k
            return kinds
        if base == "once" and e.a[1]:
            return name_kind_of(e.a[1][0])
    if e.k == "param":
        ty = fn.local_ty(e.a[0])
        if "data::validated_file::Nonterminal" in ty["adts"] and not any(a in ty["adts"] for a in ("data::validated_file::TerminalEnum",)):
            return {"NT"}
    return None


def find_set_content(mir, owner, field):
    """expression (and function) that fills field `field` of ADT `owner`"""
    out = []
    for fn in mir.fns.values():
        if fn.derived:
            continue
        for b in fn.blocks:
            if b["cleanup"]:
                continue
            for s_ in b["stmts"]:
                if s_["k"] == "assign" and s_["rv"]["k"] == "agg" and s_["rv"].get("adt") == owner and field in s_["rv"].get("fields", []):
                    idx = s_["rv"]["fields"].index(field)
                    out.append((fn, Exprs(fn).operand(s_["rv"]["ops"][idx]), s_["rv"]["ops"][idx]))
    return out


def inserted_kinds(mir, fn, op):
    """kinds of the names put into a set that is built empty and filled by `insert` calls in `fn`
    (None = unknown: another call receives the set mutably, or an inserted value has no known kind)"""
    if op["k"] not in ("copy", "move") or op["pl"]["p"]:
        return None
    l = op["pl"]["l"]
    # follow plain moves back to the local that is created by `new`
    for _ in range(6):
        defs = fn.defs(l)
        if len(defs) == 1 and defs[0][0] == "assign" and defs[0][3]["rv"]["k"] == "use" and defs[0][3]["rv"]["op"]["k"] in ("copy", "move") and not defs[0][3]["rv"]["op"]["pl"]["p"]:
            l = defs[0][3]["rv"]["op"]["pl"]["l"]
            continue
        break
    defs = fn.defs(l)
    if len(defs) != 1 or defs[0][0] == "assign":
        return None
    c0 = Call(fn, defs[0][1], defs[0][2])
    if not short_path(c0.rpath or "").endswith(("HashSet::new", "BTreeSet::new", "HashSet::with_capacity", "HashSet::default", "BTreeSet::default")):
        return None
    ex = Exprs(fn)
    kinds = set()
    for c in fn.calls():
        if c.bb == c0.bb:
            continue
        for ai, a in enumerate(c.args):
            pl, _via = borrow_root(fn, a)
            if pl is None or pl["l"] != l or a["k"] not in ("copy", "move"):
                continue
            if a["pl"]["l"] == l and not a["pl"]["p"]:
                continue  # the move into the aggregate / a by-value use is not a mutation we track here
            ty = fn.local_ty(a["pl"]["l"])["s"]
            if not ty.startswith("&mut"):
                continue
            if ai == 0 and short_path(c.rpath or "").endswith(("HashSet::insert", "BTreeSet::insert")) and len(c.args) == 2:
                k_ = name_kind_of(ex.operand(c.args[1]))
                if k_ is None:
                    return None
                kinds |= k_
            else:
                return None
    return kinds or None


def check_kind(mir, stage, err_path, res):
    rule = "R-C10-kind"
    want = {"UndefinedNonterminal": "NT", "UndefinedTerminal": "T"}
    n = 0
    for fn in stage:
        ex = Exprs(fn)
        cd = None
        for i, b in enumerate(fn.blocks):
            if b["cleanup"]:
                continue
            for s_ in b["stmts"]:
                if not (s_["k"] == "assign" and s_["rv"]["k"] == "agg" and s_["rv"].get("adt") == err_path and s_["rv"]["variant"] in want):
                    continue
                n += 1
                variant = s_["rv"]["variant"]
                kind = want[variant]
                if cd is None:
                    cd = control_deps_transitive(fn)
                tests = []
                for (a, succ) in cd.get(i, ()):
                    t = fn.blocks[a]["term"]
                    if t["k"] == "switch":
                        tests.append(ex.operand(t["discr"]))
                key = "%s|%s" % (fn.path.rsplit("::", 1)[-1], variant)
                kinds = None
                desc = None
                for te in tests:
                    te = strip_transparent(te)
                    if te.k == "un":
                        te = strip_transparent(te.a[1])
                    if te.k != "call":
                        continue
                    nm = short_path(te.a[0])
                    if nm.endswith(("HashSet::contains", "HashMap::contains_key", "BTreeSet::contains", "BTreeMap::contains_key")):
                        se = strip_transparent(te.a[1][0])
                        desc = canon(se)
                        if se.k == "field" and se.a[2] in mir.adts:
                            srcs = find_set_content(mir, se.a[2], se.a[1])
                            ks = set()
                            for (sf, sexpr, sop) in srcs:
                                k_ = elem_kinds(mir, sf, sexpr)
                                if k_ is None:
                                    k_ = inserted_kinds(mir, sf, sop)
                                if k_ is None:
                                    ks = None
                                    break
                                ks |= k_
                            kinds = ks if srcs else None
                        else:
                            kinds = elem_kinds(mir, fn, se)
                    elif nm.endswith("::any") or nm.endswith("::all") or nm.endswith("::contains"):
                        desc = canon(te)
                        # names compared inside the closure
                        cl = strip_transparent(te.a[1][1]) if len(te.a[1]) > 1 else None
                        if cl is not None and cl.k == "agg" and cl.a[0] == "closure":
                            cf = mir.fns.get(cl.a[1])
                            kinds = closure_compared_kinds(mir, cf)
                res.inst(rule, key, fn.where, True, "membership test over %s -> kinds %s" % (desc, sorted(kinds) if kinds is not None else None))
                if kinds is None:
                    res.violate(rule, key + "|unknown-set", fn.where, "cannot show that the set consulted before raising %s contains only %s names (set: %s): unanalysable" % (variant, {"NT": "nonterminal", "T": "terminal"}[kind], desc), {"reason": "unanalysable"})
                elif kinds != {kind}:
                    res.violate(rule, key + "|wrong-kind", fn.where, "%s is decided against a set holding %s names (%s); a reference must be resolved against definitions of its own kind only (%s)" % (variant, sorted(kinds), desc, kind))
    res.floor("reference-check error sites", n, 3)
    # clash map: receives NT, T and E
    kinds_in = set()
    n_ins = 0
    for fn in stage:
        ex = Exprs(fn)
        for c in fn.calls():
            # the same insertion through the entry API: the key is the key of `map.entry(key)`
            if short_path(c.rpath or "").endswith("VacantEntry::insert") and c.args and c.args[0]["k"] in ("copy", "move") and not c.args[0]["pl"]["p"] and "ByteIndex" in fn.local_ty(c.args[0]["pl"]["l"])["s"] and "String" in fn.local_ty(c.args[0]["pl"]["l"])["s"]:
                from ..mir import entry_of
                mk_ = entry_of(ex.operand(c.args[0]))
                if mk_ is not None:
                    k_ = name_kind_interproc(mir, stage, fn, mk_[1])
                    n_ins += 1
                    res.inst(rule, "clash-insert|" + fn.path.rsplit("::", 1)[-1], c.where, True, "key kind %s (entry form)" % (sorted(k_) if k_ else None))
                    if k_:
                        kinds_in |= k_
                continue
            if short_path(c.rpath or "").endswith(("HashMap::insert", "BTreeMap::insert")) and c.args and "ByteIndex" in (fn.local_ty(c.args[0]["pl"]["l"])["s"] if c.args[0]["k"] in ("copy", "move") and not c.args[0]["pl"]["p"] else "") and "String" in fn.local_ty(c.args[0]["pl"]["l"])["s"]:
                k_ = name_kind_interproc(mir, stage, fn, ex.operand(c.args[1]))
                n_ins += 1
                res.inst(rule, "clash-insert|" + fn.path.rsplit("::", 1)[-1], c.where, True, "key kind %s" % (sorted(k_) if k_ else None))
                if k_:
                    kinds_in |= k_
    if not {"NT", "T", "E"} <= kinds_in:
        res.violate(rule, "clash-map-kinds", "", "the top-level clash map must receive nonterminal names, terminal variant names and the terminal enum name; it receives %s" % sorted(kinds_in))
    # the same map must be threaded through all three definers: checked as "all inserts and gets go to a map received as parameter or the one created by the common caller"
    return n


def name_kind_interproc(mir, stage, fn, e, depth=0):
    """like name_kind_of, but a name rooted in a parameter is resolved at the call sites"""
    k_ = name_kind_of(e)
    if k_ is not None or depth > 3:
        return k_
    s_ = strip_transparent(e)
    while s_.k == "call" and s_.a[1]:
        s_ = strip_transparent(s_.a[1][0])
    # X.name with X = paramN (an identifier handed in by the caller)
    suffix = []
    cur = s_
    while cur.k == "field":
        suffix.append(cur)
        cur = strip_transparent(cur.a[0])
    if cur.k != "param":
        return None
    pi = cur.a[0]
    out = set()
    found = False
    for caller in stage:
        cex = Exprs(caller)
        for c in caller.calls():
            if c.local and c.rkey == fn.key and pi - 1 < len(c.args):
                found = True
                arg = cex.operand(c.args[pi - 1])
                # re-apply the field chain on top of the caller's argument
                ee = arg
                for f_ in reversed(suffix):
                    ee = E("field", ee, f_.a[1], f_.a[2])
                kk = name_kind_interproc(mir, stage, caller, ee, depth + 1)
                if kk is None:
                    return None
                out |= kk
    return out if found else None


def closure_compared_kinds(mir, cf):
    if cf is None:
        return None
    ex = Exprs(cf)
    kinds = set()
    found = False
    for c in cf.calls():
        nm = short_path(c.rpath or "")
        if nm.endswith("::eq") or nm.endswith("::ne"):
            for a in c.args:
                e = ex.operand(a)
                # skip the captured needle (field of the closure environment)
                s_ = strip_transparent(e)
                root = s_
                while root.k in ("field", "downcast", "call") and (root.a[1] if root.k == "call" else True):
                    root = strip_transparent(root.a[0] if root.k != "call" else root.a[1][0])
                if root.k == "param" and root.a[0] == 1:
                    continue
                k_ = name_kind_of(e)
                found = True
                if k_ is None:
                    return None
                kinds |= k_
    return kinds if found else None


# ------------------------------------------------------------------ truth

def check_truth(mir, stage, err_path, res):
    rule = "R-C10-truth"
    n = 0
    for fn in stage:
        ex = Exprs(fn)
        for i, b in enumerate(fn.blocks):
            if b["cleanup"]:
                continue
            for s_ in b["stmts"]:
                if not (s_["k"] == "assign" and s_["rv"]["k"] == "agg" and s_["rv"].get("adt") == err_path):
                    continue
                v = s_["rv"]["variant"]
                ops = [canon(ex.operand(o)) for o in s_["rv"]["ops"]]
                key = "%s|%s" % (fn.path.rsplit("::", 1)[-1], v)
                where = fn.where
                n += 1
                res.inst(rule, key, where, True, "%s" % ops)
                if v in ("NameClash", "NonterminalEnumVariantNameClash", "NonterminalEnumVariantSymbolSequenceClash"):
                    name, old, new = ops
                    m = re.match(r"^\((?:HashMap|BTreeMap)::get\((.*?), (.*)\) as Some\)\.0$", old)
                    if not m:
                        res.violate(rule, key + "|existing-position", where, "the first position of a clash error must be the value stored under the clashing key (payload of the failed `get`), found `%s`" % old)
                        continue
                    mapexpr, k_ = m.group(1), m.group(2)
                    if unwrap_name(k_) != unwrap_name(name):
                        res.violate(rule, key + "|name", where, "the reported name/sequence `%s` is not the key `%s` whose lookup hit" % (name, k_))
                    if v == "NonterminalEnumVariantSymbolSequenceClash":
                        mm = re.match(r"^\w+::\w+\((.*)\)$", k_)
                        base = mm.group(1) if mm else None
                        good = base is not None and new == base + ".name.position"
                    else:
                        base = name_base(k_)
                        good = base is not None and new in positions_of(base)
                    if not good:
                        res.violate(rule, key + "|new-position", where, "the second position `%s` does not belong to the declaration whose name/sequence `%s` clashed" % (new, k_))
                    # what is stored under a key is the position of the declaration that owns the key
                    for c in fn.calls():
                        if short_path(c.rpath or "").endswith(("HashMap::insert", "BTreeMap::insert")):
                            ik = canon(ex.operand(c.args[1]))
                            iv = canon(ex.operand(c.args[2]))
                            if v == "NonterminalEnumVariantSymbolSequenceClash":
                                mm = re.match(r"^\w+::\w+\((.*)\)$", ik)
                                ib = mm.group(1) if mm else None
                                okv = ib is not None and iv == ib + ".name.position"
                            else:
                                ib = name_base(ik)
                                okv = ib is not None and iv in positions_of(ib)
                            res.inst(rule, key + "|stored", c.where, True, "%s -> %s" % (ik, iv))
                            if not okv:
                                res.violate(rule, key + "|stored-position", c.where, "the position stored under `%s` is `%s`, not the position of the declaration that owns that name" % (ik, iv))
                            if unwrap_name(ik) != unwrap_name(k_):
                                res.violate(rule, key + "|stored-key", c.where, "the key inserted (`%s`) differs from the key looked up (`%s`)" % (ik, k_))
                elif v in ("UndefinedNonterminal", "UndefinedTerminal"):
                    name, pos = ops
                    base = name_base(name)
                    if base is None or pos not in positions_of(base):
                        res.violate(rule, key + "|position", where, "name `%s` and position `%s` do not belong to the same reference" % (name, pos))
                    # and the tested key is that very name
                    cd = control_deps_transitive(fn)
                    tested = []
                    for (a, succ) in cd.get(i, ()):
                        t = fn.blocks[a]["term"]
                        if t["k"] == "switch":
                            te = strip_transparent(ex.operand(t["discr"]))
                            if te.k == "un":
                                te = strip_transparent(te.a[1])
                            if te.k == "call" and short_path(te.a[0]).endswith(("::contains", "::contains_key")):
                                tested.append(unwrap_name(canon(te.a[1][1])))
                            if te.k == "call" and short_path(te.a[0]).endswith(("::any",)):
                                cl = strip_transparent(te.a[1][1])
                                tested += [unwrap_name(canon(x)) for x in (cl.a[2] if cl.k == "agg" else [])]
                    if tested and not any(t_ == unwrap_name(name) or name_base(name) == t_ for t_ in tested):
                        res.violate(rule, key + "|tested-name", where, "the name reported (`%s`) is not the name whose membership was tested (%s)" % (name, tested))
                elif v in ("MultipleStartSymbols", "MultipleTerminalEnums"):
                    (vec,) = ops
                    m = re.match(r"^Iterator::collect\(Iterator::map\(slice::iter\((.*)\), .*closure.*\)\)$", vec)
                    cd = control_deps_transitive(fn)
                    tested = None
                    for coll_, lens_ in length_guards(fn, ex, cd, i).items():
                        if lens_ == {2, 3, 4}:
                            tested = coll_
                    listed = re.sub(r"^Vec::as_slice\((.*)\)$", r"\1", m.group(1)) if m else None
                    if not (m and tested and listed == tested):
                        res.violate(rule, key + "|positions", where, "the position list must be mapped from the very collection whose length was tested (> 1): list from `%s`, test on `%s`" % (m.group(1) if m else vec, tested))
                elif v in ("SymbolOrTerminalEnumNameFirstLetterNotUppercase", "FieldFirstLetterNotLowercase"):
                    (pos,) = ops
                    if not re.match(r"^param\d+$", pos):
                        res.violate(rule, key + "|position", where, "capitalisation error carries `%s` instead of the position handed in with the name" % pos)
                    else:
                        # every caller passes (X.name, X.position) of the same X
                        pi = int(pos[5:])
                        name_params = [k + 1 for k, t in enumerate(fn.inputs) if t["s"] == "&str"]
                        for caller in stage:
                            cex = Exprs(caller)
                            for c in caller.calls():
                                if c.local and c.rkey == fn.key and name_params:
                                    an = canon(cex.operand(c.args[name_params[0] - 1]))
                                    ap = canon(cex.operand(c.args[pi - 1]))
                                    base = name_base(an)
                                    ck = key + "|caller|" + caller.path.rsplit("::", 1)[-1]
                                    res.inst(rule, ck, c.where, True, "(%s, %s)" % (an, ap))
                                    if base is None or ap not in positions_of(base):
                                        res.violate(rule, ck, c.where, "name `%s` and position `%s` passed to the capitalisation check do not belong to the same identifier" % (an, ap))
    res.floor("error construction sites with payload examined", n, 10)


def length_guards(fn, ex, cd, block):
    """the tests on the length of a collection that guard `block`, evaluated: returns {collection text: set of lengths in
    0..4 compatible with every guard taken}.  Understands is_empty, len() <op> k, PtrMetadata (slice patterns) and their
    negations, whichever way the branch is spelled."""
    out = {}
    ops = {"Eq": lambda a, b: a == b, "Ne": lambda a, b: a != b, "Gt": lambda a, b: a > b, "Ge": lambda a, b: a >= b, "Lt": lambda a, b: a < b, "Le": lambda a, b: a <= b}
    for (a, succ) in cd.get(block, ()):
        t = fn.blocks[a]["term"]
        if t["k"] != "switch":
            continue
        ce = canon(ex.operand(t["discr"]))
        neg = False
        while ce.startswith("Not(") and ce.endswith(")"):
            ce = ce[4:-1]
            neg = not neg
        zero_targets = [bb for (val, bb) in t["targets"] if val == 0]
        taken_true = succ not in zero_targets
        if neg:
            taken_true = not taken_true
        m1 = re.match(r"^(?:Vec|slice)::is_empty\((.*)\)$", ce)
        m2 = re.match(r"^\((?:(?:Vec|slice)::len|PtrMetadata)\((.*)\) (Eq|Ne|Gt|Ge|Lt|Le) const\((\d+)_usize\)\)$", ce)
        if m1:
            coll, pred = m1.group(1), (lambda n: n == 0)
        elif m2:
            k_ = int(m2.group(3))
            coll, pred = m2.group(1), (lambda n, o=m2.group(2), k=k_: ops[o](n, k))
        else:
            continue
        coll = re.sub(r"^Vec::as_slice\((.*)\)$", r"\1", coll)
        cur = out.setdefault(coll, set(range(5)))
        out[coll] = {n for n in cur if pred(n) == taken_true}
    return out


def check_count(mir, stage, err_path, res):
    rule = "R-C10-count"
    want = {"NoStartSymbol": "is_empty", "NoTerminalEnum": "is_empty", "MultipleStartSymbols": "gt1", "MultipleTerminalEnums": "gt1"}
    kind_of = {"NoStartSymbol": "Start", "MultipleStartSymbols": "Start", "NoTerminalEnum": "Terminal", "MultipleTerminalEnums": "Terminal"}
    seen = set()
    for fn in stage:
        ex = Exprs(fn)
        cd = None
        for i, b in enumerate(fn.blocks):
            if b["cleanup"]:
                continue
            for s_ in b["stmts"]:
                if s_["k"] == "assign" and s_["rv"]["k"] == "agg" and s_["rv"].get("adt") == err_path and s_["rv"]["variant"] in want:
                    v = s_["rv"]["variant"]
                    seen.add(v)
                    if cd is None:
                        cd = control_deps_transitive(fn)
                    good = False
                    lg = length_guards(fn, ex, cd, i)
                    desc = ["%s in %s" % (k_[:90], sorted(v_)) for k_, v_ in lg.items()]
                    for coll, lens in lg.items():
                        wanted = {0} if want[v] == "is_empty" else {2, 3, 4}
                        mm = re.match(r"^Iterator::collect\(Iterator::filter_map\(slice::iter\(param1\.items\), (.*)\)\)$", coll)
                        if lens == wanted and mm:
                            # the selector must pick exactly the right item kind
                            for c in fn.calls():
                                if (c.rpath or "").endswith("::filter_map"):
                                    sel = selector_variants(mir, fn, c, ex)
                                    if sel == {kind_of[v]}:
                                        good = True
                    res.inst(rule, "%s|%s" % (fn.path.rsplit("::", 1)[-1], v), fn.where, True, "guarded by %s" % desc)
                    if not good:
                        res.violate(rule, "%s|%s" % (fn.path.rsplit("::", 1)[-1], v), fn.where, "%s must be raised exactly when the collection of all %s items %s; guards found: %s" % (v, kind_of[v], "is empty" if want[v] == "is_empty" else "has more than one element", desc))
    for v in want:
        if v not in seen:
            res.violate(rule, "missing|" + v, "", "no construction site of %s: the exactly-one rule is not enforced" % v)


def check_leaf(mir, stage, err_path, res):
    rule = "R-C10-leaf"
    want = {"SymbolOrTerminalEnumNameFirstLetterNotUppercase": "is_ascii_uppercase", "FieldFirstLetterNotLowercase": "is_ascii_lowercase"}
    seen = set()
    for fn in stage:
        ex = Exprs(fn)
        cd = None
        for i, b in enumerate(fn.blocks):
            if b["cleanup"]:
                continue
            for s_ in b["stmts"]:
                if s_["k"] == "assign" and s_["rv"]["k"] == "agg" and s_["rv"].get("adt") == err_path and s_["rv"]["variant"] in want:
                    v = s_["rv"]["variant"]
                    seen.add(v)
                    if cd is None:
                        cd = control_deps_transitive(fn)
                    from ..mir import inline_helpers
                    tests = [inline_helpers(mir, canon(ex.operand(fn.blocks[a]["term"]["discr"]))) for (a, succ) in cd.get(i, ()) if fn.blocks[a]["term"]["k"] == "switch"]
                    pred = want[v]
                    name_params = [k + 1 for k, t in enumerate(fn.inputs) if t["s"] == "&str"]
                    np_ = "param%d" % name_params[0] if name_params else "?"
                    finder = r"Iterator::find\(str::chars\(%s\), .*closure.*\)" % np_
                    ok_pred = any(re.match(r"^\w+::%s\(\(%s as Some\)\.0\)$" % (pred, finder), t_) for t_ in tests)
                    ok_some = any(re.match(r"^discr\(%s\)$" % finder, t_) for t_ in tests)
                    # the finder closure is is_ascii_alphabetic
                    ok_find = False
                    # the finder may sit in a small helper that returns the first letter
                    finder_fns = [fn] + [mir.fns[c.rkey] for c in fn.calls() if c.local and c.rkey in mir.fns and mir.fns[c.rkey].output and "Option<char>" in mir.fns[c.rkey].output["s"]]
                    for c in [c_ for g_ in finder_fns for c_ in g_.calls()]:
                        if (c.rpath or "").endswith("Iterator::find"):
                            fn_c = c.fn
                            ty = fn_c.local_ty(c.args[1]["pl"]["l"]) if c.args[1]["k"] in ("copy", "move") and not c.args[1]["pl"]["p"] else {}
                            for ck in ty.get("closures", []):
                                cf = mir.fns.get(ck)
                                if cf is not None:
                                    cs = [short_path(cc.rpath or "") for cc in cf.calls()]
                                    ok_find = len(cs) == 1 and cs[0].endswith("::is_ascii_alphabetic")
                    res.inst(rule, "%s|%s" % (fn.path.rsplit("::", 1)[-1], v), fn.where, True, "tests %s" % tests)
                    if not (ok_pred and ok_some and ok_find):
                        res.violate(rule, "%s|%s" % (fn.path.rsplit("::", 1)[-1], v), fn.where, "%s must be raised iff the *first ASCII letter* of the name (find(is_ascii_alphabetic)) exists and is not %s; tests found: %s (finder is is_ascii_alphabetic: %s)" % (v, pred.replace("is_ascii_", ""), tests, ok_find))
    for v in want:
        if v not in seen:
            res.violate(rule, "missing|" + v, "", "no construction site of %s" % v)


def check(ctx):
    res = Result("C10", ctx["tier"], "other", ctx["seed"])
    mir = Mir(ctx["facts"]["mir"])
    res.rule("R-C10-pass", "every validator is reachable from the validation entry; no narrowing adaptor over grammar items; every call of a validator is control-dependent only on `?`, loop headers, variant dispatch whose skipped variants are OK by construction, or tests whose other side fails; the four item-kind selectors cover Start/Struct/Enum/Terminal")
    res.rule("R-C10-kind", "the membership test that decides UndefinedNonterminal consults a set holding exactly nonterminal names, the one deciding UndefinedTerminal exactly terminal names (kinds from the owner type of the name field at the root of each inserted value); the clash map receives all three name kinds")
    res.rule("R-C10-truth", "every error payload is rooted in the declaration whose rule failed: clash errors report the looked-up key, the position stored under it and the position of the declaration owning the key; Undefined* report name and position of the same reference whose name was tested; Multiple* lists are mapped from the collection whose length was tested; capitalisation errors carry the position passed in with the name")
    res.rule("R-C10-count", "No*/Multiple* errors are control-dependent on is_empty()/len()>1 of the collection of all items of the right kind")
    res.rule("R-C10-leaf", "capitalisation is decided on the first ASCII letter (find(is_ascii_alphabetic)) with is_ascii_uppercase / is_ascii_lowercase")
    res.rule("R-ERR-discipline", "every Result<_, KikiErr> is propagated (shared with C04)")
    errs = [p for p in mir.adts if p.rsplit("::", 1)[-1] == "KikiErr"]
    gens = [f for f in mir.fns.values() if f.pub and f.name == "generate" and f.kind == "Fn"]
    if len(errs) != 1 or len(gens) != 1:
        res.floor("anchors: KikiErr, generate", 0, 1)
        return finish(res, "anchors missing")
    err_path = errs[0]
    V = validators(mir, err_path)
    entry = [mir.fns[c.rkey] for c in gens[0].calls() if c.local and c.rkey in {f.key for f in V}]
    if len(entry) != 1:
        res.floor("anchor: validation entry called from generate", len(entry), 1)
        return finish(res, "anchors missing")
    stage = check_pass(mir, V, entry[0], err_path, res)
    check_kind(mir, stage, err_path, res)
    check_truth(mir, stage, err_path, res)
    check_count(mir, stage, err_path, res)
    check_leaf(mir, stage, err_path, res)
    reach = mir.reachable_from([gens[0].key], include_trait_impls=True)
    check_err_discipline(mir, reach, res)
    res.assume("not decided: the order in which simultaneous violations are reported (the property allows any present violation)")
    return finish(res, "Enforcement structure (must-pass-through with classified guards), kind soundness of the reference checks, provenance of every error payload, exactly-one rules and the capitalisation leaf predicate, all decided on MIR by value reconstruction and control dependence, role-anchored on the error variants and AST types.")
