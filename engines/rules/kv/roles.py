"""Functions found by ROLE — the types in their signature and, where two functions share a signature, one structural
trait of their body — never by their name.  Renaming a function, moving it between impl blocks or files, or merging two
impl blocks changes none of this.  A role that is not filled by exactly one function resolves to None and the rule that
needs it fails closed with a named anchor.

Types named here (Table, TableBuilder, Machine, StateIndex, Quasiterminal, Action, Goto, IndexUpdater, TerminalEnum,
Lookahead, File, ...) are the crate's data types; they anchor the roles the way a field name anchors a store."""
import re

from .mir import Exprs, canon, short_path, natural_loops


def _ty(t):
    return (t or {}).get("s", "")


def _head(t):
    return (t or {}).get("head", "")


def _self_is(f, suffix):
    return bool(f.impl) and not f.impl.get("trait") and _head(f.impl["self_ty"]).endswith(suffix)


def _sig(f):
    return [_ty(i) for i in f.inputs], _ty(f.output)


class Roles:
    def __init__(self, mir):
        self.mir = mir
        self._c = {}
        self._fns = [f for f in mir.fns.values() if not f.derived and f.kind in ("Fn", "AssocFn") and "/parser.rs" not in (f.file or "")]

    # ------------------------------------------------------------------ helpers
    def _one(self, key, pred):
        if key not in self._c:
            got = [f for f in self._fns if pred(f)]
            self._c[key] = got[0] if len(got) == 1 else None
            self._c[key + "#n"] = len(got)
        return self._c[key]

    def count(self, key):
        getattr(self, key)
        return self._c.get(key + "#n", 0)

    def sp(self, key):
        """canonical (short-path) name of the role's function, escaped for use inside a regular expression"""
        f = getattr(self, key)
        return re.escape(short_path(f.path)) if f is not None else r"\0unresolved-role\0"

    def name(self, key):
        f = getattr(self, key)
        return f.name if f is not None else None

    def nm(self, key):
        f = getattr(self, key)
        return short_path(f.path) if f is not None else "<unresolved role %s>" % key

    # ------------------------------------------------------------------ data layer: Table
    def _table_fn(self, key, n_in, mut, third, out):
        def pred(f):
            ins, o = _sig(f)
            if not _self_is(f, "table::Table") or len(ins) != n_in:
                return False
            if not ins[0].startswith("&mut " if mut else "&") or (not mut and ins[0].startswith("&mut ")):
                return False
            if n_in >= 3 and not (ins[1].endswith("StateIndex") and third(ins[2])):
                return False
            return out(o, ins)
        return self._one(key, pred)

    @property
    def table_state_count(self):
        return self._one("table_state_count", lambda f: _self_is(f, "table::Table") and _sig(f)[0] == ["&data::table::Table"] and _sig(f)[1] == "usize" and " Div " in canon(Exprs(f).local(0)))

    @property
    def table_action_index(self):
        return self._table_fn("table_action_index", 3, False, lambda t: "Quasiterminal" in t, lambda o, i: o == "usize")

    @property
    def table_goto_index(self):
        return self._table_fn("table_goto_index", 3, False, lambda t: t == "&str", lambda o, i: o == "usize")

    @property
    def table_action(self):
        return self._table_fn("table_action", 3, False, lambda t: "Quasiterminal" in t, lambda o, i: o.endswith("table::Action"))

    @property
    def table_goto(self):
        return self._table_fn("table_goto", 3, False, lambda t: t == "&str", lambda o, i: o.endswith("table::Goto"))

    @property
    def table_set_action(self):
        return self._table_fn("table_set_action", 4, True, lambda t: "Quasiterminal" in t, lambda o, i: i[3].endswith("table::Action"))

    @property
    def table_set_goto(self):
        return self._table_fn("table_set_goto", 4, True, lambda t: t == "&str", lambda o, i: i[3].endswith("table::Goto"))

    # ------------------------------------------------------------------ data layer: others
    @property
    def updater_update(self):
        return self._one("updater_update", lambda f: _self_is(f, "IndexUpdater") and len(f.inputs) == 2 and _ty(f.inputs[1]) == "usize" and _ty(f.output) == "usize")

    @property
    def updater_from_map(self):
        return self._one("updater_from_map", lambda f: _self_is(f, "IndexUpdater") and _sig(f)[0] == ["std::vec::Vec<usize>"] and _head(f.output).endswith("IndexUpdater"))

    @property
    def machine_shift_dest(self):
        return self._one("machine_shift_dest", lambda f: _self_is(f, "machine::Machine") and len(f.inputs) == 3 and _ty(f.inputs[1]).endswith("StateIndex") and "DollarlessTerminalName" in _ty(f.inputs[2]) and "Option<" in _ty(f.output) and "StateIndex" in _ty(f.output))

    @property
    def terminal_get_type(self):
        return self._one("terminal_get_type", lambda f: _self_is(f, "validated_file::TerminalEnum") and len(f.inputs) == 2 and "DollarlessTerminalName" in _ty(f.inputs[1]) and "Option<" in _ty(f.output) and "str" in _ty(f.output))

    @property
    def lookahead_as_quasiterminal(self):
        return self._one("lookahead_as_quasiterminal", lambda f: _self_is(f, "machine::Lookahead") and len(f.inputs) == 1 and "Quasiterminal" in _ty(f.output))

    @property
    def file_get_rules(self):
        return self._one("file_get_rules", lambda f: _self_is(f, "validated_file::File") and len(f.inputs) == 1 and "Iterator<Item = data::validated_file::Rule" in _ty(f.output))

    @property
    def symbol_accessor(self):
        """(fieldset, position) -> the symbol at that position"""
        return self._one("symbol_accessor", lambda f: _self_is(f, "ast::Fieldset") and len(f.inputs) == 2 and _ty(f.inputs[1]) == "usize" and "IdentOrTerminalIdent" in _ty(f.output))

    @property
    def fieldset_len(self):
        return self._one("fieldset_len", lambda f: _self_is(f, "ast::Fieldset") and len(f.inputs) == 1 and _ty(f.output) == "usize")

    # ------------------------------------------------------------------ tokens and the tokenizer
    @property
    def token_start(self):
        return self._one("token_start", lambda f: _self_is(f, "::Token") and len(f.inputs) == 1 and _ty(f.output).endswith("ByteIndex"))

    @property
    def token_len(self):
        return self._one("token_len", lambda f: _self_is(f, "::Token") and len(f.inputs) == 1 and _ty(f.output) == "usize")

    @property
    def tokenize_entry(self):
        return self._one("tokenize_entry", lambda f: f.kind == "Fn" and _sig(f)[0] == ["&str"] and "Vec<" in _ty(f.output) and "Token" in _ty(f.output) and "Result<" in _ty(f.output))

    @property
    def tokenizer_driver(self):
        """the method that consumes the tokenizer and returns the token vector"""
        return self._one("tokenizer_driver", lambda f: f.kind == "AssocFn" and f.impl is not None and not f.impl.get("trait") and len(f.inputs) == 1 and _head(f.inputs[0]) == _head(f.impl["self_ty"]) and "Vec<" in _ty(f.output) and "Token" in _ty(f.output) and "Result<" in _ty(f.output))

    def tokenizer_type(self):
        f = self.tokenizer_driver
        return _head(f.impl["self_ty"]) if f is not None else None

    def tokenizer_file(self):
        f = self.tokenize_entry
        return f.file if f is not None else None

    # ------------------------------------------------------------------ small accessors the emitter's source calls
    def _many(self, key, pred):
        if key not in self._c:
            self._c[key] = [f for f in self._all if pred(f)]
        return self._c[key]

    @property
    def _all(self):
        if "_all" not in self._c:
            self._c["_all"] = [f for f in self.mir.fns.values() if not f.derived and f.kind in ("Fn", "AssocFn") and "/parser.rs" not in (f.file or "")]
        return self._c["_all"]

    @property
    def indent_method(self):
        """the crate's own text-indenting method on str: (&str, usize) -> String from a local trait"""
        return self._one2("indent_method", lambda f: f.impl is not None and f.impl.get("trait") and not str(f.impl.get("trait")).startswith(("std::", "core::", "alloc::")) and _head(f.impl["self_ty"]) == "str" and _sig(f) == (["&str", "usize"], "std::string::String"))

    def _one2(self, key, pred):
        if key not in self._c:
            got = [f for f in self._all if pred(f)]
            self._c[key] = got[0] if len(got) == 1 else None
            self._c[key + "#n"] = len(got)
        return self._c[key]

    @property
    def field_is_used(self):
        """usedness predicate of one field: (&NamedField | &TupleField) -> bool"""
        return self._many("field_is_used", lambda f: (_self_is(f, "ast::NamedField") or _self_is(f, "ast::TupleField")) and len(f.inputs) == 1 and _ty(f.output) == "bool")

    @property
    def fieldset_has_used(self):
        return self._many("fieldset_has_used", lambda f: (_self_is(f, "ast::NamedFieldset") or _self_is(f, "ast::TupleFieldset")) and len(f.inputs) == 1 and _ty(f.output) == "bool")

    @property
    def dollarless_raw(self):
        return self._one("dollarless_raw", lambda f: _self_is(f, "DollarlessTerminalName") and len(f.inputs) == 1 and _ty(f.output) == "&str")

    @property
    def ctor_type_name(self):
        return self._one("ctor_type_name", lambda f: _self_is(f, "validated_file::ConstructorName") and len(f.inputs) == 1 and _ty(f.output) == "&str")

    @property
    def nonterminal_name(self):
        return self._one("nonterminal_name", lambda f: _self_is(f, "validated_file::Nonterminal") and len(f.inputs) == 1 and _ty(f.output) == "&str")

    @property
    def tuple_field_symbol(self):
        return self._one("tuple_field_symbol", lambda f: _self_is(f, "ast::TupleField") and len(f.inputs) == 1 and "IdentOrTerminalIdent" in _ty(f.output))

    # canonical source-level names of the roles the syntax-tree rules mention: the name each has on the tree the rules
    # were written against.  The syntax-tree loader renames role functions to these before any rule runs, so a rule
    # that says `indent` or `get_type` means "the function in that role", whatever it is called today.
    CANONICAL = {
        "indent_method": "indent", "terminal_get_type": "get_type", "file_get_rules": "get_rules", "dollarless_raw": "raw",
        "ctor_type_name": "type_name", "nonterminal_name": "name", "tuple_field_symbol": "symbol",
        "table_state_count": "state_count", "table_action": "action", "table_goto": "goto",
        "table_set_action": "set_action", "table_set_goto": "set_goto", "symbol_accessor": "get_symbol_ident", "fieldset_len": "len",
        "table_action_index": "action_index", "table_goto_index": "goto_index", "updater_update": "update", "updater_from_map": "from_map",
        "machine_shift_dest": "get_shift_dest", "lookahead_as_quasiterminal": "as_quasiterminal",
        "rule_indices_for_nonterminal": "get_rule_indices_for_nonterminal", "token_start": "start", "token_len": "content_len",
        "builder_set_action": "set_action", "builder_set_goto": "set_goto",
    }
    CANONICAL_MANY = {"field_is_used": "is_used", "fieldset_has_used": "has_used_field"}

    def source_renames(self):
        """{name in today's source: canonical name} for every resolved role whose name differs"""
        out = {}
        for role, canon_name in self.CANONICAL.items():
            f = getattr(self, role)
            if f is not None and f.name != canon_name:
                out[f.name] = canon_name
        for role, canon_name in self.CANONICAL_MANY.items():
            for f in getattr(self, role):
                if f.name != canon_name:
                    out[f.name] = canon_name
        return out

    @property
    def fresh_name_fn(self):
        """(preferred name: &str, a set of used names by &mut — as a parameter or inside `self`) -> String, testing
        and extending that set"""
        def pred(f):
            ins, o = _sig(f)
            if o != "std::string::String" or "&str" not in ins or "table_to_rust" not in (f.file or "") and False:
                return False
            if not any(t.startswith("&mut ") for t in ins):
                return False
            names = [short_path(c.rpath or "") for c in f.calls()]
            return any(n.endswith("HashSet::contains") or n.endswith("HashSet::insert") for n in names) and any(n.endswith("HashSet::insert") for n in names)
        return self._one("fresh_name_fn", pred)

    @property
    def file_defined_identifiers(self):
        return self._one("file_defined_identifiers", lambda f: _self_is(f, "validated_file::File") and len(f.inputs) == 1 and _ty(f.output).startswith("std::collections::HashSet<std::string::String"))

    # ------------------------------------------------------------------ table builder
    @property
    def builder_set_action(self):
        return self._one("builder_set_action", lambda f: _self_is(f, "TableBuilder") and f.inputs and _ty(f.inputs[0]).startswith("&mut ") and any(_ty(i).endswith("table::Action") for i in f.inputs) and any("Quasiterminal" in _ty(i) for i in f.inputs))

    @property
    def builder_set_goto(self):
        return self._one("builder_set_goto", lambda f: _self_is(f, "TableBuilder") and f.inputs and _ty(f.inputs[0]).startswith("&mut ") and any(_ty(i).endswith("table::Goto") for i in f.inputs))

    # ------------------------------------------------------------------ automaton construction
    @property
    def rule_indices_for_nonterminal(self):
        """(context, nonterminal name) -> iterator over the positions of its rules"""
        return self._one("rule_indices_for_nonterminal", lambda f: len(f.inputs) == 2 and "str" in _ty(f.inputs[1]) and "Iterator<Item = usize>" in _ty(f.output))

    # ------------------------------------------------------------------ pipeline stages (by the types they connect)
    @property
    def stage_validate(self):
        return self._one("stage_validate", lambda f: f.kind == "Fn" and len(f.inputs) == 1 and _ty(f.inputs[0]).endswith("ast::File") and "validated_file::File" in _ty(f.output) and "Result<" in _ty(f.output))

    @property
    def stage_machine(self):
        return self._one("stage_machine", lambda f: f.kind == "Fn" and len(f.inputs) == 1 and "validated_file::File" in _ty(f.inputs[0]) and _ty(f.output).endswith("machine::Machine"))

    @property
    def first_sets_entry(self):
        """the function computing the FIRST sets of all nonterminals: (..) -> HashMap<String, FirstSet>"""
        return self._one("first_sets_entry", lambda f: f.kind == "Fn" and "HashMap<" in _ty(f.output) and "FirstSet" in _ty(f.output) and not any("HashMap<" in _ty(i) for i in f.inputs))

    def stage_fns(self, role):
        """the non-derived local functions (closures included) reachable from the stage entry `role`, wherever they live"""
        f = getattr(self, role)
        if f is None:
            return []
        keys = self.mir.reachable_from([f.key], include_trait_impls=False)
        out = []
        for k in keys:
            g = self.mir.fns[k]
            if g.derived or "/parser.rs" in (g.file or ""):
                continue
            owner = g if g.kind != "Closure" else self.mir.fns.get(g.root or g.parent) or g
            if owner.impl is not None and _head(owner.impl["self_ty"]).endswith("::Oset"):
                continue  # the public ordered-set container (C18's subject) is not part of any stage
            out.append(g)
        return out

    @property
    def stage_table(self):
        return self._one("stage_table", lambda f: f.kind == "Fn" and len(f.inputs) == 2 and "machine::Machine" in _ty(f.inputs[0]) and "validated_file::File" in _ty(f.inputs[1]) and "table::Table" in _ty(f.output) and "Result<" in _ty(f.output))

    @property
    def stage_emit(self):
        return self._one("stage_emit", lambda f: f.kind == "Fn" and len(f.inputs) == 3 and "table::Table" in _ty(f.inputs[0]) and _ty(f.output).endswith("RustSrc"))


_cache = {}


def roles_of(mir):
    k = id(mir)
    if k not in _cache:
        _cache.clear()
        _cache[k] = Roles(mir)
    return _cache[k]


# ---------------------------------------------------------------------- private types by structure
CANONICAL_TYPES = ("TableBuilder", "SrcBuilder", "FirstSet", "DidChange", "IndexChange", "LeftBracketCount")


def type_renames(adts, impls):
    """{name of a private type in today's source: canonical name}, the type being found by its structure:
    TableBuilder = the struct holding the (state, look-ahead) -> action hash map; SrcBuilder = the struct holding
    references to the table and the validated file; FirstSet = {ordered set of terminal names, bool};
    DidChange = the one-bool struct with `|=`; IndexChange = the private struct of two usize; LeftBracketCount = the
    newtype of a NonZeroUsize.  A structure matched by several types (or none) is not renamed; the rules that need
    it then fail closed on their anchors."""
    def fields(a):
        vs = a.get("variants", [])
        return [f_["ty"].get("s", "") for f_ in vs[0]["fields"]] if a.get("kind") == "Struct" and len(vs) == 1 else None

    bitor = {(im.get("self_ty") or {}).get("head") for im in impls if im.get("trait") in ("std::ops::BitOrAssign", "core::ops::BitOrAssign")}
    found = {k: [] for k in CANONICAL_TYPES}
    for a in adts:
        fs = fields(a)
        if fs is None or "/parser.rs" in str((a.get("span") or {}).get("at", "")):
            continue
        if any("HashMap<" in t and "table::Action" in t for t in fs):
            found["TableBuilder"].append(a)
        if any("table::Table" in t and t.startswith("&") for t in fs) and any("validated_file::File" in t and t.startswith("&") for t in fs):
            found["SrcBuilder"].append(a)
        if len(fs) == 2 and sorted("bool" if t == "bool" else ("oset" if ("Oset<" in t and "DollarlessTerminalName" in t) else "?") for t in fs) == ["bool", "oset"]:
            found["FirstSet"].append(a)
        if fs == ["bool"] and a["path"] in bitor:
            found["DidChange"].append(a)
        if fs == ["usize", "usize"] and not a.get("pub"):
            found["IndexChange"].append(a)
        if len(fs) == 1 and "NonZero" in fs[0] and "usize" in fs[0]:
            found["LeftBracketCount"].append(a)
    out = {}
    for cname, l in found.items():
        if len(l) == 1:
            actual = l[0]["path"].rsplit("::", 1)[-1]
            if actual != cname:
                out[actual] = cname
    return out


# ---------------------------------------------------------------------- fields of private structs by their type
# (frozen from the tree the rules were written against: for each private struct, the fields whose type is unique within
# the struct.  `?` stands for any crate-private type — those may be renamed themselves.)  A private struct of today's
# tree is matched to an entry when it has exactly one field of each of the entry's types; its fields of those types are
# then presented under the canonical names.  Fields that share their type with a sibling (the String names of the
# emitter, the two positions of the index-change record) are not covered: the rules that read them do so by what is
# stored in them.
FIELD_CANON = [
    {"&data::machine::Machine": "machine", "&data::validated_file::File": "file", "std::vec::Vec<data::validated_file::Rule>": "rules"},
    {"std::collections::HashMap<(data::machine::StateIndex,data::table::Quasiterminal),(&data::machine::StateItem,data::table::Action)>": "actions",
     "std::collections::HashMap<(data::machine::StateIndex,&str),data::table::Goto>": "gotos", "&?": "context"},
    {"&str": "grammar_src", "&data::table::Table": "table", "&data::validated_file::File": "file",
     "std::collections::HashMap<data::DollarlessTerminalName,std::string::String>": "node_to_terminal_method_names"},
    {"&str": "src", "std::vec::Vec<parser::Token>": "out", "?": "state"},
    {"?": "context", "std::vec::Vec<data::machine::State>": "states", "std::collections::HashSet<data::machine::Transition>": "transitions",
     "std::collections::VecDeque<data::machine::StateIndex>": "queue"},
    {"std::string::String": "start_nonterminal_name", "std::vec::Vec<data::validated_file::Rule>": "rules", "std::collections::HashMap<std::string::String,?>": "first_sets"},
    {"data::oset::Oset<data::DollarlessTerminalName>": "terminals", "bool": "contains_epsilon"},
    {"&[data::validated_file::Rule]": "rules", "&[data::validated_file::Nonterminal]": "nonterminals"},
]


def _norm_ty(t, priv):
    t = re.sub(r"'\w+\s*", "", t)
    t = re.sub(r"<\s*>", "", t)
    for p in priv:
        t = t.replace(p, "?")
    t = re.sub(r"\?<[^<>]*>", "?", t)
    return t.replace(" ", "")


def field_renames(adts):
    """{(owner path, field name today): canonical field name} for private structs matched by field types (FIELD_CANON)"""
    priv = sorted({a["path"] for a in adts if not a.get("pub")}, key=len, reverse=True)
    out = {}
    for a in adts:
        if a.get("kind") != "Struct" or a.get("pub") or len(a.get("variants", [])) != 1 or "/parser.rs" in str((a.get("span") or {}).get("at", "")):
            continue
        fs = [(f_["name"], _norm_ty(f_["ty"].get("s", ""), priv)) for f_ in a["variants"][0]["fields"]]
        tys = [t for _, t in fs]
        best = None
        for entry in FIELD_CANON:
            if all(tys.count(t) == 1 for t in entry) and (len(entry) >= 3 or len(tys) == len(entry)):
                if best is None or len(entry) > len(best):
                    best = entry
                elif len(entry) == len(best):
                    best = False
        if not best:
            continue
        for (n, t) in fs:
            if t in best and n != best[t]:
                out[(a["path"], n)] = best[t]
    return out
