"""Loader and helpers for the syntax facts (engines/synfacts)."""
import json
import os
import subprocess
import tempfile


class Syn:
    def __init__(self, path, synfacts_bin=None):
        with open(path) as f:
            raw = f.read()
        mirp0 = os.path.join(os.path.dirname(os.path.abspath(path)), "mir.json")
        tren = _type_renames(mirp0) if os.path.exists(mirp0) else {}
        if tren:
            import re as _re
            raw = _re.sub(r"\b(%s)\b" % "|".join(_re.escape(k) for k in tren), lambda m: tren[m.group(1)], raw)
        self.j = json.loads(raw)
        self.path = path
        self.files = {f["path"]: f for f in self.j["files"]}
        self.bin = synfacts_bin
        # accumulator loops (`let mut s = String::new(); for .. { s.push_str(..) }`) are read as the equivalent
        # `map(..).collect()` chain, so that the template rules do not depend on which of the two spellings is used
        from . import synnorm
        self.normalised = 0
        for f in self.j["files"]:
            self.normalised += synnorm.normalise(f)
        # in the emitter's file family, a private method called once is read inlined into its caller (up to three
        # rounds: a helper of a helper)
        try:
            fam = _emitter_family(self.j["files"])
            for _ in range(3):
                k_ = synnorm.inline_single_use_methods(fam) if fam else 0
                self.normalised += k_
                if not k_:
                    break
        except Exception:
            pass
        # functions found by role (kv/roles.py, from the MIR facts extracted together with these) are given their
        # canonical names, so that no syntax-tree rule depends on what a private function happens to be called
        self.renamed = {}
        mirp = os.path.join(os.path.dirname(os.path.abspath(path)), "mir.json")
        fren = _field_renames(mirp) if os.path.exists(mirp) else {}
        if fren:
            for f in self.j["files"]:
                if not f["path"].endswith("/parser.rs"):
                    _apply_field_renames(f, fren)
        if os.path.exists(mirp):
            self.renamed = _role_renames(mirp)
            if self.renamed:
                for f in self.j["files"]:
                    if not f["path"].endswith("/parser.rs"):
                        _apply_renames(f, self.renamed)

    def file(self, path):
        return self.files.get(path)

    def items(self, path, include_tests=False):
        f = self.files.get(path)
        if f is None:
            return []
        return [i for i in f["items"] if include_tests or not is_cfg_test(i)]

    def all_fns(self, path=None, include_tests=False):
        """yields (file path, impl node or None, fn node)"""
        for p, f in self.files.items():
            if path is not None and p != path and not (path.endswith(".rs") and p.startswith(path[:-3] + "/") and "/tests" not in p):
                continue  # (a file's child modules — `x.rs` and `x/*.rs` — belong to it: code moved into one is still found)
            yield from _fns_in(p, f["items"], include_tests)

    def parse_snippets(self, snippets):
        """snippets: list of (id, kind, text); returns dict id -> {'ok': ast} | {'err':..., 'line':...}"""
        if not self.bin:
            raise RuntimeError("synfacts binary not configured")
        with tempfile.TemporaryDirectory(prefix="kikiverif-snip-") as d:
            inp = os.path.join(d, "in.txt")
            outp = os.path.join(d, "out.json")
            with open(inp, "w") as f:
                for (i, kind, text) in snippets:
                    f.write("%s\t%s\t%s\n" % (i, kind, text.encode("utf-8").hex()))
            subprocess.run([self.bin, "--snippets", inp, outp], check=True)
            with open(outp) as f:
                arr = json.load(f)
        return {x["id"]: x for x in arr}


def is_cfg_test(item):
    return any("cfg" in a and "test" in a for a in item.get("attrs", []))


def _fns_in(p, items, include_tests, impl=None):
    for it in items:
        if not include_tests and is_cfg_test(it):
            continue
        k = it["k"]
        if k == "Fn":
            yield (p, impl, it)
        elif k == "Impl":
            for sub in it["items"]:
                if sub["k"] == "Fn":
                    yield (p, it, sub)
        elif k == "Mod" and it.get("items"):
            yield from _fns_in(p, it["items"], include_tests)


def walk(n):
    """all dict nodes (depth first, pre-order)"""
    if isinstance(n, dict):
        yield n
        for v in n.values():
            yield from walk(v)
    elif isinstance(n, list):
        for x in n:
            yield from walk(x)


def nodes(n, kind):
    return [x for x in walk(n) if x.get("k") == kind]


def path_str(e):
    """'A::B' for a Path expression / pattern path, else None"""
    if e is None:
        return None
    if e.get("k") in ("Path", "PPath"):
        return "::".join(e["path"]["segs"])
    if "segs" in e:
        return "::".join(e["segs"])
    return None


def ident_of(e):
    """single identifier expression -> name"""
    if e is not None and e.get("k") == "Path" and len(e["path"]["segs"]) == 1 and not e.get("qself"):
        return e["path"]["segs"][0]
    return None


def lit_of(e, t=None):
    if e is not None and e.get("k") in ("Lit", "PLit"):
        l = e["lit"]
        if t is None or l["t"] == t:
            return l["v"]
    return None


def method_chain(e):
    """flatten a.b().c(x).d -> (root expr, [(kind, name, args)])"""
    chain = []
    cur = e
    while True:
        k = cur.get("k")
        if k == "MethodCall":
            chain.append(("call", cur["method"], cur["args"], cur))
            cur = cur["recv"]
        elif k == "Field":
            chain.append(("field", cur["member"], [], cur))
            cur = cur["base"]
        elif k == "Try":
            chain.append(("try", "?", [], cur))
            cur = cur["expr"]
        elif k == "Ref":
            chain.append(("ref", "&", [], cur))
            cur = cur["expr"]
        elif k == "Unary" and cur["op"] == "*":
            chain.append(("deref", "*", [], cur))
            cur = cur["expr"]
        else:
            break
    chain.reverse()
    return cur, chain


def unparse(e, depth=0):
    """compact source-like rendering for messages (not exact Rust)"""
    if e is None:
        return ""
    if isinstance(e, str):
        return e
    k = e.get("k")
    if depth > 12:
        return "…"
    d = depth + 1
    if k in ("Path", "PPath"):
        return "::".join(e["path"]["segs"])
    if k == "Lit" or k == "PLit":
        l = e["lit"]
        if l["t"] == "str":
            return json.dumps(l["v"])
        if l["t"] == "char":
            return "'%s'" % l["v"].replace("\n", "\\n")
        return str(l["v"])
    if k == "MethodCall":
        return "%s.%s(%s)" % (unparse(e["recv"], d), e["method"], ", ".join(unparse(a, d) for a in e["args"]))
    if k == "Call":
        return "%s(%s)" % (unparse(e["func"], d), ", ".join(unparse(a, d) for a in e["args"]))
    if k == "Field":
        return "%s.%s" % (unparse(e["base"], d), e["member"])
    if k == "Binary":
        return "%s %s %s" % (unparse(e["left"], d), e["op"], unparse(e["right"], d))
    if k == "Unary":
        return "%s%s" % (e["op"], unparse(e["expr"], d))
    if k == "Ref":
        return "&%s%s" % ("mut " if e["mut"] else "", unparse(e["expr"], d))
    if k == "Try":
        return unparse(e["expr"], d) + "?"
    if k == "Index":
        return "%s[%s]" % (unparse(e["expr"], d), unparse(e["index"], d))
    if k == "Range":
        return "%s%s%s" % (unparse(e["start"], d) if e["start"] else "", e["limits"], unparse(e["end"], d) if e["end"] else "")
    if k == "Tuple":
        return "(%s)" % ", ".join(unparse(a, d) for a in e["elems"])
    if k == "Macro":
        return "%s!(%s)" % (e["name"], e["tokens"][:60])
    if k == "Struct":
        return "%s { %s }" % (e["path"]["src"], ", ".join("%s: %s" % (f["member"], unparse(f["expr"], d)) for f in e["fields"]))
    if k == "Return":
        return "return %s" % unparse(e["expr"], d)
    if k == "PIdent":
        return e["name"]
    if k == "PTupleStruct":
        return "%s(%s)" % ("::".join(e["path"]["segs"]), ", ".join(unparse(a, d) for a in e["elems"]))
    if k == "PTuple":
        return "(%s)" % ", ".join(unparse(a, d) for a in e["elems"])
    if k == "PStruct":
        return "%s { %s }" % ("::".join(e["path"]["segs"]), ", ".join(fl["member"] if fl["pat"].get("k") == "PIdent" and fl["pat"].get("name") == fl["member"] else "%s: %s" % (fl["member"], unparse(fl["pat"], d)) for fl in e["fields"]))
    if k == "PWild":
        return "_"
    if k == "POr":
        return " | ".join(unparse(a, d) for a in e["cases"])
    if k == "Cast":
        return "%s as %s" % (unparse(e["expr"], d), e["ty"])
    if k == "Closure":
        return "|%s| %s" % (", ".join(unparse(a, d) for a in e["inputs"]), unparse(e["body"], d))
    if k == "If":
        return "if %s {…}" % unparse(e["cond"], d)
    if k == "LetCond":
        return "let %s = %s" % (unparse(e["pat"], d), unparse(e["expr"], d))
    if k == "Match":
        return "match %s {…}" % unparse(e["expr"], d)
    if k == "BlockExpr" or k == "Block":
        return "{…}"
    return "<%s>" % k


def inline_lets(e, lets, depth=0):
    """copy of expression `e` with identifiers bound by simple `let` statements replaced by their
    initialisers (recursively), and `ByteIndex(x).0` simplified to `x`"""
    if depth > 30 or e is None:
        return e
    if isinstance(e, list):
        return [inline_lets(x, lets, depth) for x in e]
    if not isinstance(e, dict):
        return e
    if e.get("k") == "Path" and len(e["path"]["segs"]) == 1 and e["path"]["segs"][0] in lets:
        return inline_lets(lets[e["path"]["segs"][0]], lets, depth + 1)
    out = {k: inline_lets(v, lets, depth) if isinstance(v, (dict, list)) else v for k, v in e.items()}
    if out.get("k") == "Field" and out.get("member") == "0":
        b = out["base"]
        if isinstance(b, dict) and b.get("k") == "Call" and path_str(b["func"]) == "ByteIndex" and len(b["args"]) == 1:
            return b["args"][0]
    return out


def simple_lets(stmts):
    out = {}
    for st in stmts:
        if st["k"] != "Let" or st.get("init") is None or st.get("else") is not None:
            continue
        p = st["pat"]
        if p["k"] == "PType":
            p = p["pat"]
        if p["k"] == "PIdent" and p["sub"] is None:
            out[p["name"]] = st["init"]
    return out


_RENAMES = {}


def _role_renames(mirp):
    if mirp not in _RENAMES:
        from .mir import Mir
        from .roles import Roles
        try:
            _RENAMES[mirp] = Roles(Mir(mirp, canonical_roles=False)).source_renames()
        except Exception:
            _RENAMES[mirp] = {}
    return _RENAMES[mirp]


def _apply_renames(tree, ren):
    """rename identifiers (function names, method names, path segments) actual -> canonical; a name that is already
    taken by the canonical spelling but belongs to something else is moved out of the way first"""
    taken = set(ren.values())
    for n in walk(tree):
        k = n.get("k")
        if k == "Fn" and isinstance(n.get("name"), str):
            nm = n["name"]
            n["name"] = ren.get(nm, nm + "__other" if nm in taken else nm)
        elif k == "MethodCall" and isinstance(n.get("method"), str):
            nm = n["method"]
            n["method"] = ren.get(nm, nm)
        elif k in ("Path", "PPath") and isinstance(n.get("path"), dict):
            segs = n["path"]["segs"]
            if any(s_ in ren for s_ in segs):
                n["path"]["segs"] = [ren.get(s_, s_) for s_ in segs]
                n["path"]["src"] = "::".join(n["path"]["segs"])


_TRENAMES = {}


def _type_renames(mirp):
    if mirp not in _TRENAMES:
        from .roles import type_renames
        try:
            with open(mirp) as f:
                j = json.load(f)
            _TRENAMES[mirp] = type_renames(j["adts"], j["impls"])
        except Exception:
            _TRENAMES[mirp] = {}
    return _TRENAMES[mirp]


_FRENAMES = {}


def _field_renames(mirp):
    """{field name in today's source: canonical name} (owners dropped: the syntax tree does not know them; a name that
    two different owners would map differently is left alone)"""
    if mirp not in _FRENAMES:
        from .roles import field_renames, type_renames
        try:
            with open(mirp) as f:
                raw = f.read()
            j = json.loads(raw)
            fr = field_renames(j["adts"])
            flat, bad = {}, set()
            for (o, n), c in fr.items():
                if n in flat and flat[n] != c:
                    bad.add(n)
                flat[n] = c
            # a name that is also a field of some other struct (and stays there) is ambiguous in the syntax tree
            others = {f_["name"] for a in j["adts"] for v in a.get("variants", []) for f_ in v["fields"] if (a["path"], f_["name"]) not in fr}
            _FRENAMES[mirp] = {n: c for n, c in flat.items() if n not in bad and n not in others}
        except Exception:
            _FRENAMES[mirp] = {}
    return _FRENAMES[mirp]


def _apply_field_renames(tree, ren):
    for n in walk(tree):
        k = n.get("k")
        if k == "Field" and isinstance(n.get("member"), str) and n["member"].strip() in ren:
            n["member"] = ren[n["member"].strip()]
        elif k in ("Struct", "PStruct") and isinstance(n.get("fields"), list):
            for fl in n["fields"]:
                m = fl.get("member")
                if isinstance(m, str) and m.strip() in ren:
                    fl["member"] = ren[m.strip()]
                    if fl.get("shorthand"):
                        fl["shorthand"] = False  # `S { x }` with field x renamed to y reads `S { y: x }`


def norm_owned_text(txt):
    """one spelling for the ways of making an owned String of a text: `.to_owned()`, `.to_string()`, `String::from(x)`,
    `x.into()` are `.to_string()`; `String::new()` is `"".to_string()` (all whitespace removed)"""
    import re as _re
    t = txt.replace(" ", "")
    t = t.replace(".to_owned()", ".to_string()")
    t = t.replace("String::new()", '"".to_string()')
    for _ in range(4):
        t2 = _re.sub(r"String::from\(((?:[^()]|\([^()]*\))*)\)", r"\1.to_string()", t)
        if t2 == t:
            break
        t = t2
    return t


def _emitter_family(files):
    """the file whose non-test code has a format! literal containing `pub fn parse`, with its child modules"""
    main = []
    for f in files:
        p = f["path"]
        if "/tests" in p or p.endswith("build.rs") or p.endswith("/parser.rs"):
            continue
        for it in f["items"]:
            if is_cfg_test(it):
                continue
            if any(m.get("name") == "format" and m.get("args") and m["args"][0].get("k") == "Lit" and m["args"][0]["lit"].get("t") == "str" and "pub fn parse" in m["args"][0]["lit"]["v"] for m in nodes(it, "Macro")):
                main.append(p)
                break
    if len(main) != 1:
        return []
    stem = main[0][:-3] + "/"
    return [f for f in files if f["path"] == main[0] or (f["path"].startswith(stem) and "/tests" not in f["path"])]
