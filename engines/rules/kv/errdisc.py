"""R-ERR-discipline — no error of the crate's error type is dropped on the way to generate's caller.

Every value of type Result<_, KikiErr> produced by a call in a function reachable from generate
must be consumed by `?` (Try::branch), by being moved into the return place, or by an
error-preserving combinator whose result is again tracked.  Anything else (statement drop,
`let _ =`, `.ok()`, `.is_ok()`, `unwrap_or*`, a match that looks at the discriminant, an adaptor
that erases the type) is reported.
"""
from .mir import Call, parse_at

ERR_PRESERVING = (
    "<std::result::Result<T, E> as std::ops::Try>::branch",
    "std::result::Result::<T, E>::map_err",
    "std::result::Result::<T, E>::map",
    "std::result::Result::<T, E>::and_then",
    "std::result::Result::<T, E>::or_else",
    "<std::result::Result<T, F> as std::ops::FromResidual<std::result::Result<std::convert::Infallible, E>>>::from_residual",
    "std::hint::must_use",
)
ERR_SWALLOWING_NAMES = ("ok", "is_ok", "is_err", "unwrap_or", "unwrap_or_else", "unwrap_or_default", "iter", "into_iter", "iter_mut", "err", "is_ok_and", "is_err_and", "map_or", "map_or_else", "unwrap", "expect", "unwrap_err", "expect_err", "flatten", "copied", "cloned", "as_ref", "as_mut")


def is_err_result(ty, err_path):
    return ty["head"] == "std::result::Result" and ty["refs"] == 0 and len(ty.get("targs", [])) == 2 and ty["targs"][1] == err_path


def mentions_err(ty, err_path):
    return err_path in ty["adts"]


def uses_of_local(fn, l):
    """(kind, block, detail) for every read of local l (the whole value; a read of a payload through a
    downcast projection presupposes a discriminant test, which is what gets judged) on the normal CFG"""
    out = []
    live = fn.reachable_blocks()

    def whole(pl):
        return pl["l"] == l and not pl["p"]

    for i, b in enumerate(fn.blocks):
        if b["cleanup"] or i not in live:
            continue
        for st in b["stmts"]:
            if st["k"] != "assign":
                continue
            rv = st["rv"]
            for fld in ("op", "a", "b"):
                o = rv.get(fld)
                if isinstance(o, dict) and o.get("k") in ("copy", "move") and whole(o["pl"]):
                    out.append(("assign-" + rv["k"], i, st))
            if "pl" in rv and whole(rv["pl"]):
                out.append(("assign-" + rv["k"], i, st))
            for o in rv.get("ops", []):
                if o["k"] in ("copy", "move") and whole(o["pl"]):
                    out.append(("assign-agg", i, st))
        t = b["term"]
        if t["k"] == "call":
            for ai, a in enumerate(t["args"]):
                if a["k"] in ("copy", "move") and whole(a["pl"]):
                    out.append(("call-arg", i, (ai, Call(fn, i, t), a)))
        elif t["k"] == "switch":
            d = t["discr"]
            if d["k"] in ("copy", "move") and whole(d["pl"]):
                out.append(("switch", i, t))
    return out


def hand_match_propagates(fn, l, kind, d, origin_bb):
    """`match r { Ok(v) => v, Err(e) => return Err(e) }`: None when the Err side re-wraps r's own payload into
    the return place (through value-preserving moves / From conversions) and nothing else writes it; else why not"""
    from .mir import Exprs, strip_transparent, reach_from
    switches = []
    if kind == "switch":
        switches.append(d)
    else:
        dl = d["pl"]["l"]
        if d["pl"]["p"]:
            return "the discriminant is stored into a projection (unanalysable)"
        us2 = uses_of_local(fn, dl)
        if not us2:
            return "ignore"  # a dead discriminant read (drop elaboration)
        for (k2, b2, d2) in us2:
            if k2 == "switch":
                switches.append(d2)
            else:
                return "the discriminant is used by something other than a switch (unanalysable)"
    if len(switches) != 1:
        return "is not followed by exactly one switch (unanalysable)"
    sw = switches[0]
    tg = {v: b for (v, b) in sw["targets"]}
    if 1 in tg:
        err_t = tg[1]
        others = [b for (v, b) in sw["targets"] if v != 1]
        ot = sw["otherwise"]
        if fn.blocks[ot]["term"]["k"] != "unreachable":
            others.append(ot)
    elif 0 in tg:
        err_t = sw["otherwise"]
        others = [tg[0]]
    else:
        return "the switch has no Ok/Err arm (unanalysable)"
    r_err = set(reach_from(fn, [err_t])) | {err_t}
    r_oth = (set(reach_from(fn, others)) | set(others)) if others else set()
    excl = r_err - r_oth
    ex = Exprs(fn)
    n_good = 0
    good_blocks = set()
    for bi in sorted(r_err):
        b = fn.blocks[bi]
        if b["cleanup"]:
            continue
        for st in b["stmts"]:
            if st["k"] == "assign" and st["pl"]["l"] == 0 and not st["pl"]["p"]:
                rv = st["rv"]
                good = False
                if bi in excl and rv["k"] == "agg" and rv.get("adt") == "std::result::Result" and rv.get("variant") == "Err" and len(rv["ops"]) == 1:
                    e = strip_transparent(ex.operand(rv["ops"][0]))
                    # ((l as Err).0)
                    if e.k == "field" and e.a[0].k == "downcast" and e.a[0].a[1] == "Err":
                        base = strip_transparent(e.a[0].a[0])
                        good = base.k == "call" and base.site is not None and base.site.bb == origin_bb
                if bi in excl and good:
                    n_good += 1
                    good_blocks.add(bi)
                elif bi in excl:
                    return "its Err arm writes something other than Err(the same error) into the return value"
        if bi in excl and b["term"]["k"] == "call" and b["term"].get("dest") and b["term"]["dest"]["l"] == 0:
            return "its Err arm lets a call write the return value (unanalysable)"
    if n_good == 0:
        return "its Err arm does not return Err(the same error): the error is swallowed or replaced"
    # every path from the Err arm passes one of those writes before it returns or rejoins the Ok side
    work, seen = [err_t], set()
    while work:
        bi = work.pop()
        if bi in seen or bi in good_blocks:
            continue
        seen.add(bi)
        if bi not in excl or fn.blocks[bi]["term"]["k"] == "return":
            return "a path through its Err arm continues without returning the error"
        work.extend(s_ for s_ in fn.succs(bi) if not fn.blocks[s_]["cleanup"])
    return None


def check_err_discipline(mir, reach, res, rule="R-ERR-discipline", err_name="KikiErr"):
    cands = [p for p in mir.adts if p.rsplit("::", 1)[-1] == err_name]
    if len(cands) != 1:
        res.floor("anchor: error type " + err_name, len(cands), 1)
        return 0
    err_path = cands[0]
    n_sites = 0
    n_fns = 0
    for k in sorted(reach):
        fn = mir.fns[k]
        if "/parser.rs" in fn.file:
            continue
        if fn.output is not None and is_err_result(fn.output, err_path):
            n_fns += 1
        for c in fn.calls():
            if c.dest["p"]:
                continue
            dty = fn.local_ty(c.dest["l"])
            # function values that swallow errors
            for a in c.args:
                if a["k"] == "const" and "fn" in a:
                    f = a["fn"]
                    nm = f["path"].rsplit("::", 1)[-1]
                    if f["path"].startswith("std::result::Result::<T, E>::") and nm in ERR_SWALLOWING_NAMES and len(f["args"]) == 2 and f["args"][1] == err_path:
                        res.violate(rule, "%s|fnref|%s" % (fn.path, nm), c.where, "`Result::%s` on Result<_, %s> is passed as a function value: errors are swallowed" % (nm, err_name))
            # type erasure through iterator adaptors / consumers
            arg_err = [a for a in c.args if a["k"] in ("copy", "move") and not a["pl"]["p"] and mentions_err(fn.local_ty(a["pl"]["l"]), err_path)]
            if arg_err and not mentions_err(dty, err_path):
                nm = (c.rpath or "?").rsplit("::", 1)[-1]
                if not (c.rpath or "").endswith(("drop", "drop_in_place")) and "fmt::rt::Argument" not in (c.rpath or ""):
                    n_sites += 1
                    res.violate(rule, "%s|erased|%s" % (fn.path, c.rpath), c.where, "`%s` takes a value carrying %s and returns `%s`, which no longer does: the error cannot reach the caller" % (nm, err_name, dty["s"][:80]))
                    continue
            if not is_err_result(dty, err_path):
                continue
            n_sites += 1
            # follow the destination through plain moves
            work = [c.dest["l"]]
            seen = set()
            consumed = []
            bad = []
            while work:
                l = work.pop()
                if l in seen:
                    continue
                seen.add(l)
                if l == 0:
                    consumed.append("returned")
                    continue
                us = uses_of_local(fn, l)
                if not us:
                    bad.append("the result is dropped without being looked at (statement drop / `let _ =`)")
                for (kind, bb, d) in us:
                    if kind == "assign-use":
                        st = d
                        if st["pl"]["p"]:
                            bad.append("stored into a projection")
                        else:
                            work.append(st["pl"]["l"])
                    elif kind == "call-arg":
                        ai, cc, a = d
                        if cc.rpath in ERR_PRESERVING and ai == 0:
                            consumed.append(cc.rpath.rsplit("::", 1)[-1])
                        elif cc.local and ai < len(mir.fns[cc.rkey].inputs) and is_err_result(mir.fns[cc.rkey].inputs[ai], err_path):
                            consumed.append("passed to " + cc.rpath)
                        else:
                            nm = (cc.rpath or "?").rsplit("::", 1)[-1]
                            bad.append("passed to `%s`, which does not propagate the error" % (cc.rpath or nm))
                    elif kind == "assign-ref":
                        # a reference to the result: its uses decide; be strict
                        st = d
                        refl = st["pl"]["l"]
                        for (k2, b2, d2) in uses_of_local(fn, refl):
                            if k2 == "call-arg":
                                nm = (d2[1].rpath or "?").rsplit("::", 1)[-1]
                                if nm in ERR_SWALLOWING_NAMES or nm in ("fmt",):
                                    bad.append("inspected by reference with `%s`" % nm)
                    elif kind == "switch" or kind == "assign-discr":
                        why = hand_match_propagates(fn, l, kind, d, c.bb)
                        if why == "ignore":
                            pass
                        elif why is None:
                            consumed.append("hand-written match whose Err arm returns Err(payload)")
                        else:
                            bad.append("its discriminant is inspected by a hand-written match/if-let and " + why)
                    elif kind == "assign-agg":
                        bad.append("stored into an aggregate")
            key = "%s|%s" % (fn.path, c.rpath)
            res.inst(rule, key, c.where, True, "consumed by %s" % (sorted(set(consumed)) or "-"))
            if bad or not consumed:
                for m in sorted(set(bad)) or ["no propagating consumer found"]:
                    res.violate(rule, key + "|" + m.split(" (")[0][:40], c.where, "Result<_, %s> returned by `%s`: %s" % (err_name, c.rpath, m))
    res.count("calls producing Result<_, KikiErr> tracked", n_sites)
    res.count("reachable functions returning Result<_, KikiErr>", n_fns)
    return n_sites
