"""Declarations reach the emitter as written — shared by C02 (which fields are `_`) and C06 (types mirror the
declarations).  Three structural rules on MIR:

  S1  the CST -> AST stage is structure preserving: in the file that converts the generated parser's `File`,
      every struct is rebuilt field by field from the same-named field of its argument and every enum value
      variant by variant from the same-named variant, under no condition other than the argument's own
      discriminant (lists go through the order-preserving flatteners, checked by the -flatten / -order rules)
  S2  the usedness predicates of a field look at the variant only: `Ident` / `Used` -> true,
      `Underscore` / `Skipped` -> false; the fieldset-level predicates are `any` over all fields
  S3  validation hands on each declared struct / enum as a plain copy: the validated nonterminal is the clone of
      the declaration it validated, and no declaration value is mutably borrowed in the validation stage
"""
import re

from .mir import Exprs, canon, parse_at, place_str

USED = {"Ident", "Used"}
SKIPPED = {"Underscore", "Skipped"}


def conversion_file(mir):
    fs = [f for f in mir.fns.values() if f.name == "from" and f.impl and f.inputs and f.inputs[0]["head"].endswith("parser::File") and f.output and f.output["head"].endswith("ast::File")]
    return fs[0].file if len(fs) == 1 else None


def check_structure_preserving(mir, res, rule):
    cfile = conversion_file(mir)
    if cfile is None:
        res.floor("anchor: CST->AST conversion of the file node", 0, 1)
        return
    n = 0
    for f in mir.fns.values():
        if f.derived or f.file != cfile:
            continue
        ex = None
        aggs = []
        for b in f.blocks:
            if b["cleanup"]:
                continue
            for s_ in b["stmts"]:
                if s_["k"] == "assign" and s_["rv"]["k"] == "agg" and s_["rv"].get("ak") == "adt" and re.search(r"(^|::)(ast|parser|cst|token)::", s_["rv"].get("adt", "")):
                    aggs.append(s_)
        if not aggs:
            continue
        ex = Exprs(f)
        switches = [canon(ex.operand(b["term"]["discr"])) for b in f.blocks if not b["cleanup"] and b["term"]["k"] == "switch"]
        for s_ in aggs:
            rv = s_["rv"]
            adt = rv["adt"]
            info = mir.adts.get(adt) or {}
            is_enum = info.get("kind") == "Enum"
            f_, l_ = parse_at(s_["span"]["at"])
            w = "%s:%d" % (f_, l_)
            short = adt.rsplit("::", 1)[-1]
            n += 1
            if is_enum:
                V = rv.get("variant")
                key = "convert|%s::%s" % (short, V)
                vals = [canon(ex.operand(o)) for o in rv["ops"]]
                pat = re.compile(r"^(Box::new\()?(cast\()?\(param1 as %s\)\.\w+(\.0\.pointer\))?\)?$" % re.escape(V or "?"))
                ok = all(pat.match(v) for v in vals)
                oks = all(sw == "discr(param1)" for sw in switches)
                res.inst(rule, key, w, True, "%s" % vals)
                if not ok:
                    res.violate(rule, key, w, "the conversion builds variant `%s::%s` from `%s`: a value must be rebuilt from the same-named variant of its source (the kind of a field / symbol / type must not change on the way from the parse tree)" % (short, V, vals))
                elif not oks:
                    res.violate(rule, key + "|condition", w, "which variant the conversion builds depends on more than the variant of its argument (tests: %s)" % [sw for sw in switches if sw != "discr(param1)"][:2])
            else:
                for fl, o in zip(rv["fields"], rv["ops"]):
                    v = canon(ex.operand(o))
                    key = "convert|%s.%s" % (short, fl)
                    ok = v in ("param1.%s" % fl, "cast(param1.%s.0.pointer)" % fl, "Box::new(cast(param1.%s.0.pointer))" % fl, "Box::new(param1.%s)" % fl)
                    res.inst(rule, key, w, True, v[:100])
                    if not ok:
                        res.violate(rule, key, w, "field `%s` of `%s` is built from `%s`, not from the same-named field of the parse-tree node through the plain conversions" % (fl, short, v[:160]))
                if switches:
                    res.violate(rule, "convert|%s|condition" % short, w, "the conversion of `%s` is conditional (tests: %s)" % (short, switches[:2]))
    res.floor("values rebuilt by the CST->AST conversion", n, 20)


def eval_bool_path(f, start):
    """value returned (as 'true'/'false'/None) when execution continues at block `start`: straight-line constant
    propagation through const stores, copies and `Not` (what `matches!` / `!matches!` lower to)"""
    env = {}
    cur = start
    for _ in range(12):
        blk = f.blocks[cur]
        for s_ in blk["stmts"]:
            if s_["k"] != "assign" or s_["pl"]["p"]:
                continue
            rv = s_["rv"]
            val = None
            if rv["k"] == "use":
                o = rv["op"]
                if o["k"] == "const":
                    v = o["v"].replace("const ", "")
                    val = v if v in ("true", "false") else None
                elif o["k"] in ("copy", "move") and not o["pl"]["p"]:
                    val = env.get(o["pl"]["l"])
            elif rv["k"] == "un" and rv.get("op") == "Not":
                o = rv.get("a")
                if isinstance(o, dict) and o.get("k") in ("copy", "move") and not o["pl"]["p"]:
                    inner = env.get(o["pl"]["l"])
                    val = {"true": "false", "false": "true"}.get(inner)
            env[s_["pl"]["l"]] = val
        tk = blk["term"]["k"]
        if tk == "goto":
            cur = blk["term"]["target"]
            continue
        if tk == "return":
            return env.get(0)
        return None
    return None


def check_usedness_predicates(mir, res, rule):
    n = 0
    preds = {}
    for f in mir.fns.values():
        if f.derived or f.kind != "AssocFn" or not f.impl or f.output is None or f.output["s"] != "bool":
            continue
        head = f.impl["self_ty"]["head"]
        if not re.search(r"::(NamedField|TupleField)$", head) or len(f.inputs) != 1:
            continue
        n += 1
        ex = Exprs(f)
        sws = [(bi, b["term"]) for bi, b in enumerate(f.blocks) if not b["cleanup"] and b["term"]["k"] == "switch"]
        key = "usedness|%s" % f.path
        ok = False
        why = ""
        if len(sws) == 1:
            bi, t_ = sws[0]
            d = canon(ex.operand(t_["discr"]))
            m = re.match(r"^discr\((param1(?:\.\w+)?)\)$", d)
            if m:
                # the discriminated type
                de = ex.operand(t_["discr"])
                pl = None
                # find the `discr` statement to learn the place's type
                tyname = None
                for b in f.blocks:
                    for s_ in b["stmts"]:
                        if s_["k"] == "assign" and s_["rv"]["k"] == "discr":
                            tyname = s_["rv"].get("ty", {}).get("head") if isinstance(s_["rv"].get("ty"), dict) else None
                            pl = s_["rv"]["pl"]
                variants = None
                for cand in mir.adts.values():
                    names = [v["name"] for v in cand.get("variants", [])]
                    if cand.get("kind") == "Enum" and set(names) in ({"Ident", "Underscore"}, {"Used", "Skipped"}):
                        if (m.group(1) == "param1" and cand["path"].endswith("TupleField") and head.endswith("TupleField")) or (m.group(1) != "param1" and "IdentOrUnderscore" in cand["path"]):
                            variants = names
                if variants:
                    tg = {v: b for (v, b) in t_["targets"]}
                    mapping = {}
                    for vi, vn in enumerate(variants):
                        mapping[vn] = eval_bool_path(f, tg.get(vi, t_["otherwise"]))
                    ok = all(mapping.get(v) == "true" for v in variants if v in USED) and all(mapping.get(v) == "false" for v in variants if v in SKIPPED)
                    why = "%s" % mapping
                else:
                    why = "cannot identify the discriminated enum"
            else:
                why = "tests `%s`, not the variant of the field (its name kind)" % d[:100]
        else:
            why = "%d tests instead of one match on the variant" % len(sws)
        other_calls = [c.rpath for c in f.calls() if not (c.rpath or "").startswith("core::panicking")]
        if other_calls:
            ok = False
            why += "; calls %s" % other_calls[:2]
        preds[f.key] = ok
        res.inst(rule, key, f.where, True, why[:160])
        if not ok:
            res.violate(rule, key, f.where, "whether a field counts as used must be decided by its variant alone (`Ident`/`Used` -> true, `_`/`Skipped` -> false); %s: %s — a field written with a name can then be treated as `_` (or the reverse)" % (f.path, why[:200]))
    res.floor("usedness predicates of fields", n, 2)
    m2 = 0
    for f in mir.fns.values():
        if f.derived or f.kind != "AssocFn" or not f.impl or f.output is None or f.output["s"] != "bool":
            continue
        if not re.search(r"::(NamedFieldset|TupleFieldset)$", f.impl["self_ty"]["head"]) or len(f.inputs) != 1:
            continue
        m2 += 1
        r_ = canon(Exprs(f).local(0))
        from .roles import roles_of
        per_field = [f_.path for f_ in roles_of(mir).field_is_used]
        m_ = re.match(r"^Iterator@Iter::any\(slice::iter\(param1\.fields\), const\(fn:([\w:]+)\)\)$", r_)
        ok = m_ is not None and m_.group(1) in per_field
        res.inst(rule, "usedness|%s" % f.path, f.where, True, r_[:120])
        if not ok:
            res.violate(rule, "usedness|%s" % f.path, f.where, "`%s` must be `any` of the per-field predicate over all fields; found `%s`" % (f.path, r_[:160]))
    res.floor("usedness predicates of fieldsets", m2, 2)


def check_validated_copies(mir, res, rule):
    n = 0
    for f in mir.fns.values():
        if f.derived or "/validate_ast/" not in f.file:
            continue
        ex = None
        for b in f.blocks:
            if b["cleanup"]:
                continue
            for s_ in b["stmts"]:
                if s_["k"] != "assign":
                    continue
                rv = s_["rv"]
                if rv["k"] == "agg" and rv.get("ak") == "adt" and rv.get("adt", "").endswith("validated_file::Nonterminal"):
                    ex = ex or Exprs(f)
                    n += 1
                    v = canon(ex.operand(rv["ops"][0]))
                    f_, l_ = parse_at(s_["span"]["at"])
                    res.inst(rule, "validated-copy|%s" % rv.get("variant"), "%s:%d" % (f_, l_), True, v)
                    if v != "param1":
                        res.violate(rule, "validated-copy|%s" % rv.get("variant"), "%s:%d" % (f_, l_), "the validated %s must be the plain copy of the declaration that was validated; found `%s`" % ((rv.get("variant") or "").lower(), v[:160]))
                if rv["k"] == "ref" and rv.get("bk") not in ("shared", "fake", None):
                    ty = f.local_ty(rv["pl"]["l"])
                    if re.search(r"^&*(mut )?data::ast::|^&*(mut )?parser::(Struct|Enum|Fieldset|NamedField|TupleField)", ty["s"]) or re.match(r"^(std::vec::Vec<)?data::ast::", ty["s"]):
                        f_, l_ = parse_at(s_["span"]["at"])
                        res.violate(rule, "declaration-mutated|%s" % f.path, "%s:%d" % (f_, l_), "a declaration value (`%s` of type %s) is mutably borrowed in the validation stage: what is validated and handed on is no longer what was declared" % (place_str(rv["pl"]), ty["s"][:60]))
    res.floor("validated nonterminal construction sites", n, 2)
    # a name that goes through a validator comes back unchanged: every Ok result of the validator wraps its own argument
    n_v = 0
    for f in mir.fns.values():
        if f.derived or "/validate_ast/" not in f.file:
            continue
        ex = None
        for b in f.blocks:
            if b["cleanup"]:
                continue
            for s_ in b["stmts"]:
                if s_["k"] != "assign" or s_["rv"]["k"] != "agg" or s_["rv"].get("ak") != "adt" or not re.search(r"validated_file::(TerminalEnum|TerminalVariant)$", s_["rv"].get("adt", "")):
                    continue
                ex = ex or Exprs(f)
                for fl, o in zip(s_["rv"]["fields"], s_["rv"]["ops"]):
                    if fl not in ("name", "dollarless_name"):
                        continue
                    v = canon(ex.operand(o))
                    for m_ in re.finditer(r"Try@Result::branch\(((?:\w+::)*\w+)\((param\d+(?:\.\w+)*)\)\)", v):
                        cands = [g for g in mir.fns.values() if g.kind == "Fn" and g.path.endswith("::" + m_.group(1).rsplit("::", 1)[-1]) and "/validate_ast/" in g.file]
                        if len(cands) != 1:
                            continue
                        g = cands[0]
                        oks = []
                        for _hop in range(3):
                            gx = Exprs(g)
                            for gb in g.blocks:
                                if gb["cleanup"]:
                                    continue
                                for gs in gb["stmts"]:
                                    if gs["k"] == "assign" and gs["rv"]["k"] == "agg" and gs["rv"].get("adt") == "std::result::Result" and gs["rv"].get("variant") == "Ok" and gs["rv"]["ops"]:
                                        oks.append(canon(gx.operand(gs["rv"]["ops"][0])))
                            if oks:
                                break
                            # a delegating validator: `fn v(x) { w(x.name, x.position) }` — follow it when its own first
                            # argument is handed on as the callee's first argument
                            md = re.match(r"^((?:\w+::)*\w+)\((param1(?:\.\w+)*)(?:, .*)?\)$", canon(gx.local(0)))
                            nxt = [h for h in mir.fns.values() if md and h.kind == "Fn" and h.path.endswith("::" + md.group(1).rsplit("::", 1)[-1]) and "/validate_ast/" in h.file]
                            if len(nxt) != 1:
                                break
                            g = nxt[0]
                        if not oks:
                            continue
                        n_v += 1
                        good = all(re.match(r"^(param1(\.\w+)*|tuple\{\}|const\(\(\)\))$", x) for x in oks)
                        res.inst(rule, "validator-identity|%s" % g.name, g.where, True, "Ok results %s" % oks)
                        if not good:
                            res.violate(rule, "validator-identity|%s" % g.name, g.where, "`%s` validates the name it is given and hands it on as field `%s`: its Ok result must be that very argument, found %s — the emitted item would carry another name than the declared one" % (g.name, fl, oks))
    res.floor("names taken through a validator into the validated terminal enum", n_v, 1)


def run(mir, res, rule):
    check_structure_preserving(mir, res, rule)
    check_usedness_predicates(mir, res, rule)
    check_validated_copies(mir, res, rule)
