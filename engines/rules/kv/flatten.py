"""R-C13-flatten / R-C12-order — the left-recursive CST lists are flattened in order (syn AST).

Role: `impl From<cst::L> for Vec<ast::E>` whose source is a recursive list enum.  Required shape:
    match cst {
        L::Nil => vec![]            |  L::One(x) => vec![conv(x)]
        L::Cons(left, right) => { let mut v: Vec<_> = (*left).into(); v.push(conv(right)); v }
    }
with conv(b) one of b, b.into(), (*b).into().  Anything else (insert(0, ..), a loop, rev, extend,
sort, a dropped field) is reported.
"""
from .syn import nodes, ident_of, path_str, unparse, method_chain


def conv_of(e, binder):
    """is e the value of `binder`, possibly converted: b | b.into() | (*b).into() | *b"""
    if e is None:
        return False
    if ident_of(e) == binder:
        return True
    if e["k"] == "Unary" and e["op"] == "*" and ident_of(e["expr"]) == binder:
        return True
    if e["k"] == "MethodCall" and e["method"] == "into" and not e["args"]:
        return conv_of(e["recv"], binder)
    return False


def check_flatteners(syn, res, rule, only_target=None):
    n = 0
    for p, f in syn.files.items():
        if "/tests" in p or p.endswith("build.rs"):
            continue
        for it in f["items"]:
            if it["k"] != "Impl" or it["trait"] is None or it["trait"]["segs"][-1] != "From":
                continue
            target = it["self_ty"].replace(" ", "")
            if not target.startswith("Vec<"):
                continue
            if only_target is not None and only_target not in target:
                continue
            fns = [x for x in it["items"] if x["k"] == "Fn" and x["name"] == "from"]
            if len(fns) != 1:
                continue
            fn = fns[0]
            n += 1
            where = "%s:%d" % (p, fn["line"])
            key = "flatten|%s<-%s" % (target, it["trait"]["src"].replace(" ", ""))
            param = fn["inputs"][0]["pat"].get("name") if fn["inputs"] and "pat" in fn["inputs"][0] else None
            stmts = fn["body"]["stmts"]
            problems = []
            if not (len(stmts) == 1 and stmts[0]["k"] == "ExprStmt" and stmts[0]["expr"]["k"] == "Match" and ident_of(stmts[0]["expr"]["expr"]) == param):
                problems.append("the conversion is not a single `match` on its argument")
            else:
                m = stmts[0]["expr"]
                if len(m["arms"]) != 2:
                    problems.append("expected two arms (base case and Cons), found %d" % len(m["arms"]))
                cons = base = None
                for a in m["arms"]:
                    pat = a["pat"]
                    if pat["k"] == "PTupleStruct" and len(pat["elems"]) == 2:
                        cons = a
                    elif pat["k"] in ("PPath", "PTupleStruct"):
                        base = a
                    else:
                        problems.append("unexpected arm pattern %s" % unparse(pat))
                if base is not None:
                    b = base["body"]
                    ok = b["k"] == "Macro" and b["name"] == "vec" and b["args"] is not None
                    if ok and base["pat"]["k"] == "PPath":
                        ok = len(b["args"]) == 0
                    elif ok:
                        bn = base["pat"]["elems"][0].get("name") if len(base["pat"]["elems"]) == 1 else None
                        ok = len(b["args"]) == 1 and conv_of(b["args"][0], bn)
                    if not ok:
                        problems.append("base case must be `vec![]` / `vec![conv(x)]` of its single payload, found %s" % unparse(b)[:60])
                if cons is None:
                    problems.append("no two-field Cons arm")
                else:
                    l, r = cons["pat"]["elems"]
                    if l["k"] != "PIdent" or r["k"] != "PIdent":
                        problems.append("Cons fields are not bound to plain identifiers")
                    else:
                        ln, rn = l["name"], r["name"]
                        body = cons["body"]
                        while body["k"] in ("BlockExpr", "Block") and len(body["block"]["stmts"]) == 1 and body["block"]["stmts"][0]["k"] == "ExprStmt" and not body["block"]["stmts"][0].get("semi"):
                            body = body["block"]["stmts"][0]["expr"]
                        # the append may be a small local helper `h(conv(left), conv(right))` whose body is
                        # `first.push(second); first` (parameters in this order)
                        if body["k"] == "Call" and body["func"]["k"] == "Path" and len(body["args"]) == 2 and conv_of(body["args"][0], ln) and conv_of(body["args"][1], rn):
                            hname = body["func"]["path"]["segs"][-1]
                            hs = [x for x in f["items"] if x["k"] == "Fn" and x["name"] == hname]
                            okh = False
                            if len(hs) == 1 and len(hs[0]["inputs"]) == 2:
                                pa, pb = [(i_["pat"].get("name") if "pat" in i_ else None) for i_ in hs[0]["inputs"]]
                                hst = hs[0]["body"]["stmts"]
                                okh = (len(hst) == 2 and hst[0]["k"] == "ExprStmt" and hst[0]["expr"]["k"] == "MethodCall" and hst[0]["expr"]["method"] == "push"
                                       and ident_of(hst[0]["expr"]["recv"]) == pa and len(hst[0]["expr"]["args"]) == 1 and ident_of(hst[0]["expr"]["args"][0]) == pb
                                       and hst[1]["k"] == "ExprStmt" and not hst[1].get("semi") and ident_of(hst[1]["expr"]) == pa)
                            if not okh:
                                problems.append("Cons arm appends through `%s`, which is not `first.push(second); first`" % hname)
                            res.inst(rule, key, where, True, "ok (through helper %s)" % hname if not problems else "; ".join(problems))
                            if problems:
                                res.violate(rule, key + "|" + problems[0][:40], where, "list conversion %s: %s" % (target, "; ".join(problems)))
                            continue
                        st = body["block"]["stmts"] if body["k"] == "BlockExpr" else []
                        good = len(st) == 3
                        if good:
                            s0, s1, s2 = st
                            pat0 = s0.get("pat", {})
                            if pat0.get("k") == "PType":
                                pat0 = pat0["pat"]
                            vname = pat0.get("name") if s0["k"] == "Let" else None
                            good = vname is not None and s0.get("init") is not None and s0["init"]["k"] == "MethodCall" and s0["init"]["method"] == "into" and conv_of(s0["init"], ln)
                            good = good and s1["k"] == "ExprStmt" and s1["expr"]["k"] == "MethodCall" and s1["expr"]["method"] == "push" and ident_of(s1["expr"]["recv"]) == vname and len(s1["expr"]["args"]) == 1 and conv_of(s1["expr"]["args"][0], rn)
                            good = good and s2["k"] == "ExprStmt" and not s2["semi"] and ident_of(s2["expr"]) == vname
                        if not good:
                            problems.append("Cons arm must be `let mut v = conv(left); v.push(conv(right)); v` (left part first, right element appended at the end); found `%s`" % "; ".join(unparse(x.get("init") or x.get("expr"))[:50] for x in st))
            res.inst(rule, key, where, True, "order-preserving: %s" % (not problems))
            for pr in problems:
                res.violate(rule, key + "|" + pr.split(",")[0].split(";")[0][:40], where, "list conversion %s: %s" % (target, pr))
    return n
