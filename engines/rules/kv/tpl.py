"""TPL — the code generator's string templates (format! literals and plain string literals of the
emitter), with placeholder bindings resolved inside the enclosing function, a Rust token stream of
the text, and the syn parse of complete-item templates after marker substitution."""
import re

from .syn import walk, nodes, ident_of, path_str, unparse, lit_of, is_cfg_test

RUST_KEYWORDS = set("as break const continue crate else enum extern false fn for if impl in let loop match mod move mut pub ref return self Self static struct super trait true type unsafe use where while async await dyn abstract become box do final macro override priv typeof unsized virtual yield try union".split())


class Template:
    def __init__(self):
        self.file = None
        self.fn = None  # enclosing top-level fn name
        self.fn_node = None
        self.line = 0
        self.text = ""
        self.is_format = False
        self.node = None  # the Macro or Lit node
        self.segs = []  # [("text", s) | ("ph", name, spec)]
        self.args = []  # explicit format args (syn nodes)
        self.scopes = []  # list of binding dicts, innermost last
        self.tokens = None
        self.items = None
        self.parse_err = None

    @property
    def where(self):
        return "%s:%d" % (self.file, self.line)

    def placeholders(self):
        return [s[1] for s in self.segs if s[0] == "ph"]

    def __repr__(self):
        return "<tpl %s:%d in %s %r>" % (self.file, self.line, self.fn, self.text[:30])


def parse_format(text):
    """split a format string into text / placeholder segments; returns None if malformed"""
    segs = []
    buf = []
    i = 0
    pos = 0
    n = len(text)
    while i < n:
        c = text[i]
        if c == "{":
            if i + 1 < n and text[i + 1] == "{":
                buf.append("{")
                i += 2
                continue
            j = text.find("}", i)
            if j < 0:
                return None
            inner = text[i + 1:j]
            name, _, spec = inner.partition(":")
            name = name.strip()
            if buf:
                segs.append(("text", "".join(buf)))
                buf = []
            if name == "":
                name = "#%d" % pos
                pos += 1
            segs.append(("ph", name, spec))
            i = j + 1
            continue
        if c == "}":
            if i + 1 < n and text[i + 1] == "}":
                buf.append("}")
                i += 2
                continue
            return None
        buf.append(c)
        i += 1
    if buf:
        segs.append(("text", "".join(buf)))
    return segs


# ------------------------------------------------------------------ collection with scopes

def collect(syn, path):
    """all templates of file `path` (non-test code)"""
    out = []
    f = syn.file(path)
    if f is None:
        return out, {}
    consts = {}
    for it in f["items"]:
        if it["k"] == "Const" and it["expr"]["k"] == "Lit" and it["expr"]["lit"]["t"] == "str":
            consts[it["name"]] = it["expr"]["lit"]["v"]

    def visit_fn(fn, top_name, outer_scopes):
        scope = {}
        for i in fn.get("inputs", []):
            if "pat" in i and i["pat"]["k"] == "PIdent":
                scope[i["pat"]["name"]] = ("param", i["pat"]["name"], i.get("ty"))
        visit_block(fn["body"], top_name, fn, outer_scopes + [scope])
        # local consts inside the function
        return

    def bind_pat(pat, init, scope):
        k = pat["k"]
        if k == "PIdent":
            scope[pat["name"]] = ("let", init)
        elif k == "PType":
            bind_pat(pat["pat"], init, scope)
        elif k == "PStruct":
            # let Self { a, b: c, .. } = self;
            base = unparse(init) if init is not None else "?"
            for fl in pat["fields"]:
                p2 = fl["pat"]
                if p2["k"] == "PIdent":
                    scope[p2["name"]] = ("field", base, fl["member"])
                elif p2["k"] == "PWild":
                    pass
        elif k == "PTuple":
            for idx, e in enumerate(pat["elems"]):
                if e["k"] == "PIdent":
                    scope[e["name"]] = ("tuple-elem", init, idx)
                elif e["k"] == "PStruct":
                    for fl in e["fields"]:
                        if fl["pat"]["k"] == "PIdent":
                            scope[fl["pat"]["name"]] = ("tuple-struct-field", init, idx, fl["member"])
                elif e["k"] == "PTupleStruct":
                    for idx2, e2 in enumerate(e["elems"]):
                        if e2["k"] == "PIdent":
                            scope[e2["name"]] = ("variant-payload", init, "tuple#%d/" % idx + "::".join(e["path"]["segs"]), idx2)
        elif k == "PTupleStruct":
            for idx, e in enumerate(pat["elems"]):
                if e["k"] == "PIdent":
                    scope[e["name"]] = ("variant-payload", init, "::".join(pat["path"]["segs"]), idx)
                elif e["k"] == "PTupleStruct":
                    for idx2, e2 in enumerate(e["elems"]):
                        if e2["k"] == "PIdent":
                            scope[e2["name"]] = ("variant-payload", init, "::".join(pat["path"]["segs"]) + "/" + "::".join(e["path"]["segs"]), idx2)
        elif k == "PRef":
            bind_pat(pat["pat"], init, scope)

    def visit_block(blk, top_name, fn, scopes):
        scope = {}
        scopes = scopes + [scope]
        for st in blk["stmts"]:
            if st["k"] == "Let":
                if st.get("init") is not None:
                    visit_expr(st["init"], top_name, fn, scopes)
                bind_pat(st["pat"], st.get("init"), scope)
            elif st["k"] == "ExprStmt":
                visit_expr(st["expr"], top_name, fn, scopes)
            elif st["k"] == "ItemStmt":
                it = st["item"]
                if it["k"] == "Const" and it["expr"]["k"] == "Lit" and it["expr"]["lit"]["t"] == "str":
                    scope[it["name"]] = ("const", it["expr"]["lit"]["v"])

    def visit_expr(e, top_name, fn, scopes):
        if e is None or not isinstance(e, dict):
            return
        k = e.get("k")
        if k == "Macro":
            if e["name"] in ("format", "write", "writeln", "panic", "print", "println") and e["args"]:
                args = e["args"]
                lit_idx = 1 if e["name"] in ("write", "writeln") else 0
                if len(args) > lit_idx and args[lit_idx]["k"] == "Lit" and args[lit_idx]["lit"]["t"] == "str" and e["name"] == "format":
                    t = Template()
                    t.file, t.fn, t.fn_node = path, top_name, fn
                    t.line = e["line"]
                    t.text = args[lit_idx]["lit"]["v"]
                    t.is_format = True
                    t.node = e
                    t.segs = parse_format(t.text) or [("text", t.text)]
                    t.args = args[lit_idx + 1:]
                    t.scopes = list(scopes)
                    out.append(t)
                for a in args:
                    visit_expr(a, top_name, fn, scopes)
            return
        if k == "Lit" and e["lit"]["t"] == "str":
            t = Template()
            t.file, t.fn, t.fn_node = path, top_name, fn
            t.line = e["line"]
            t.text = e["lit"]["v"]
            t.is_format = False
            t.node = e
            t.segs = [("text", t.text)] if t.text else []
            t.scopes = list(scopes)
            out.append(t)
            return
        if k == "Closure":
            scope = {}
            for p in e["inputs"]:
                bind_pat(p, {"k": "ClosureParam", "line": e["line"], "closure": e, "pat": p}, scope)
            visit_expr(e["body"], top_name, fn, scopes + [scope])
            return
        if k in ("BlockExpr", "Unsafe"):
            visit_block(e["block"], top_name, fn, scopes)
            return
        if k == "Block":
            visit_block(e, top_name, fn, scopes)
            return
        if k == "If":
            if e["cond"]["k"] == "LetCond":
                visit_expr(e["cond"]["expr"], top_name, fn, scopes)
                sc = {}
                bind_pat(e["cond"]["pat"], e["cond"]["expr"], sc)
                visit_block(e["then"], top_name, fn, scopes + [sc])
            else:
                visit_expr(e["cond"], top_name, fn, scopes)
                visit_block(e["then"], top_name, fn, scopes)
            visit_expr(e["else"], top_name, fn, scopes)
            return
        if k == "Match":
            visit_expr(e["expr"], top_name, fn, scopes)
            for a in e["arms"]:
                sc = {}
                bind_pat(a["pat"], {"k": "MatchScrutinee", "line": a["line"], "expr": e["expr"], "pat": a["pat"]}, sc)
                visit_expr(a["guard"], top_name, fn, scopes + [sc])
                visit_expr(a["body"], top_name, fn, scopes + [sc])
            return
        if k in ("For",):
            visit_expr(e["expr"], top_name, fn, scopes)
            sc = {}
            bind_pat(e["pat"], {"k": "ForItem", "line": e["line"], "expr": e["expr"]}, sc)
            visit_block(e["body"], top_name, fn, scopes + [sc])
            return
        if k in ("While", "Loop"):
            if k == "While":
                visit_expr(e["cond"], top_name, fn, scopes)
            visit_block(e["body"], top_name, fn, scopes)
            return
        for key, v in e.items():
            if isinstance(v, dict):
                visit_expr(v, top_name, fn, scopes)
            elif isinstance(v, list):
                for x in v:
                    if isinstance(x, dict):
                        if "expr" in x and "member" in x:
                            visit_expr(x["expr"], top_name, fn, scopes)
                        else:
                            visit_expr(x, top_name, fn, scopes)

    for (p, impl, fn) in syn.all_fns(path=path):
        n0 = len(out)
        visit_fn(fn, fn["name"], [{k: ("const", v) for k, v in consts.items()}])
        for t in out[n0:]:
            t.file = p  # (a child module's file, when the function lives there)
    return out, consts


def binding(t, name):
    """resolve a placeholder/identifier name in the scopes of template t"""
    if name.startswith("#"):
        idx = int(name[1:])
        pos = [a for a in t.args if not (a["k"] == "Assign")]
        if idx < len(pos):
            return ("arg", pos[idx])
        return None
    for a in t.args:
        if a["k"] == "Assign" and ident_of(a["left"]) == name:
            return ("arg", a["right"])
    for sc in reversed(t.scopes):
        if name in sc:
            return sc[name]
    return None


def resolve_text(t, name, depth=0):
    """canonical description of what a placeholder prints: follows simple lets"""
    b = binding(t, name)
    if b is None:
        return "?unbound:%s" % name
    if b[0] == "const":
        return "const:%s" % b[1]
    if b[0] == "param":
        return "param:%s" % b[1]
    if b[0] == "field":
        return "%s.%s" % (b[1], b[2])
    if b[0] in ("let", "arg"):
        e = b[1]
        if e is None:
            return "?uninit"
        # `let x = &self.x;` / `let x = self.x;` names the same thing as the destructuring `let Self { x, .. } = self;`
        cur = e
        while isinstance(cur, dict) and (cur.get("k") == "Ref" or (cur.get("k") == "Unary" and cur.get("op") == "*")):
            cur = cur["expr"]
        if isinstance(cur, dict) and cur.get("k") == "Field" and ident_of(cur["base"]) == "self" and depth == 0:
            return "self.%s" % cur["member"]
        txt = unparse(e)
        return "expr:%s" % txt
    if b[0] == "variant-payload":
        return "payload:%s#%d of %s" % (b[2], b[3], unparse(b[1].get("expr")) if isinstance(b[1], dict) and b[1].get("k") == "MatchScrutinee" else unparse(b[1]))
    if b[0] == "tuple-elem":
        return "tuple#%d of %s" % (b[2], describe_src(b[1]))
    if b[0] == "tuple-struct-field":
        return "tuple#%d.%s of %s" % (b[2], b[3], describe_src(b[1]))
    return "?%s" % b[0]


def describe_src(e):
    if not isinstance(e, dict):
        return "?"
    if e.get("k") == "ClosureParam":
        return "closure-param"
    if e.get("k") == "ForItem":
        return "for-item of " + unparse(e["expr"])
    if e.get("k") == "MatchScrutinee":
        return "match " + unparse(e["expr"])
    return unparse(e)


# ------------------------------------------------------------------ lexer

TOKEN_RE = re.compile(r"""
    (?P<ws>\s+)
  | (?P<doc>///[^\n]*|//![^\n]*)
  | (?P<comment>//[^\n]*|/\*.*?\*/)
  | (?P<ph>[^]*)
  | (?P<lifetime>'[A-Za-z_][A-Za-z0-9_]*(?!'))
  | (?P<char>'(?:\\.|[^\\'])')
  | (?P<str>"(?:\\.|[^"\\])*")
  | (?P<ident>(?:r\#)?[A-Za-z_][A-Za-z0-9_]*)
  | (?P<num>[0-9][0-9A-Za-z_]*)
  | (?P<punct>::|->|=>|==|!=|<=|>=|&&|\|\||\.\.=|\.\.\.|\.\.|<<|>>|\+=|-=|\*=|/=|[-+*/%^!&|=<>@.,;:\#$?~(){}\[\]])
""", re.X | re.S)


class Tok:
    __slots__ = ("k", "s", "ph", "glue_prev", "glue_next", "line", "parts")

    def __init__(self, k, s, line=0):
        self.k = k
        self.s = s
        self.ph = None
        self.glue_prev = False
        self.glue_next = False
        self.line = line
        self.parts = None

    def __repr__(self):
        return "%s:%s" % (self.k, self.s)


def lex_segments(segs):
    """tokens of a template; placeholders become tokens of kind 'ph'.  Adjacent identifier text and
    placeholders (no whitespace between) are merged into one 'mixed' token with .parts"""
    text = []
    for s_ in segs:
        if s_[0] == "text":
            text.append(s_[1])
        else:
            text.append("%s" % s_[1])
    src = "".join(text)
    toks = []
    pos = 0
    line = 1
    while pos < len(src):
        m = TOKEN_RE.match(src, pos)
        if not m:
            toks.append(Tok("unknown", src[pos], line))
            pos += 1
            continue
        k = m.lastgroup
        s_ = m.group(k)
        start = pos
        pos = m.end()
        if k in ("ws", "comment", "doc"):
            line += s_.count("\n")
            if k == "doc":
                t_ = Tok("doc", s_, line)
                toks.append(t_)
            continue
        t_ = Tok(k, s_, line)
        if k == "ph":
            t_.ph = s_[1:-1]
        t_.glue_prev = start > 0 and not src[start - 1].isspace()
        toks.append(t_)
        line += s_.count("\n")
    # merge glued ident/num/ph runs into mixed tokens
    out = []
    for t_ in toks:
        if out and t_.glue_prev and t_.k in ("ident", "ph", "num") and out[-1].k in ("ident", "ph", "mixed", "num") and not (out[-1].k == "num" and t_.k == "num") and not (t_.k == "ident" and t_.s in RUST_KEYWORDS) and not (out[-1].k == "ident" and out[-1].s in RUST_KEYWORDS):
            prev = out[-1]
            if prev.k != "mixed":
                parts = [prev]
                mixed = Tok("mixed", prev.s, prev.line)
                mixed.parts = [(prev.k, prev.ph if prev.k == "ph" else prev.s)]
                mixed.glue_prev = prev.glue_prev
                out[-1] = mixed
                prev = mixed
            prev.parts.append((t_.k, t_.ph if t_.k == "ph" else t_.s))
            prev.s += t_.s
        else:
            out.append(t_)
    return out


# ------------------------------------------------------------------ substitution + parse of item templates

def substitute_for_parse(segs):
    """text in which every placeholder is replaced by a marker that keeps the text parsable,
    chosen from the syntactic context (enum body / match body / item position / array / expression)"""
    toks_ctx = []
    # first pass: raw text with unique markers
    raw = []
    for s_ in segs:
        if s_[0] == "text":
            raw.append(s_[1])
        else:
            raw.append("%s" % s_[1])
    src = "".join(raw)
    lines = src.split("\n")
    out_lines = []
    # context stack by braces
    stack = []  # entries: 'enum' | 'match' | 'impl' | 'fn' | 'items' | 'array' | 'other'
    pending = None

    def ctx():
        return stack[-1] if stack else "items"

    for ln in lines:
        stripped = ln.strip()
        m = re.match(r"^([^]*)$", stripped)
        if m:
            name = m.group(1)
            c = ctx()
            ind = ln[:len(ln) - len(ln.lstrip())]
            mk = "__PH_%s__" % name
            if c == "enum":
                out_lines.append(ind + mk + ",")
            elif c == "match":
                out_lines.append(ind + mk + " => {},")
            elif c in ("impl", "items"):
                out_lines.append(ind + "fn %s() {}" % mk)
            elif c == "array":
                out_lines.append(ind + mk + ",")
            elif c == "struct":
                out_lines.append(ind + mk + ": (),")
            else:
                out_lines.append(ind + mk + ";")
            continue
        # attribute-like placeholder glued before `pub enum` / `pub struct`
        ln2 = re.sub(r"([^]*)(?=pub\s+(enum|struct)\b)", lambda mm: "#[__PH_%s__] " % mm.group(1), ln)
        ln2 = re.sub(r"([^]*)", lambda mm: "__PH_%s__" % mm.group(1), ln2)
        out_lines.append(ln2)
        # update the context stack from the tokens of this line
        code = re.sub(r"//.*$", "", ln2)
        code = re.sub(r'"(?:\\.|[^"\\])*"', '""', code)
        for mm in re.finditer(r"\b(enum|match|impl|fn|struct|static|const|mod|trait)\b|[{}\[\]]", code):
            tk = mm.group(0)
            if tk in ("enum", "match", "impl", "fn", "struct", "mod", "trait"):
                pending = tk
            elif tk in ("static", "const"):
                pending = "value"
            elif tk == "{":
                stack.append({"enum": "enum", "match": "match", "impl": "impl", "trait": "impl", "mod": "items", "fn": "fn", "struct": "struct"}.get(pending, "other"))
                pending = None
            elif tk == "[":
                stack.append("array" if pending == "value" or (stack and stack[-1] == "array") else "index")
            elif tk in ("}", "]"):
                if stack:
                    stack.pop()
                if tk == "}" and not stack:
                    pending = None
            # `= [` after static: first '[' of the type is 'array' too; harmless
        if ";" in code and pending == "value" and not any(s_ in ("array",) for s_ in stack):
            pending = None
    return "\n".join(out_lines)


def parse_items(syn, templates):
    """try to parse every format template that looks like complete items; fills t.items / t.parse_err"""
    snippets = []
    cands = []
    for i, t in enumerate(templates):
        if not t.is_format:
            continue
        if not re.search(r"\b(fn|enum|impl|struct|static)\b", t.text):
            continue
        text = substitute_for_parse(t.segs)
        snippets.append(("t%d" % i, "file", text))
        cands.append((i, t, text))
    if not snippets:
        return
    resmap = syn.parse_snippets(snippets)
    for (i, t, text) in cands:
        r = resmap.get("t%d" % i)
        t.subst_text = text
        if r is None:
            t.parse_err = "no result"
        elif "ok" in r:
            t.items = r["ok"]
        else:
            t.parse_err = "%s (line %s)" % (r.get("err"), r.get("line"))


def find_emitter_file(syn):
    """the file whose non-test code has a format! literal containing `pub fn parse`"""
    out = []
    for p, f in syn.files.items():
        if "/tests" in p or p.endswith("build.rs"):
            continue
        found = False
        for it in f["items"]:
            if is_cfg_test(it):
                continue
            for m in nodes(it, "Macro"):
                if m["name"] == "format" and m["args"] and m["args"][0]["k"] == "Lit" and m["args"][0]["lit"]["t"] == "str" and "pub fn parse" in m["args"][0]["lit"]["v"]:
                    found = True
        if found:
            out.append(p)
    return out


def ph_names(name):
    """`__PH_a____PH_b__` / `x__PH_a__` -> list of placeholder names inside a marker identifier"""
    return re.findall(r"__PH_(.*?)__(?=$|__PH_|[^A-Za-z0-9_])", name + " ") or re.findall(r"__PH_([A-Za-z0-9_#]+?)__", name)
