"""R-C05-dims: the emitted tables' declared array lengths agree with the number of items the emitter writes.

`static T: [[A; {cols}]; {rows}] = [ {row_items} ];` only compiles when the row/column counts written agree with
the two length placeholders.  Decided on the syntax tree of the emitter:
  * {rows}/{cols} are bound to `<list>.len()` (+ literal) or `table.state_count()`;
  * {row_items} is bound to a `self.<rows_fn>()` whose body iterates `0..<same count>` and calls one row function
    per index; the row function iterates a `self.table.<list>` through length-preserving adapters only
    (`chain(once(..))` adds one);
  * `table.<list>` is the complete image of `file.<list>` (R-C07 table-columns, on MIR).
"""
import re
from . import tpl
from .syn import nodes, ident_of, method_chain, unparse

LEN_KEEP = {"iter", "into_iter", "map", "enumerate", "cloned", "copied", "rev", "inspect", "by_ref", "peekable"}
SINKS = {"collect", "join", "indent", "concat"}


def norm(s_):
    s_ = s_.replace(" ", "")
    s_ = re.sub(r"\bself\.", "", s_)
    return s_


def count_of_chain(e):
    """(list expr, plus) of an iterator chain ending in collect/join, or (None, reason)"""
    root, chain = method_chain(e)
    flds = []
    i = 0
    while i < len(chain) and chain[i][0] == "field":
        flds.append(chain[i][1])
        i += 1
    base = ".".join([unparse(root)] + flds)
    plus = 0
    for c in chain[i:]:
        if c[0] != "call":
            return None, "`%s` inside the iterator chain" % c[1]
        name = c[1]
        if name in LEN_KEEP or name in SINKS:
            continue
        if name == "chain":
            a = c[2][0] if c[2] else None
            txt = unparse(a).replace(" ", "") if a is not None else "?"
            if re.match(r"^(std::iter::|core::iter::|iter::)?once\(", txt):
                plus += 1
                continue
            return None, "chain(%s) adds an unknown number of items" % txt[:40]
        return None, "adapter `%s` may change the number of items" % name
    return (norm(base), plus), None


def run(ctx, syn, efile, fmt, res, rule, cols_ok):
    fns = {fn["name"]: fn for (p, impl, fn) in syn.all_fns(path=efile)}
    n = 0
    for t in fmt:
        toks = getattr(t, "tokens", None) or tpl.lex_segments(t.segs)
        for i, tok in enumerate(toks):
            # `: [[` ... `; {cols}] ; {rows}] = [ {items} ]`
            if not (tok.s == "[" and i + 1 < len(toks) and toks[i + 1].s == "[" and i > 0 and toks[i - 1].s == ":"):
                continue
            j = i + 2
            depth = 2
            semis = []
            while j < len(toks) and depth > 0:
                if toks[j].s == "[":
                    depth += 1
                elif toks[j].s == "]":
                    depth -= 1
                elif toks[j].s == ";" and depth in (1, 2):
                    semis.append((depth, j))
                j += 1
            if len(semis) != 2 or j + 2 >= len(toks) or toks[j].s != "=" or toks[j + 1].s != "[":
                continue
            cols_t, rows_t, items_t = toks[semis[0][1] + 1], toks[semis[1][1] + 1], toks[j + 2]
            name_t = toks[i - 2]
            key = name_t.ph if name_t.k == "ph" else name_t.s
            n += 1
            if not (cols_t.k == "ph" and rows_t.k == "ph" and items_t.k == "ph"):
                res.unanalysable(rule, "dims|%s" % key, t.where, "array lengths / items of the emitted table are not single placeholders")
                continue
            def full(ph):
                """what the placeholder prints, with identifiers that are themselves simple lets expanded"""
                d = norm(tpl.resolve_text(t, ph).replace("expr:", "", 1))
                for _ in range(3):
                    changed = False
                    for idn in set(re.findall(r"(?<![\w.])([a-z_]\w*)(?![\w(])", d)):
                        if idn in ("self", "file", "table"):
                            continue
                        b_ = tpl.binding(t, idn)
                        if b_ is not None and b_[0] == "let" and b_[1] is not None and idn != ph:
                            sub = norm(unparse(b_[1]))
                            if re.match(r"^[\w.()+]+$", sub) and sub != idn:
                                d = re.sub(r"(?<![\w.])%s(?![\w(])" % re.escape(idn), sub, d)
                                changed = True
                    if not changed:
                        break
                return d
            cols_d = full(cols_t.ph)
            rows_d = full(rows_t.ph)
            items_d = norm(tpl.resolve_text(t, items_t.ph).replace("expr:", "", 1))
            m = re.match(r"^(\w+)\(\)(\.indent\(\d+\))?$", items_d)
            if not m or m.group(1) not in fns:
                res.unanalysable(rule, "dims|%s" % key, t.where, "cannot find the function that writes the rows (`%s`)" % items_d)
                continue
            rows_fn = fns[m.group(1)]
            # rows function: (0..N).map(|i| self.<row_fn>(..)) ...
            rng = [r for r in nodes(rows_fn["body"], "Range")]
            calls = [mc for mc in nodes(rows_fn["body"], "MethodCall") if ident_of(mc["recv"]) == "self" and mc["method"] in fns and mc["method"] != rows_fn["name"]]
            if len(rng) != 1 or len(calls) != 1:
                res.unanalysable(rule, "dims|%s|rows" % key, "%s:%d" % (efile, rows_fn.get("line", 0)), "rows function `%s` is not one range mapped through one row function" % rows_fn["name"])
                continue
            r = rng[0]
            lo = unparse(r.get("start")).strip() if r.get("start") else ""
            hi = norm(unparse(r.get("end"))) if r.get("end") else "?"
            written_rows = hi if (lo == "0" and r.get("limits", "..").strip() == "..") else "?(%s..%s)" % (lo, hi)
            # every adapter between the range and the sink keeps the length
            rows_chain_ok = True
            why = ""
            for mc in nodes(rows_fn["body"], "MethodCall"):
                root, chain = method_chain(mc)
                if root is r:
                    for c in chain:
                        if not (c[0] == "call" and (c[1] in LEN_KEEP or c[1] in SINKS)):
                            rows_chain_ok = False
                            why = c[1]
            decl_rows = rows_d
            good_rows = written_rows == decl_rows and rows_chain_ok
            res.inst(rule, "dims|%s|rows" % key, t.where, True, "declared {%s} = %s ; written: one row per index of 0..%s" % (rows_t.ph, decl_rows, written_rows))
            if not good_rows:
                res.violate(rule, "dims|%s|rows" % key, t.where, "emitted table `%s` declares %s rows but the emitter writes %s%s: the generated file does not compile (array length mismatch)" % (key, decl_rows, "one per index of 0..%s" % written_rows, (" through `%s`" % why) if why else ""))
            # row function
            row_fn = fns[calls[0]["method"]]
            best = None
            reason = "no iterator chain over a table list"
            for mc in nodes(row_fn["body"], "MethodCall"):
                root, chain = method_chain(mc)
                if ident_of(root) == "self" and chain and chain[0][:2] == ("field", "table") and any(c[0] == "call" and c[1] in ("collect", "join") for c in chain):
                    got, why2 = count_of_chain(mc)
                    if got is None:
                        reason = why2
                        best = None
                        break
                    if best is None or len(unparse(mc)) > best[2]:
                        best = (got[0], got[1], len(unparse(mc)))
            if best is None:
                res.violate(rule, "dims|%s|cols" % key, t.where, "row function `%s` of emitted table `%s`: %s — the number of items per row can differ from the declared length `%s`" % (row_fn["name"], key, reason, cols_d))
                continue
            lst, plus = best[0], best[1]
            m2 = re.match(r"^([\w.]+)\.len\(\)(?:\+(\d+))?$", cols_d)
            if not m2:
                res.violate(rule, "dims|%s|cols" % key, t.where, "declared row length `%s` of emitted table `%s` is not `<list>.len()` (+ literal)" % (cols_d, key))
                continue
            decl_list, decl_plus = m2.group(1), int(m2.group(2) or 0)
            pairs = {"table.terminals": "file.terminal_enum.variants", "table.nonterminals": "file.nonterminals"}
            full = bool(cols_ok.get(lst))
            same_list = decl_list == lst or (pairs.get(lst) == decl_list and full)
            res.inst(rule, "dims|%s|cols" % key, t.where, True, "declared {%s} = %s ; written: %s items + %d ; table list is the full image of the file list: %s" % (cols_t.ph, cols_d, lst, plus, full))
            if not (same_list and decl_plus == plus):
                res.violate(rule, "dims|%s|cols" % key, t.where, "emitted table `%s` declares rows of length `%s` but each row gets `%s.len() + %d` items%s: the generated file does not compile (array length mismatch)" % (key, cols_d, lst, plus, "" if full or decl_list == lst else " and the table's list is not the complete image of the file's list"))
    res.floor("emitted table declarations checked for dimensions", n, 2)
