"""Shape rules for an LR driver function `parse` as emitted by Kiki (syn AST).

Used twice: on the concrete `parse` of the checked-in front-end parser (C09) and on the `parse`
item of the generator's template after placeholder substitution (C03).  Binder names are free;
the rules look at structure: lazy token stream with one token of look-ahead, where `next()` may
occur, what is returned.
"""
from .syn import walk, nodes, ident_of, path_str, method_chain, unparse

LAZY_ADAPTORS = ("map", "chain", "peekable")


class DriverFacts:
    def __init__(self):
        self.ok = True
        self.problems = []  # (rule suffix, key, line, message)
        self.stream = None
        self.start_state = None
        self.action_arms = {}
        self.counts = {}
        self.eof_path = None
        self.terminal_ctor = None

    def bad(self, rule, key, line, msg):
        self.ok = False
        self.problems.append((rule, key, line, msg))


def calls_on(n, binder):
    """all method calls whose (eventual) receiver root is the identifier `binder`"""
    out = []
    for m in nodes(n, "MethodCall"):
        root, chain = method_chain(m)
        if ident_of(root) == binder:
            # the innermost call on the binder itself
            first = chain[0]
            out.append((first[1], first[3], m))
    # de-duplicate by the innermost node identity
    seen = set()
    res = []
    for (name, inner, outer) in out:
        if id(inner) in seen:
            continue
        seen.add(id(inner))
        res.append((name, inner))
    return res


def uses_of(n, binder):
    return [x for x in nodes(n, "Path") if ident_of(x) == binder]


def check_driver(fn, df=None):
    """fn: syn Fn node of `parse`. returns DriverFacts"""
    df = df or DriverFacts()
    body = fn["body"]["stmts"]
    params = [i["pat"]["name"] for i in fn["inputs"] if "pat" in i and i["pat"]["k"] == "PIdent"]
    if len(params) != 1:
        df.bad("lazy", "param-count", fn["line"], "parse must take exactly one parameter")
        return df
    src = params[0]
    # --- 1. the token stream
    stream = None
    for st in body:
        if st["k"] == "Let" and st.get("init") is not None and uses_of(st["init"], src):
            root, chain = method_chain(st["init"])
            if ident_of(root) == src and st["pat"]["k"] in ("PIdent", "PType"):
                p = st["pat"] if st["pat"]["k"] == "PIdent" else st["pat"]["pat"]
                stream = p["name"]
                names = [c[1] for c in chain if c[0] == "call"]
                if not names or names[0] != "into_iter":
                    df.bad("lazy", "stream-root", st["line"], "token stream must start with `<param>.into_iter()`: %s" % unparse(st["init"])[:120])
                for c in chain[1:]:
                    if c[0] != "call" or c[1] not in LAZY_ADAPTORS:
                        df.bad("lazy", "adaptor|" + c[1], st["line"], "non-lazy or buffering step `%s` in the token stream initialiser (allowed: %s)" % (c[1], ", ".join(LAZY_ADAPTORS)))
                if names.count("peekable") != 1 or names[-1] != "peekable":
                    df.bad("lazy", "peekable-once", st["line"], "the stream must end in exactly one `peekable()`")
                for c in chain:
                    if c[0] == "call" and c[1] == "map":
                        a = c[2][0] if c[2] else None
                        if a is None or a["k"] != "Path":
                            df.bad("ident", "map-arg", st["line"], "`map` over the input must be the bare terminal-wrapping constructor, found %s" % unparse(a))
                        else:
                            df.terminal_ctor = a["path"]["segs"]
                    if c[0] == "call" and c[1] == "chain":
                        a = c[2][0] if c[2] else None
                        good = a is not None and a["k"] == "Call" and path_str(a["func"]) in ("std::iter::once", "core::iter::once", "iter::once") and len(a["args"]) == 1 and a["args"][0]["k"] == "Path"
                        if not good:
                            df.bad("lazy", "chain-arg", st["line"], "`chain` may only append `std::iter::once(<end-of-input variant>)`, found %s" % unparse(a))
                        else:
                            df.eof_path = a["args"][0]["path"]["segs"]
                break
    if stream is None:
        df.bad("lazy", "no-stream", fn["line"], "no `let <stream> = <param>.into_iter()…` found in parse")
        return df
    df.stream = stream
    # the parameter must not be used anywhere else
    if len(uses_of(fn["body"], src)) != 1:
        df.bad("lazy", "param-reused", fn["line"], "the input parameter is used more than once")

    # --- 2. the loop
    loops = [st["expr"] for st in body if st["k"] == "ExprStmt" and st["expr"]["k"] == "Loop"]
    if len(loops) != 1:
        df.bad("calls", "loop-count", fn["line"], "expected exactly one `loop` in parse, found %d" % len(loops))
        return df
    loop = loops[0]
    # start state
    for st in body:
        if st["k"] == "Let" and st.get("init") and st["init"]["k"] == "Macro" and st["init"]["name"] == "vec" and st["init"]["args"] and len(st["init"]["args"]) == 1 and st["init"]["args"][0]["k"] == "Path" and len(st["init"]["args"][0]["path"]["segs"]) == 2:
            p = st["pat"] if st["pat"]["k"] == "PIdent" else st["pat"].get("pat", {})
            df.start_state = st["init"]["args"][0]["path"]["segs"]
            df.states_var = p.get("name")
    # all calls on the stream
    all_calls = calls_on(fn["body"], stream)
    other_uses = len(uses_of(fn["body"], stream)) - len(all_calls)
    if other_uses != 0:
        df.bad("calls", "stream-escapes", fn["line"], "the token stream is used other than as a method receiver (%d uses): it may be consumed elsewhere" % other_uses)
    for (name, inner) in all_calls:
        if name not in ("peek", "next"):
            df.bad("calls", "method|" + name, inner["line"], "method `%s` called on the token stream (only peek/next allowed)" % name)
    df.counts["peek"] = sum(1 for (n, _) in all_calls if n == "peek")
    df.counts["next"] = sum(1 for (n, _) in all_calls if n == "next")

    lstmts = loop["body"]["stmts"]
    matches = [st["expr"] for st in lstmts if st["k"] == "ExprStmt" and st["expr"]["k"] == "Match"]
    if len(matches) != 1:
        df.bad("calls", "match-count", loop["line"], "expected exactly one `match` on the action in the loop")
        return df
    m = matches[0]
    # peek exactly once, in the loop head (outside the match arms)
    peeks_in_head = sum(len([1 for (n, _) in calls_on(st, stream) if n == "peek"]) for st in lstmts if not (st["k"] == "ExprStmt" and st["expr"] is m))
    peeks_in_head += len([1 for (n, _) in calls_on(m["expr"], stream) if n == "peek"])
    if df.counts["peek"] != 1 or peeks_in_head != 1:
        df.bad("calls", "peek-once", loop["line"], "`peek` must occur exactly once, in the loop head before the action is chosen (found %d, %d in the head)" % (df.counts["peek"], peeks_in_head))
    head_next = sum(len([1 for (n, _) in calls_on(st, stream) if n == "next"]) for st in lstmts if not (st["k"] == "ExprStmt" and st["expr"] is m))
    head_next += len([1 for (n, _) in calls_on(m["expr"], stream) if n == "next"])
    if head_next:
        df.bad("next", "next-before-action", loop["line"], "`next()` is taken before the action is decided (an item beyond the look-ahead is pulled)")
    # scrutinee: get_action(top, kind) where kind derives from peek
    if not (m["expr"]["k"] == "Call" and path_str(m["expr"]["func"]) == "get_action" and len(m["expr"]["args"]) == 2):
        df.bad("calls", "scrutinee", m["line"], "the loop must match on get_action(top_state, look-ahead kind)")

    # --- 3. arms, classified by shape
    arms = {}
    for a in m["arms"]:
        nexts = [inner for (n, inner) in calls_on(a["body"], stream) if n == "next"]
        returns = nodes(a["body"], "Return")
        calls = [path_str(c["func"]) for c in nodes(a["body"], "Call") if c["func"]["k"] == "Path"]
        kind = None
        if a["pat"]["k"] == "PTupleStruct" and "pop_and_reduce" in calls:
            kind = "reduce"
        elif a["pat"]["k"] == "PTupleStruct":
            kind = "shift"
        elif returns and any(r["expr"] and r["expr"]["k"] == "Call" and path_str(r["expr"]["func"]) == "Ok" for r in returns):
            kind = "accept"
        elif returns and all(r["expr"] and r["expr"]["k"] == "Call" and path_str(r["expr"]["func"]) == "Err" for r in returns):
            kind = "error"
        else:
            kind = "unknown|" + unparse(a["pat"])
        if kind in arms:
            df.bad("calls", "duplicate-arm|" + kind, a["line"], "two arms of kind %s" % kind)
        arms[kind] = a
    df.action_arms = arms
    if sorted(arms) != ["accept", "error", "reduce", "shift"]:
        df.bad("calls", "arms", m["line"], "the action match must have exactly the four arms shift/reduce/accept/error, found %s" % sorted(arms))
        return df
    for a in m["arms"]:
        if a["pat"]["k"] == "PWild" or (a["pat"]["k"] == "PIdent"):
            df.bad("calls", "wildcard-arm", a["line"], "wildcard arm in the action match")

    def err_returns_ok(arm, where):
        """every `next` in the arm must sit inside `return Err(<chain on next>)` with an identity chain"""
        for r in nodes(arm["body"], "Return"):
            e = r["expr"]
            if e is None:
                continue
            if e["k"] == "Call" and path_str(e["func"]) == "Err":
                arg = e["args"][0] if e["args"] else None
                root, chain = method_chain(arg) if arg is not None else (None, [])
                names = [c[1] for c in chain]
                if not (arg is not None and ident_of(root) == stream and names[:1] == ["next"] and all(c[0] == "call" and not c[2] for c in chain) and set(names[1:]) <= {"unwrap", "try_into_terminal", "ok"} and "try_into_terminal" in names and names[-1] == "ok"):
                    df.bad("ident", "err-operand|" + where, r["line"], "`return Err(..)` must hand back the token taken by the single `next()` unchanged (chain next/unwrap/try_into_terminal/ok only), found %s" % unparse(arg)[:160])

    # shift: exactly one next, pushes the target state and the node of that very token
    sh = arms["shift"]
    sh_next = [inner for (n, inner) in calls_on(sh["body"], stream) if n == "next"]
    if len(sh_next) != 1:
        df.bad("next", "shift-next-count", sh["line"], "the shift arm must take exactly one token with `next()` (found %d)" % len(sh_next))
    binder = sh["pat"]["elems"][0]["name"] if sh["pat"]["elems"] and sh["pat"]["elems"][0]["k"] == "PIdent" else None
    from .syn import inline_lets, simple_lets
    sh_lets = simple_lets(sh["body"]["block"]["stmts"]) if sh["body"]["k"] == "BlockExpr" else {}
    sh_lets = {k_: v_ for k_, v_ in sh_lets.items() if k_ != stream}
    pushes = [inline_lets(mc, sh_lets) for mc in nodes(sh["body"], "MethodCall") if mc["method"] == "push"]
    pushed_state = any(ident_of(p["args"][0]) == binder for p in pushes if p["args"])
    pushed_node = False
    for p in pushes:
        if p["args"] and p["args"][0]["k"] == "Call" and path_str(p["args"][0]["func"]) and path_str(p["args"][0]["func"]).endswith("::from_terminal"):
            arg = p["args"][0]["args"][0]
            root, chain = method_chain(arg)
            names = [c[1] for c in chain]
            if ident_of(root) == stream and names == ["next", "unwrap", "try_into_terminal", "unwrap"]:
                pushed_node = True
    if not pushed_state:
        df.bad("next", "shift-state", sh["line"], "the shift arm must push the state bound by the Shift pattern")
    if not pushed_node:
        df.bad("ident", "shift-node", sh["line"], "the shift arm must push the node built from the token taken by `next()` (next/unwrap/try_into_terminal/unwrap)")
    if nodes(sh["body"], "Return"):
        df.bad("next", "shift-return", sh["line"], "return inside the shift arm")

    # reduce: pop_and_reduce, push node, goto read from the *new* top state, error return on missing goto
    rd = arms["reduce"]
    rstm = rd["body"]["block"]["stmts"] if rd["body"]["k"] == "BlockExpr" else []
    order = []
    for st in rstm:
        txt = unparse(st.get("init") or st.get("expr"))
        if "pop_and_reduce(" in txt:
            order.append("reduce")
        elif st["k"] == "Let" and ".last()" in txt:
            order.append("top")
        elif "get_goto(" in txt:
            order.append("goto")
        elif ".push(" in txt:
            order.append("push")
    if order != ["reduce", "push", "top", "goto", "push"]:
        df.bad("next", "reduce-order", rd["line"], "the reduce arm must be: pop_and_reduce, push node, read new top state, get_goto, push state — found %s" % order)
    for st in rstm:
        if st["k"] == "Let" and st.get("init") is not None and "get_goto(" in unparse(st["init"]):
            if st.get("else") is None:
                df.bad("next", "reduce-goto-else", st["line"], "missing-goto case is not handled by an error return")
    rd_next = [inner for (n, inner) in calls_on(rd["body"], stream) if n == "next"]
    rd_ret_next = 0
    for r in nodes(rd["body"], "Return"):
        rd_ret_next += len([1 for (n, _) in calls_on(r, stream) if n == "next"])
    if len(rd_next) != rd_ret_next:
        df.bad("next", "reduce-next", rd["line"], "`next()` in the reduce arm outside a `return Err(..)`: a reduction must not consume input")
    err_returns_ok(rd, "reduce")

    # accept: no next, returns Ok(Start::try_from(nodes.pop().unwrap())...)
    ac = arms["accept"]
    if [1 for (n, _) in calls_on(ac["body"], stream) if n == "next"]:
        df.bad("next", "accept-next", ac["line"], "`next()` in the accept arm")
    # error arm
    er = arms["error"]
    er_next = [inner for (n, inner) in calls_on(er["body"], stream) if n == "next"]
    if len(er_next) != 1:
        df.bad("next", "error-next-count", er["line"], "the error arm must take exactly the offending token (one `next()`), found %d" % len(er_next))
    err_returns_ok(er, "error")
    # total number of next() = 1 shift + returns
    return df
