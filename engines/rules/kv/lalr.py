"""Independent reference: reader for the Kiki grammar syntax and two LALR(1) constructions.

Shares nothing with the code under test.  Used for C09 (translation validation of the
checked-in generated front-end parser against the grammar of record).
"""
import re
from collections import OrderedDict, deque


class KikiSyntaxError(Exception):
    pass


TOKEN_RE = re.compile(r"""
    (?P<ws>\s+)
  | (?P<comment>//[^\n]*)
  | (?P<attr>\#\[[^\n]*\])
  | (?P<term>\$[A-Za-z_][A-Za-z0-9_]*)
  | (?P<ident>[A-Za-z_][A-Za-z0-9_]*)
  | (?P<dcolon>::)
  | (?P<punct>[:,(){}<>])
""", re.X)


def kiki_tokens(text):
    pos = 0
    out = []
    while pos < len(text):
        m = TOKEN_RE.match(text, pos)
        if not m:
            raise KikiSyntaxError("cannot lex grammar at offset %d: %r" % (pos, text[pos:pos + 20]))
        pos = m.end()
        k = m.lastgroup
        if k in ("ws", "comment", "attr"):
            continue
        v = m.group(k)
        if k == "ident" and v in ("start", "struct", "enum", "terminal", "_"):
            out.append(("kw", v))
        elif k == "dcolon":
            out.append(("punct", "::"))
        else:
            out.append((k, v))
    out.append(("eof", ""))
    return out


class Grammar:
    """rules: list of (lhs, [symbols], meta); symbols: ('N', name) | ('T', name)"""

    def __init__(self):
        self.start = None
        self.nonterminals = []  # declaration order
        self.terminals = []  # declaration order
        self.terminal_types = {}
        self.rules = []
        self.nt_kind = {}  # name -> 'struct' | 'enum'


def read_kiki(text):
    toks = kiki_tokens(text)
    i = [0]
    g = Grammar()

    def peek():
        return toks[i[0]]

    def take(kind=None, val=None):
        t = toks[i[0]]
        if (kind and t[0] != kind) or (val is not None and t[1] != val):
            raise KikiSyntaxError("expected %s %s, found %r at token %d" % (kind, val, t, i[0]))
        i[0] += 1
        return t

    def symbol():
        t = peek()
        if t[0] == "ident":
            take()
            return ("N", t[1])
        if t[0] == "term":
            take()
            return ("T", t[1][1:])
        raise KikiSyntaxError("expected a symbol, found %r" % (t,))

    def fieldset():
        """returns (shape, [(field name or None (tuple) , used?, symbol)])"""
        t = peek()
        if t == ("punct", "{"):
            take()
            fields = []
            while peek() != ("punct", "}"):
                n = peek()
                if n == ("kw", "_"):
                    take()
                    name, used = "_", False
                else:
                    name, used = take("ident")[1], True
                take("punct", ":")
                fields.append((name, used, symbol()))
            take("punct", "}")
            if not fields:
                raise KikiSyntaxError("empty named fieldset")
            return ("named", fields)
        if t == ("punct", "("):
            take()
            fields = []
            while peek() != ("punct", ")"):
                if peek() == ("kw", "_"):
                    take()
                    take("punct", ":")
                    fields.append((None, False, symbol()))
                else:
                    fields.append((None, True, symbol()))
            take("punct", ")")
            if not fields:
                raise KikiSyntaxError("empty tuple fieldset")
            return ("tuple", fields)
        return ("empty", [])

    def type_():
        if peek() == ("punct", "("):
            take()
            take("punct", ")")
            return "()"
        parts = [take("ident")[1]]
        while peek() == ("punct", "::"):
            take()
            parts.append(take("ident")[1])
        s_ = "::".join(parts)
        if peek() == ("punct", "<"):
            take()
            args = [type_()]
            while peek() == ("punct", ","):
                take()
                args.append(type_())
            take("punct", ">")
            s_ += "<" + ", ".join(args) + ">"
        return s_

    while peek()[0] != "eof":
        t = take()
        if t == ("kw", "start"):
            if g.start is not None:
                raise KikiSyntaxError("two start declarations")
            g.start = take("ident")[1]
        elif t == ("kw", "struct"):
            name = take("ident")[1]
            shape, fields = fieldset()
            g.nonterminals.append(name)
            g.nt_kind[name] = "struct"
            g.rules.append((name, [f[2] for f in fields], {"ctor": name, "variant": None, "shape": shape, "fields": fields}))
        elif t == ("kw", "enum"):
            name = take("ident")[1]
            g.nonterminals.append(name)
            g.nt_kind[name] = "enum"
            take("punct", "{")
            while peek() != ("punct", "}"):
                v = take("ident")[1]
                shape, fields = fieldset()
                g.rules.append((name, [f[2] for f in fields], {"ctor": name, "variant": v, "shape": shape, "fields": fields}))
            take("punct", "}")
        elif t == ("kw", "terminal"):
            take("ident")
            take("punct", "{")
            while peek() != ("punct", "}"):
                tn = take("term")[1][1:]
                take("punct", ":")
                g.terminals.append(tn)
                g.terminal_types[tn] = type_()
            take("punct", "}")
        else:
            raise KikiSyntaxError("unexpected token %r at top level" % (t,))
    if g.start is None:
        raise KikiSyntaxError("no start declaration")
    return g


EOF = "$eof"


def first_sets(g):
    first = {n: set() for n in g.nonterminals}
    nullable = {n: False for n in g.nonterminals}
    changed = True
    while changed:
        changed = False
        for (lhs, rhs, _) in g.rules:
            allnull = True
            for (k, s_) in rhs:
                if k == "T":
                    if s_ not in first[lhs]:
                        first[lhs].add(s_)
                        changed = True
                    allnull = False
                    break
                add = first[s_] - first[lhs]
                if add:
                    first[lhs] |= add
                    changed = True
                if not nullable[s_]:
                    allnull = False
                    break
            if allnull and not nullable[lhs]:
                nullable[lhs] = True
                changed = True
    return first, nullable


def first_of_seq(seq, la, first, nullable):
    out = set()
    for (k, s_) in seq:
        if k == "T":
            out.add(s_)
            return out
        out |= first[s_]
        if not nullable[s_]:
            return out
    out.add(la)
    return out


class Automaton:
    def __init__(self):
        self.states = []  # list of dict core(item=(rule,dot)) -> set(lookaheads)
        self.trans = {}  # (state, symbol) -> state
        self.start = 0


def rules_aug(g):
    """rule index -1 is the augmented rule S' -> start"""
    return {-1: ("$accept", [("N", g.start)])}


def rhs_of(g, r):
    if r == -1:
        return [("N", g.start)]
    return g.rules[r][1]


def lalr_by_canonical_merge(g):
    """canonical LR(1) collection, then merge states with equal cores"""
    first, nullable = first_sets(g)
    by_lhs = {}
    for idx, (lhs, rhs, _) in enumerate(g.rules):
        by_lhs.setdefault(lhs, []).append(idx)

    def closure(items):
        items = set(items)
        work = list(items)
        while work:
            (r, d, la) = work.pop()
            rhs = rhs_of(g, r)
            if d < len(rhs) and rhs[d][0] == "N":
                las = first_of_seq(rhs[d + 1:], la, first, nullable)
                for r2 in by_lhs.get(rhs[d][1], []):
                    for l2 in las:
                        it = (r2, 0, l2)
                        if it not in items:
                            items.add(it)
                            work.append(it)
        return frozenset(items)

    start = closure({(-1, 0, EOF)})
    states = [start]
    index = {start: 0}
    trans = {}
    q = deque([0])
    while q:
        si = q.popleft()
        st = states[si]
        by_sym = OrderedDict()
        for (r, d, la) in sorted(st):
            rhs = rhs_of(g, r)
            if d < len(rhs):
                by_sym.setdefault(rhs[d], set()).add((r, d + 1, la))
        for sym, kern in by_sym.items():
            t = closure(kern)
            if t not in index:
                index[t] = len(states)
                states.append(t)
                q.append(index[t])
            trans[(si, sym)] = index[t]
    n_lr1 = len(states)
    # merge by core
    core_of = [frozenset((r, d) for (r, d, la) in st) for st in states]
    merged_index = {}
    rep = []
    for i, c in enumerate(core_of):
        if c not in merged_index:
            merged_index[c] = len(rep)
            rep.append(c)
    a = Automaton()
    a.states = [dict() for _ in rep]
    for i, st in enumerate(states):
        m = merged_index[core_of[i]]
        for (r, d, la) in st:
            a.states[m].setdefault((r, d), set()).add(la)
    for (si, sym), ti in trans.items():
        ms, mt = merged_index[core_of[si]], merged_index[core_of[ti]]
        if (ms, sym) in a.trans and a.trans[(ms, sym)] != mt:
            raise AssertionError("merged transition not functional")
        a.trans[(ms, sym)] = mt
    a.start = merged_index[core_of[0]]
    a.n_lr1 = n_lr1
    return a


def lalr_by_propagation(g):
    """LR(0) automaton + look-ahead computation by spontaneous generation / propagation
    (dragon-book algorithm 4.63, an independent second route to the same sets)"""
    first, nullable = first_sets(g)
    by_lhs = {}
    for idx, (lhs, rhs, _) in enumerate(g.rules):
        by_lhs.setdefault(lhs, []).append(idx)

    def closure0(kern):
        items = set(kern)
        work = list(kern)
        while work:
            (r, d) = work.pop()
            rhs = rhs_of(g, r)
            if d < len(rhs) and rhs[d][0] == "N":
                for r2 in by_lhs.get(rhs[d][1], []):
                    if (r2, 0) not in items:
                        items.add((r2, 0))
                        work.append((r2, 0))
        return frozenset(items)

    def closure1(items):
        items = set(items)
        work = list(items)
        while work:
            (r, d, la) = work.pop()
            rhs = rhs_of(g, r)
            if d < len(rhs) and rhs[d][0] == "N":
                las = first_of_seq(rhs[d + 1:], la, first, nullable)
                for r2 in by_lhs.get(rhs[d][1], []):
                    for l2 in las:
                        it = (r2, 0, l2)
                        if it not in items:
                            items.add(it)
                            work.append(it)
        return items

    k0 = frozenset({(-1, 0)})
    kernels = [k0]
    index = {k0: 0}
    trans = {}
    q = deque([0])
    while q:
        si = q.popleft()
        full = closure0(kernels[si])
        by_sym = OrderedDict()
        for (r, d) in sorted(full):
            rhs = rhs_of(g, r)
            if d < len(rhs):
                by_sym.setdefault(rhs[d], set()).add((r, d + 1))
        for sym, kern in by_sym.items():
            kern = frozenset(kern)
            if kern not in index:
                index[kern] = len(kernels)
                kernels.append(kern)
                q.append(index[kern])
            trans[(si, sym)] = index[kern]
    HASH = "#"
    la = {(si, it): set() for si, k in enumerate(kernels) for it in k}
    la[(0, (-1, 0))].add(EOF)
    prop = {}
    for si, k in enumerate(kernels):
        for it in k:
            for (r, d, l) in closure1({(it[0], it[1], HASH)}):
                rhs = rhs_of(g, r)
                if d < len(rhs):
                    tgt = (trans[(si, rhs[d])], (r, d + 1))
                    if l == HASH:
                        prop.setdefault((si, it), set()).add(tgt)
                    else:
                        la[tgt].add(l)
    changed = True
    while changed:
        changed = False
        for src, tgts in prop.items():
            for t in tgts:
                add = la[src] - la[t]
                if add:
                    la[t] |= add
                    changed = True
    a = Automaton()
    a.trans = dict(trans)
    a.start = 0
    a.states = []
    for si, k in enumerate(kernels):
        items = set()
        for it in k:
            for l in la[(si, it)]:
                items.add((it[0], it[1], l))
        full = closure1(items)
        d_ = {}
        for (r, d, l) in full:
            d_.setdefault((r, d), set()).add(l)
        a.states.append(d_)
    return a


def tables(g, a):
    """ACTION: (state, terminal-or-EOF) -> ('s', t) | ('r', rule) | ('acc',) ; GOTO: (state, nt) -> t.
    returns (action, goto, conflicts)"""
    action = {}
    goto = {}
    conflicts = []

    def put(k, v):
        if k in action and action[k] != v:
            conflicts.append((k, action[k], v))
        action[k] = v

    for si, st in enumerate(a.states):
        for (r, d), las in st.items():
            rhs = rhs_of(g, r)
            if d < len(rhs):
                k, s_ = rhs[d]
                if k == "T":
                    put((si, s_), ("s", a.trans[(si, rhs[d])]))
            else:
                for l in las:
                    if r == -1:
                        put((si, l), ("acc",))
                    else:
                        put((si, l), ("r", r))
    for (si, (k, s_)), t in a.trans.items():
        if k == "N":
            goto[(si, s_)] = t
    return action, goto, conflicts


def canonical_form(g, a):
    """state-numbering independent rendering: BFS from start over sorted symbols"""
    order = [a.start]
    seen = {a.start: 0}
    q = deque([a.start])
    syms = [("T", t) for t in g.terminals] + [("N", n) for n in g.nonterminals]
    while q:
        s_ = q.popleft()
        for sym in syms:
            t = a.trans.get((s_, sym))
            if t is not None and t not in seen:
                seen[t] = len(order)
                order.append(t)
                q.append(t)
    return seen, order
