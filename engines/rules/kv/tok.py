"""TOK — facts about the tokenizer read off its syntax tree (role-anchored, no execution).

Roles (Appendix A of DESIGN.md):
  driver      the method containing `for (i, c) in <self.src>.char_indices()`
  dispatcher  the method it calls per item with (c, ByteIndex(i))
  flush       the method it calls after the loop with (None, ByteIndex(<src>.len()))
  handlers    the methods the dispatcher's `match self.state` arms call
"""
from .syn import walk, nodes, ident_of, path_str, method_chain, unparse, lit_of


class TokFacts:
    def __init__(self):
        self.file = None
        self.problems = []  # (key, line, msg) — constructs the extractor does not understand
        self.driver = None
        self.dispatcher = None
        self.flush = None
        self.handlers = {}  # state variant -> (fn node, param mapping)
        self.state_enum = None
        self.state_variants = {}  # name -> n payloads
        self.literal_tables = {}  # fn name -> {"kind": "str"|"char", "map": {lit: variant}}
        self.kind_to_token = {}  # fn name -> {kind variant: token variant}
        self.reserved = {}  # lexeme -> token variant
        self.punct = {}  # char -> token variant
        self.all_fns = []
        self.fns = {}
        self.src_field = None

    def bad(self, key, line, msg):
        self.problems.append((key, line, msg))


def find_tokenizer_file(syn):
    """the file containing a `for .. in <x>.char_indices()` loop inside an impl method that
    returns Result<Vec<Token>, KikiErr>"""
    out = []
    for (p, impl, fn) in syn.all_fns():
        if impl is None:
            continue
        for f in nodes(fn["body"], "For"):
            root, chain = method_chain(f["expr"])
            if chain and chain[-1][1] == "char_indices" and "Result" in (fn["output"] or "") and "Token" in (fn["output"] or ""):
                out.append((p, impl, fn, f))
    return out


def literal_table(fn):
    """fn f(x) -> Option<K> { match x { lit => Some(K::V), ..., _ => None } }  ->  (kind, {lit: V})"""
    ms = nodes(fn["body"], "Match")
    if len(ms) != 1 or len(fn["body"]["stmts"]) != 1:
        return None
    m = ms[0]
    param = fn["inputs"][0]["pat"]["name"] if fn["inputs"] and "pat" in fn["inputs"][0] and fn["inputs"][0]["pat"]["k"] == "PIdent" else None
    if ident_of(m["expr"]) != param:
        return None
    out = {}
    kind = None
    default_none = False
    for a in m["arms"]:
        p = a["pat"]
        if a["guard"] is not None:
            return None
        if p["k"] == "PWild":
            if not (a["body"]["k"] == "Path" and a["body"]["path"]["segs"] == ["None"]):
                return None
            default_none = True
            continue
        lits = [p] if p["k"] == "PLit" else (p["cases"] if p["k"] == "POr" else None)
        if lits is None or any(l["k"] != "PLit" for l in lits):
            return None
        b = a["body"]
        if not (b["k"] == "Call" and path_str(b["func"]) == "Some" and b["args"][0]["k"] == "Path"):
            return None
        v = b["args"][0]["path"]["segs"][-1]
        for l in lits:
            t = l["lit"]["t"]
            if kind is None:
                kind = t
            if t != kind or t not in ("str", "char"):
                return None
            out[l["lit"]["v"]] = v
    if not default_none:
        return None
    return {"kind": kind, "map": out}


def direct_token_table(fn):
    """the two tables fused: fn f(x, index) -> Option<Token> { match x { lit => Some(Token::T(index)), ..., _ => None } }
    -> (kind, {lit: T})"""
    ms = nodes(fn["body"], "Match")
    if len(ms) != 1 or len(fn["body"]["stmts"]) != 1 or len(fn["inputs"]) != 2:
        return None
    m = ms[0]
    if any("pat" not in i or i["pat"]["k"] != "PIdent" for i in fn["inputs"]):
        return None
    p0, p1 = fn["inputs"][0]["pat"]["name"], fn["inputs"][1]["pat"]["name"]
    if ident_of(m["expr"]) != p0:
        return None
    out = {}
    kind = None
    default_none = False
    for a in m["arms"]:
        p = a["pat"]
        if a["guard"] is not None:
            return None
        if p["k"] == "PWild":
            if not (a["body"]["k"] == "Path" and a["body"]["path"]["segs"] == ["None"]):
                return None
            default_none = True
            continue
        lits = [p] if p["k"] == "PLit" else (p["cases"] if p["k"] == "POr" else None)
        if lits is None or any(l["k"] != "PLit" for l in lits):
            return None
        b = a["body"]
        if not (b["k"] == "Call" and path_str(b["func"]) == "Some" and len(b["args"]) == 1):
            return None
        t_ = b["args"][0]
        if not (t_["k"] == "Call" and t_["func"]["k"] == "Path" and len(t_["func"]["path"]["segs"]) == 2 and len(t_["args"]) == 1 and ident_of(t_["args"][0]) == p1):
            return None
        for l in lits:
            t = l["lit"]["t"]
            if kind is None:
                kind = t
            if t != kind or t not in ("str", "char"):
                return None
            out[l["lit"]["v"]] = t_["func"]["path"]["segs"][-1]
    if not default_none:
        return None
    return {"kind": kind, "map": out}


def kind_token_table(fn):
    """fn f(kind: K, index) -> Token { match kind { K::V => Token::T(index), ... } } -> {V: T}"""
    ms = nodes(fn["body"], "Match")
    if len(ms) != 1 or len(fn["body"]["stmts"]) != 1 or len(fn["inputs"]) != 2:
        return None
    m = ms[0]
    p0 = fn["inputs"][0]["pat"].get("name")
    p1 = fn["inputs"][1]["pat"].get("name")
    if ident_of(m["expr"]) != p0:
        return None
    out = {}
    for a in m["arms"]:
        p = a["pat"]
        b = a["body"]
        if a["guard"] is not None or p["k"] != "PPath":
            return None
        if not (b["k"] == "Call" and b["func"]["k"] == "Path" and len(b["args"]) == 1 and ident_of(b["args"][0]) == p1):
            return None
        out[p["path"]["segs"][-1]] = b["func"]["path"]["segs"][-1]
    return out


def extract(syn):
    tf = TokFacts()
    c = find_tokenizer_file(syn)
    if len(c) != 1:
        tf.bad("anchor|driver", 0, "expected exactly one tokenizer driver (a method looping over char_indices and returning Result<Vec<Token>,_>), found %d" % len(c))
        return tf
    p, impl, driver, loop = c[0]
    tf.file = p
    tf.driver = driver
    # all fns of the file (free and in impls)
    for (pp, im, fn) in syn.all_fns(path=p):
        # (a method and a free function may share a name — `tokenize` — : methods win the by-name table the interpreter
        #  calls through, every function is kept in all_fns for the scans below)
        if fn["name"] not in tf.fns or im is not None:
            tf.fns[fn["name"]] = fn
        tf.all_fns.append((fn["name"], fn))
    # source field: <self.FIELD>.char_indices()
    root, chain = method_chain(loop["expr"])
    if ident_of(root) == "self" and len(chain) == 2 and chain[0][0] == "field":
        tf.src_field = chain[0][1]
    else:
        tf.bad("driver|source", loop["line"], "the character loop does not range over a field of self")
    # dispatcher: the method called in the loop body
    calls = [m for m in nodes(loop["body"], "MethodCall") if ident_of(m["recv"]) == "self"]
    if len(calls) != 1:
        tf.bad("driver|dispatch", loop["line"], "the character loop must call exactly one method of self per character")
        return tf
    tf.dispatcher = tf.fns.get(calls[0]["method"])
    tf.dispatch_call = calls[0]
    # flush: a self method called after the loop
    after = []
    seen_loop = False
    for st in driver["body"]["stmts"]:
        if st["k"] == "ExprStmt" and st["expr"] is loop:
            seen_loop = True
            continue
        if seen_loop:
            after += [m for m in nodes(st, "MethodCall") if ident_of(m["recv"]) == "self"]
    if len(after) != 1:
        tf.bad("driver|flush", driver["line"], "expected exactly one flush call after the character loop")
    else:
        tf.flush = tf.fns.get(after[0]["method"])
        tf.flush_call = after[0]
    # the dollar-less terminal name type: its constructor from text and its text accessor, by signature
    tf.dollarless_ctor, tf.dollarless_raw = None, None
    for (pp, im, fn) in syn.all_fns():
        if im is None or im.get("trait") is not None or im["self_ty"].strip() != "DollarlessTerminalName":
            continue
        ins = fn.get("inputs", [])
        outp = (fn.get("output") or "").replace(" ", "")
        if len(ins) == 1 and (ins[0].get("ty") or "").replace(" ", "") == "&str" and outp in ("Self", "DollarlessTerminalName"):
            tf.dollarless_ctor = fn["name"]
        if len(ins) == 1 and ins[0].get("self") and outp == "&str":
            tf.dollarless_raw = fn["name"]
    # literal tables
    for name, fn in tf.fns.items():
        lt = literal_table(fn)
        if lt:
            tf.literal_tables[name] = lt
        kt = kind_token_table(fn)
        if kt:
            tf.kind_to_token[name] = kt
    # compose: literal table (lit -> kind) with kind->token tables over the same kind variants
    for ln, lt in tf.literal_tables.items():
        for kn, kt in tf.kind_to_token.items():
            if set(lt["map"].values()) == set(kt.keys()):
                comp = {lit: kt[k] for lit, k in lt["map"].items()}
                if lt["kind"] == "str":
                    tf.reserved = comp
                    tf.reserved_fn = ln
                else:
                    tf.punct = comp
                    tf.punct_fn = ln
    # ... or one fused table lit -> token
    for name, fn in tf.fns.items():
        dt = direct_token_table(fn)
        if dt and dt["kind"] == "char" and not tf.punct:
            tf.punct = dict(dt["map"])
            tf.punct_fn = name
        elif dt and dt["kind"] == "str" and not tf.reserved:
            tf.reserved = dict(dt["map"])
            tf.reserved_fn = name
    # state field / enum / handlers from the dispatcher's `match self.<state>`
    tf.state_field = tf.state_enum = tf.initial_state = tf.out_field = tf.count_newtype = None
    tf.dispatch_match = None
    if tf.dispatcher is not None:
        ms = nodes(tf.dispatcher["body"], "Match")
        if len(ms) == 1 and ms[0]["expr"]["k"] == "Field" and ident_of(ms[0]["expr"]["base"]) == "self":
            tf.dispatch_match = ms[0]
            tf.state_field = ms[0]["expr"]["member"]
            for a in ms[0]["arms"]:
                p = a["pat"]
                if p["k"] in ("PPath", "PTupleStruct") and len(p["path"]["segs"]) == 2:
                    tf.state_enum = p["path"]["segs"][0]
                    tf.state_variants[p["path"]["segs"][1]] = len(p["elems"]) if p["k"] == "PTupleStruct" else 0
                else:
                    tf.bad("dispatcher|arm", a["line"], "dispatcher arm is not a plain state variant pattern (wildcard?): %s" % unparse(p))
        else:
            tf.bad("dispatcher|match", tf.dispatcher["line"], "the dispatcher is not a single `match self.<state>`")
    else:
        tf.bad("anchor|dispatcher", 0, "dispatcher method not found")
    # payload types of the state variants
    tf.state_payload_types = {}
    f = syn.file(tf.file)
    for it in (f["items"] if f else []):
        if it["k"] == "EnumDef" and it["name"] == tf.state_enum:
            for v in it["variants"]:
                tf.state_payload_types[v["name"]] = [x["ty"].strip() for x in v["fields"]["list"]]
        if it["k"] == "StructDef" and it["fields"]["shape"] == "tuple" and len(it["fields"]["list"]) == 1 and "NonZeroUsize" in it["fields"]["list"][0]["ty"]:
            tf.count_newtype = it["name"]
    # constructor: a struct literal that sets the state field
    for name, fn in tf.all_fns:
        for s_ in nodes(fn["body"], "Struct"):
            for fl in s_["fields"]:
                if fl["member"] == tf.state_field and fl["expr"]["k"] == "Path" and len(fl["expr"]["path"]["segs"]) == 2 and fl["expr"]["path"]["segs"][0] == tf.state_enum:
                    tf.initial_state = fl["expr"]["path"]["segs"][1]
    # output field: driver returns Ok(self.<out>)
    last = driver["body"]["stmts"][-1] if driver["body"]["stmts"] else None
    if last and last["k"] == "ExprStmt" and last["expr"]["k"] == "Call" and path_str(last["expr"]["func"]) == "Ok" and last["expr"]["args"][0]["k"] == "Field" and ident_of(last["expr"]["args"][0]["base"]) == "self":
        tf.out_field = last["expr"]["args"][0]["member"]
    else:
        tf.bad("driver|result", driver["line"], "the driver does not end in Ok(self.<tokens>)")
    return tf
