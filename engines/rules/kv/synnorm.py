"""Syntax-tree normalisation: the `String` accumulator loop

    let mut x = String::new();
    for PAT in ITER { .. x.push_str(A); .. }

is rewritten (in the loaded tree, never in the repository) into the iterator form the template rules read,

    let mut x = ITER.map(|PAT| VALUE).collect();

where VALUE is the text one iteration appends.  The rewrite is applied only when it is an equivalence that can be seen
locally: `x` is created empty, is not touched between its creation and the loop, every use of `x` in the loop body is an
append statement (`push_str` / `push`), the body cannot leave the loop early (no break / continue / return / `?`),
assigns no variable of its own surroundings, and `x` is not appended to or mutably borrowed after the loop.  The inner
nodes (format! invocations, literals, patterns) are reused, not copied, so that templates stay attached to their nodes.
Anything that does not fit is left exactly as written."""
import json

from .syn import walk, ident_of, nodes

APPEND = ("push_str", "push")
READ_ONLY = ("len", "is_empty", "as_str", "clone", "to_string", "to_owned", "as_bytes", "chars", "lines", "trim", "indent", "contains", "starts_with", "ends_with")


def _mk(k, like, **kw):
    d = {"k": k, "line": like.get("line", 0), "col": like.get("col", 0), "eline": like.get("eline", like.get("line", 0)), "synthetic": True}
    d.update(kw)
    return d


def _path(name, like):
    return _mk("Path", like, path={"segs": name.split("::"), "src": name, "leading_colon": False}, qself=False)


def _is_string_new(e):
    return e is not None and e.get("k") == "Call" and e["func"].get("k") == "Path" and e["func"]["path"]["segs"] == ["String", "new"] and not e["args"]


def _uses(n, x):
    return [p for p in walk(n) if p.get("k") == "Path" and ident_of(p) == x]


def _append_of(st, x):
    """st is `x.push_str(A);` / `x.push(A);` -> A, else None"""
    if st.get("k") != "ExprStmt":
        return None
    e = st["expr"]
    if e.get("k") == "MethodCall" and ident_of(e["recv"]) == x and e["method"] in APPEND and len(e["args"]) == 1:
        return e
    return None


def _value_of_append(mc):
    """the String one append contributes"""
    a = mc["args"][0]
    if a.get("k") == "Ref" and not a.get("mut") and a["expr"].get("k") == "Macro" and a["expr"].get("name") == "format":
        return a["expr"]
    if a.get("k") == "Macro" and a.get("name") == "format":
        return a
    if a.get("k") == "Lit" and a["lit"]["t"] == "str":
        return _mk("MethodCall", a, recv=a, method="to_owned", turbofish=None, args=[])
    return _mk("MethodCall", a, recv=a, method="to_string", turbofish=None, args=[])


def _esc(s):
    return s.replace("{", "{{").replace("}", "}}")


def _concat(appends, like):
    """several appends in a row = one format! of their concatenation"""
    if len(appends) == 1:
        return _value_of_append(appends[0])
    text = ""
    args = []
    for mc in appends:
        a = mc["args"][0]
        if a.get("k") == "Lit" and a["lit"]["t"] in ("str", "char"):
            text += _esc(a["lit"]["v"])
        elif a.get("k") == "Ref" and a["expr"].get("k") == "Macro" and a["expr"].get("name") == "format" and a["expr"].get("args") and a["expr"]["args"][0].get("k") == "Lit" and len(a["expr"]["args"]) == 1:
            text += a["expr"]["args"][0]["lit"]["v"]
        else:
            text += "{}"
            args.append(a)
    lit = _mk("Lit", like, lit={"t": "str", "v": text, "raw": False})
    from .syn import unparse
    return _mk("Macro", like, name="format", path={"segs": ["format"], "src": "format", "leading_colon": False}, args=[lit] + args, tokens=", ".join([json.dumps(text)] + [unparse(a_) for a_ in args]))


def _block_value(stmts, x, like):
    """expression for the text a statement list appends to x (None: not of a supported shape)"""
    stmts = list(stmts)
    if not stmts:
        return _mk("Call", like, func=_path("String::new", like), args=[])
    lets = []
    appends = []
    for i, st in enumerate(stmts):
        if st.get("k") == "Let":
            if _uses(st, x) or appends:
                return None
            lets.append(st)
            continue
        mc = _append_of(st, x)
        if mc is not None:
            if _uses(mc["args"][0], x):
                return None
            appends.append(mc)
            continue
        # one branching statement, alone (after lets)
        if i == len(stmts) - 1 and not appends and st.get("k") == "ExprStmt":
            v = _branch_value(st["expr"], x)
            if v is None:
                return None
            if not lets:
                return v
            return _mk("BlockExpr", like, block=_mk("Block", like, stmts=lets + [_mk("ExprStmt", st, expr=v, semi=False)]), label=False)
        return None
    if not appends:
        return None
    v = _concat(appends, appends[0])
    if not lets:
        return v
    return _mk("BlockExpr", like, block=_mk("Block", like, stmts=lets + [_mk("ExprStmt", appends[0], expr=v, semi=False)]), label=False)


def _expr_value(e, x):
    """value of an arm body / branch: a block, or a single append expression"""
    if e is None:
        return None
    if e.get("k") == "BlockExpr" and not e.get("label"):
        return _block_value(e["block"]["stmts"], x, e)
    if e.get("k") == "Block":
        return _block_value(e["stmts"], x, e)
    if e.get("k") == "MethodCall" and ident_of(e["recv"]) == x and e["method"] in APPEND and len(e["args"]) == 1 and not _uses(e["args"][0], x):
        return _value_of_append(e)
    return _branch_value(e, x)


def _branch_value(e, x):
    if e.get("k") == "Match":
        if _uses(e["expr"], x):
            return None
        arms = []
        for a in e["arms"]:
            if a.get("guard") is not None and _uses(a["guard"], x):
                return None
            v = _expr_value(a["body"], x)
            if v is None:
                return None
            na = dict(a)
            na["body"] = v
            arms.append(na)
        ne = dict(e)
        ne["arms"] = arms
        ne["synthetic"] = True
        return ne
    if e.get("k") == "If":
        if _uses(e["cond"], x):
            return None
        tv = _block_value(e["then"]["stmts"], x, e["then"])
        if tv is None:
            return None
        if e.get("else") is None:
            ev = _mk("Call", e, func=_path("String::new", e), args=[])
        else:
            ev = _expr_value(e["else"], x)
            if ev is None:
                return None
        ne = dict(e)
        ne["then"] = _mk("Block", e["then"], stmts=[_mk("ExprStmt", e["then"], expr=tv, semi=False)])
        ne["else"] = _mk("BlockExpr", e, block=_mk("Block", e, stmts=[_mk("ExprStmt", e, expr=ev, semi=False)]), label=False)
        ne["synthetic"] = True
        return ne
    return None


def _declared_in(body):
    out = set()
    for p in walk(body):
        if p.get("k") == "PIdent":
            out.add(p["name"])
    return out


def _loop_is_closed(body, x):
    """no early exit, no assignment to a variable of the surroundings"""
    own = _declared_in(body)
    for p in walk(body):
        k = p.get("k")
        if k in ("Break", "Continue", "Return", "Try", "Await", "Yield", "While", "Loop", "For"):
            return False
        if k in ("Assign", "AssignOp") or (k == "Binary" and str(p.get("op", "")).endswith("=") and p.get("op") not in ("==", "!=", "<=", ">=")):
            root = p["left"]
            while root.get("k") in ("Field", "Index", "Unary", "Paren"):
                root = root.get("base") or root.get("expr")
                if root is None:
                    return False
            if ident_of(root) not in own:
                return False
        if k == "Ref" and p.get("mut") and ident_of(p["expr"]) is not None and ident_of(p["expr"]) not in own:
            return False
        if k == "MethodCall" and ident_of(p["recv"]) is not None and ident_of(p["recv"]) not in own and ident_of(p["recv"]) != x and p["method"] in ("push", "push_str", "insert", "remove", "pop", "clear", "extend", "next", "truncate", "push_back", "pop_front"):
            return False
        if k == "Macro" and p.get("args") is None:
            return False  # unparsed macro body: cannot see what it does
    return True


def _later_use_ok(stmts, x):
    for st in stmts:
        for p in walk(st):
            k = p.get("k")
            if k == "MethodCall" and ident_of(p["recv"]) == x and p["method"] not in READ_ONLY:
                return False
            if k == "Ref" and p.get("mut") and ident_of(p["expr"]) == x:
                return False
            if k in ("Assign", "AssignOp") and ident_of(p.get("left")) == x:
                return False
            if k == "Binary" and str(p.get("op", "")) in ("+=",) and ident_of(p.get("left")) == x:
                return False
    return True


def _iter_expr(e):
    if e.get("k") == "Ref" and not e.get("mut"):
        return _mk("MethodCall", e, recv=e["expr"], method="iter", turbofish=None, args=[])
    if e.get("k") == "MethodCall":
        return e
    return _mk("MethodCall", e, recv=e, method="into_iter", turbofish=None, args=[])


def normalise_block(blk):
    """rewrite accumulator loops in one statement list; returns the number of rewrites"""
    n = 0
    stmts = blk["stmts"]
    i = 0
    while i < len(stmts):
        st = stmts[i]
        if st.get("k") == "Let" and st["pat"].get("k") in ("PIdent", "PType") and _is_string_new(st.get("init")):
            pat = st["pat"]
            while pat.get("k") == "PType":
                pat = pat["pat"]
            x = pat.get("name")
            j = i + 1
            while j < len(stmts) and not _uses(stmts[j], x):
                j += 1
            if x and j < len(stmts) and stmts[j].get("k") == "ExprStmt" and stmts[j]["expr"].get("k") == "For":
                loop = stmts[j]["expr"]
                if not _uses(loop["expr"], x) and _loop_is_closed(loop["body"], x) and _later_use_ok(stmts[j + 1:], x):
                    v = _block_value(loop["body"]["stmts"], x, loop["body"])
                    if v is not None:
                        clo = _mk("Closure", loop, inputs=[loop["pat"]], body=v, ret=None)
                        clo["move"] = False
                        mp = _mk("MethodCall", loop, recv=_iter_expr(loop["expr"]), method="map", turbofish=None, args=[clo])
                        col = _mk("MethodCall", loop, recv=mp, method="collect", turbofish=None, args=[])
                        # the binding takes the place of the loop (so that everything the loop read is already bound)
                        new_let = dict(st)
                        new_let["init"] = col
                        new_let["line"] = loop["line"]
                        new_let["synthetic"] = True
                        del stmts[j]
                        del stmts[i]
                        stmts.insert(j - 1, new_let)
                        n += 1
                        continue
        i += 1
    return n


def split_or_arms(m):
    """`A(x) | B(x) => body` is read as the two arms `A(x) => body`, `B(x) => body` (same guard, same body node):
    only for alternatives that are all enum-variant patterns; literal alternatives are left to their readers"""
    out = []
    n = 0
    for a in m["arms"]:
        pat = a["pat"]
        if pat.get("k") == "POr" and len(pat["cases"]) >= 2 and all(c.get("k") in ("PTupleStruct", "PPath", "PStruct") for c in pat["cases"]):
            for c in pat["cases"]:
                na = dict(a)
                na["pat"] = c
                na["line"] = c.get("line", a.get("line"))
                na["synthetic"] = True
                out.append(na)
            n += 1
        else:
            out.append(a)
    m["arms"] = out
    return n


def tail_option_match_to_let_else(fn):
    """a function body ending in `match X { None => E, Some(p) => { rest } }` is read as
    `let Some(p) = X else { return E }; rest` — the same thing in tail position of a function body"""
    body = fn.get("body")
    if not isinstance(body, dict) or not body.get("stmts"):
        return 0
    last = body["stmts"][-1]
    if last.get("k") != "ExprStmt" or last.get("semi") or last["expr"].get("k") != "Match":
        return 0
    m = last["expr"]
    if len(m["arms"]) != 2 or any(a.get("guard") is not None for a in m["arms"]):
        return 0
    none = [a for a in m["arms"] if (a["pat"].get("k") == "PPath" and a["pat"]["path"]["segs"] == ["None"]) or (a["pat"].get("k") == "PIdent" and a["pat"].get("name") == "None")]
    some = [a for a in m["arms"] if a["pat"].get("k") == "PTupleStruct" and a["pat"]["path"]["segs"] == ["Some"] and len(a["pat"]["elems"]) == 1]
    if len(none) != 1 or len(some) != 1:
        return 0
    nb, sb = none[0]["body"], some[0]["body"]
    if nodes(nb, "Return") or sb.get("k") != "BlockExpr" or sb.get("label"):
        return 0
    # the None value must be a plain expression (a block with one tail expression is unwrapped)
    while nb.get("k") == "BlockExpr" and len(nb["block"]["stmts"]) == 1 and nb["block"]["stmts"][0].get("k") == "ExprStmt" and not nb["block"]["stmts"][0].get("semi"):
        nb = nb["block"]["stmts"][0]["expr"]
    if nb.get("k") == "BlockExpr":
        return 0
    ret = _mk("Return", nb, expr=nb)
    els = _mk("BlockExpr", nb, block=_mk("Block", nb, stmts=[_mk("ExprStmt", nb, expr=ret, semi=True)]), label=False)
    let = _mk("Let", m, pat=some[0]["pat"], attrs=[], init=m["expr"])
    let["else"] = els
    body["stmts"] = body["stmts"][:-1] + [let] + list(sb["block"]["stmts"])
    return 1


def _single_tail(blk):
    st = blk["stmts"]
    return st[0]["expr"] if len(st) == 1 and st[0].get("k") == "ExprStmt" and not st[0].get("semi") and st[0]["expr"].get("k") not in ("If", "Match", "BlockExpr") else None


def _negate(c):
    if c.get("k") == "Unary" and str(c.get("op")).strip() == "!":
        return c["expr"]
    return _mk("Unary", c, op="!", expr=c)


def tail_if_else_to_guard(fn):
    """a function body ending in `if C { <one expression> } else { <several statements> }` (or the mirror image) is
    read in guard form, `if C { return <expression>; } <statements>` — the same thing in tail position of a function
    body.  Only when exactly one branch is a single expression, so that the direction is determined by the code."""
    body = fn.get("body")
    if not isinstance(body, dict) or not body.get("stmts"):
        return 0
    last = body["stmts"][-1]
    if last.get("k") != "ExprStmt" or last.get("semi") or last["expr"].get("k") != "If":
        return 0
    e = last["expr"]
    if e["cond"].get("k") == "LetCond" or e.get("else") is None or e["else"].get("k") != "BlockExpr" or e["else"].get("label"):
        return 0
    tv, ev = _single_tail(e["then"]), _single_tail(e["else"]["block"])
    if (tv is None) == (ev is None):
        return 0
    if ev is not None:
        cond, val, rest = _negate(e["cond"]), ev, e["then"]["stmts"]
    else:
        cond, val, rest = e["cond"], tv, e["else"]["block"]["stmts"]
    if any(st.get("k") == "Let" for st in rest) and any(st.get("k") == "Let" for st in body["stmts"][:-1]):
        pass  # shadowing inside the moved block stays shadowing after it is spliced at the end of the body
    guard = _mk("If", e, cond=cond, then=_mk("Block", val, stmts=[_mk("ExprStmt", val, expr=_mk("Return", val, expr=val), semi=True)]))
    guard["else"] = None
    body["stmts"] = body["stmts"][:-1] + [_mk("ExprStmt", e, expr=guard, semi=False)] + list(rest)
    return 1


def self_field_locals(fn):
    """in a `&self` method, a local that only names a field of self — `let Self { a, b: c, .. } = self;`, `let x = &self.f;`
    — is read as that field wherever it is used as a value: `x.get(k)` is `self.f.get(k)`.  (The binding itself stays, so
    that format-string placeholders still resolve through it.)  Only for names bound exactly once in the function."""
    ins = fn.get("inputs") or []
    if not ins or not ins[0].get("self") or not ins[0].get("ref") or ins[0].get("mut"):
        return 0
    body = fn.get("body")
    if not isinstance(body, dict):
        return 0
    alias = {}
    keep = set()
    for st in body.get("stmts", []):
        if st.get("k") != "Let" or st.get("init") is None:
            continue
        pat, init = st["pat"], st["init"]
        if pat.get("k") == "PStruct" and ident_of(init) == "self":
            for fl in pat["fields"]:
                p2 = fl["pat"]
                if p2.get("k") == "PIdent" and not p2.get("mut") and isinstance(fl.get("member"), str):
                    alias[p2["name"]] = fl["member"].strip()
                    keep.add(id(p2))
        elif pat.get("k") == "PIdent" and not pat.get("mut"):
            cur = init
            if cur.get("k") == "Ref" and not cur.get("mut"):
                cur = cur["expr"]
            if cur.get("k") == "Field" and ident_of(cur.get("base")) == "self" and isinstance(cur.get("member"), str):
                alias[pat["name"]] = cur["member"].strip()
                keep.add(id(pat))
    if not alias:
        return 0
    # names bound anywhere else in the function (parameters, closures, other lets, match arms) are left alone
    for p in walk(fn):
        if p.get("k") == "PIdent" and id(p) not in keep and p.get("name") in alias:
            del alias[p["name"]]
    for i in ins[1:]:
        if "pat" in i and i["pat"].get("k") == "PIdent":
            alias.pop(i["pat"]["name"], None)
    if not alias:
        return 0
    n = 0
    for p in list(walk(body)):
        if p.get("k") == "Path" and not p.get("qself") and isinstance(p.get("path"), dict) and len(p["path"]["segs"]) == 1 and p["path"]["segs"][0] in alias and not p.get("synthetic_self"):
            member = alias[p["path"]["segs"][0]]
            base = _mk("Path", p, path={"segs": ["self"], "src": "self", "leading_colon": False}, qself=False)
            base["synthetic_self"] = True
            p.clear()
            p.update(_mk("Field", base, base=base, member=member))
            n += 1
    return n


def normalise(tree):
    """apply to every statement list below `tree`"""
    n = 0
    for p in list(walk(tree)):
        if isinstance(p, dict) and p.get("k") == "Fn" and isinstance(p.get("body"), dict):
            n += self_field_locals(p)
    for p in list(walk(tree)):
        if isinstance(p, dict) and p.get("k") == "Fn" and isinstance(p.get("body"), dict):
            n += tail_if_else_to_guard(p)
    for p in list(walk(tree)):
        if isinstance(p, dict) and p.get("k") == "Fn" and isinstance(p.get("body"), dict):
            n += tail_option_match_to_let_else(p)
    for p in list(walk(tree)):
        if isinstance(p, dict) and p.get("k") == "Match" and isinstance(p.get("arms"), list):
            n += split_or_arms(p)
    for p in list(walk(tree)):
        if isinstance(p, dict) and isinstance(p.get("stmts"), list) and p.get("k") in ("Block",):
            n += normalise_block(p)
    return n


def inline_single_use_methods(files):
    """`let x = self.h(a, b);` where the private `&self` method h of the same file family is called exactly once in it,
    has no `return` and does not call itself, is read with h's body in place of the call (parameters bound by `let`
    where the argument is not the parameter's own name) and h removed — extracting a helper and not extracting it read
    the same.  `files`: the file nodes of one family (a file and its child modules)."""
    methods = {}
    holders = {}
    all_fns = []
    for f in files:
        stack = list(f.get("items", []))
        while stack:
            it = stack.pop()
            if it.get("k") == "Impl" and it.get("trait") is None:
                for sub in it.get("items", []):
                    if sub.get("k") == "Fn":
                        all_fns.append(sub)
                        ins = sub.get("inputs") or []
                        if ins and ins[0].get("self") and ins[0].get("ref") and not ins[0].get("mut") and str(sub.get("vis", "")).strip() == "":
                            if sub["name"] in methods:
                                methods[sub["name"]] = None  # ambiguous name
                            else:
                                methods[sub["name"]] = sub
                                holders[sub["name"]] = it
            elif it.get("k") == "Fn":
                all_fns.append(it)
            elif it.get("k") == "Mod" and it.get("items") and not any("cfg" in a and "test" in a for a in it.get("attrs", [])):
                stack.extend(it["items"])
    calls = {}
    for fn in all_fns:
        for m in nodes(fn.get("body") or {}, "MethodCall"):
            if ident_of(m.get("recv")) == "self" and methods.get(m["method"]) is not None:
                calls.setdefault(m["method"], []).append((fn, m))
        # a method referenced by path (`Self::h`, passed as a function) is not a plain call: leave it alone
        for p_ in nodes(fn.get("body") or {}, "Path"):
            segs = p_["path"]["segs"]
            if len(segs) == 2 and segs[0] == "Self" and segs[1] in methods:
                methods[segs[1]] = None
    n = 0
    for name, sites in calls.items():
        h = methods.get(name)
        if h is None or len(sites) != 1:
            continue
        caller, call = sites[0]
        if caller is h or nodes(h["body"], "Return") or any(ident_of(m.get("recv")) == "self" and m["method"] == name for m in nodes(h["body"], "MethodCall")):
            continue
        params = [i for i in h["inputs"][1:]]
        if len(params) != len(call["args"]) or any("pat" not in i or i["pat"].get("k") != "PIdent" for i in params):
            continue
        # the call must be the whole initialiser of a top-level `let` of the caller (or its tail expression)
        host = None
        for st in caller["body"]["stmts"]:
            if st.get("k") == "Let" and st.get("init") is call:
                host = ("init", st)
            elif st.get("k") == "ExprStmt" and st.get("expr") is call and not st.get("semi"):
                host = ("expr", st)
        if host is None:
            continue
        lets = []
        for i, a in zip(params, call["args"]):
            pn = i["pat"]["name"]
            a0 = a["expr"] if a.get("k") == "Ref" and not a.get("mut") else a
            if ident_of(a0) == pn:
                continue
            lets.append(_mk("Let", a, pat=i["pat"], attrs=[], init=a))
        stmts = h["body"]["stmts"]
        if not lets and len(stmts) == 1 and stmts[0].get("k") == "ExprStmt" and not stmts[0].get("semi"):
            new = stmts[0]["expr"]
        else:
            new = _mk("BlockExpr", call, block=_mk("Block", call, stmts=lets + list(stmts)), label=False)
        host[1][host[0]] = new
        holders[name]["items"] = [x for x in holders[name]["items"] if x is not h]
        n += 1
    return n
