"""Loader and generic analyses over the MIR fact file produced by engines/mirfacts.

Nothing in here runs code of the analysed crate: the facts are the type-checked program
as rustc sees it (MIR at -Zmir-opt-level=0, callees Instance-resolved).
"""
import json
import re
from collections import defaultdict


# An ordered std map/set used where a hash map/set was used (or the reverse) is the same collection as far as every rule
# except C14's hash-order analysis is concerned; callee paths are rendered with the hash names so that one spelling of a
# rule covers both.  C14 switches this off.
NORMALISE_ORDERED_COLLECTIONS = True
_COLL = (("std::collections::BTreeMap::<K, V, A>", "std::collections::HashMap::<K, V, S, A>"), ("std::collections::BTreeMap::<K, V>", "std::collections::HashMap::<K, V>"),
         ("std::collections::BTreeSet::<T, A>", "std::collections::HashSet::<T, S, A>"), ("std::collections::BTreeSet::<T>", "std::collections::HashSet::<T>"),
         ("std::collections::BTreeMap<K, V, A>", "std::collections::HashMap<K, V, S, A>"), ("std::collections::BTreeSet<T, A>", "std::collections::HashSet<T, S, A>"),
         ("std::collections::btree_map::", "std::collections::hash_map::"), ("std::collections::btree_set::", "std::collections::hash_set::"))


def norm_collections(p):
    if not NORMALISE_ORDERED_COLLECTIONS or p is None or "BTree" not in p and "btree_" not in p:
        return p
    for a, b in _COLL:
        p = p.replace(a, b)
    return p


def parse_at(at):
    """'kiki/src/x.rs:12:5: 14:2' -> (file, line)"""
    m = re.match(r"^(.*?):(\d+):(\d+): (\d+):(\d+)$", at)
    if not m:
        return (at, 0)
    return (m.group(1), int(m.group(2)))


class Call:
    __slots__ = ("fn", "bb", "term", "callee", "resolved", "path", "rpath", "local", "rkey", "args", "dest", "target", "file", "line", "exp", "expn")

    def __init__(self, fn, bb, term):
        self.fn = fn
        self.bb = bb
        self.term = term
        ce = term["callee"]
        self.callee = ce
        self.resolved = ce.get("resolved") if ce else None
        self.path = norm_collections(ce["path"]) if ce else None  # declared callee path
        r = self.resolved or ce
        self.rpath = norm_collections(r["path"]) if r else None  # resolved (or declared) callee path
        self.local = bool(r and r["local"])
        self.rkey = r["key"] if r else None
        ren = getattr(fn, "ren", None)
        if ren:
            if self.rkey in ren:
                self.rpath = ren[self.rkey]
            if ce and ce.get("key") in ren:
                self.path = ren[ce["key"]]
        self.args = term["args"]
        self.dest = term["dest"]
        self.target = term["target"]
        self.file, self.line = parse_at(term["span"]["at"])
        self.exp = term["span"]["exp"]
        self.expn = term["span"].get("expn")

    @property
    def where(self):
        return "%s:%d" % (self.file, self.line)

    def __repr__(self):
        return "<call %s in %s @%s>" % (self.rpath, self.fn.path, self.where)


class Fn:
    def __init__(self, j):
        self.j = j
        self.key = j["key"]
        self.path = j["path"]
        self.kind = j["kind"]
        self.name = j.get("name")
        self.file, self.line = parse_at(j["span"]["at"])
        self.from_expansion = j["span"]["exp"]
        self.pub = j.get("pub", False)
        self.inputs = j.get("inputs", [])
        self.output = j.get("output")
        self.impl = j.get("impl")
        self.root = j.get("root")  # key of typeck root (for closures)
        self.parent = j.get("parent")
        self.body = j["body"]
        self.blocks = self.body["blocks"]
        self.locals = self.body["locals"]
        self.arg_count = self.body["arg_count"]
        self._calls = None
        self._defs = None
        self._succ = None
        self._pred = None
        self.names = {}
        for d in self.body["debug"]:
            if not d["pl"]["p"]:
                self.names.setdefault(d["pl"]["l"], d["name"])
        self.derived = bool(self.impl and self.impl.get("derived"))
        self.trait = self.impl.get("trait") if self.impl else None

    @property
    def where(self):
        return "%s:%d" % (self.file, self.line)

    # ---- CFG (normal edges only; cleanup blocks are excluded)
    def succs(self, bb):
        if self._succ is None:
            self._build_cfg()
        return self._succ[bb]

    def preds(self, bb):
        if self._pred is None:
            self._build_cfg()
        return self._pred[bb]

    def _build_cfg(self):
        n = len(self.blocks)
        succ = [[] for _ in range(n)]
        for i, b in enumerate(self.blocks):
            if b["cleanup"]:
                continue
            t = b["term"]
            k = t["k"]
            if k == "goto":
                succ[i] = [t["target"]]
            elif k == "switch":
                succ[i] = [x[1] for x in t["targets"]] + [t["otherwise"]]
            elif k in ("drop", "assert"):
                succ[i] = [t["target"]]
            elif k == "call":
                succ[i] = [t["target"]] if t["target"] is not None else []
            else:
                succ[i] = []
            # de-duplicate, keep order
            seen = []
            for s in succ[i]:
                if s not in seen:
                    seen.append(s)
            succ[i] = seen
        pred = [[] for _ in range(n)]
        for i, ss in enumerate(succ):
            for s in ss:
                pred[s].append(i)
        self._succ, self._pred = succ, pred

    def reachable_blocks(self):
        seen = {0}
        st = [0]
        while st:
            b = st.pop()
            for s in self.succs(b):
                if s not in seen:
                    seen.add(s)
                    st.append(s)
        return seen

    def calls(self):
        if self._calls is None:
            self._calls = []
            live = self.reachable_blocks()
            for i, b in enumerate(self.blocks):
                if b["cleanup"] or i not in live:
                    continue
                if b["term"]["k"] == "call":
                    self._calls.append(Call(self, i, b["term"]))
        return self._calls

    def call_at(self, bb):
        t = self.blocks[bb]["term"]
        return Call(self, bb, t) if t["k"] == "call" else None

    def asserts(self):
        out = []
        live = self.reachable_blocks()
        for i, b in enumerate(self.blocks):
            if b["cleanup"] or i not in live:
                continue
            if b["term"]["k"] == "assert":
                out.append((i, b["term"]))
        return out

    # ---- definitions of locals: list of ("assign", bb, idx, stmt) / ("call", bb, term) / ("arg",)
    def defs(self, local):
        if self._defs is None:
            d = defaultdict(list)
            live = self.reachable_blocks()
            for i, b in enumerate(self.blocks):
                if b["cleanup"] or i not in live:
                    continue
                for si, st in enumerate(b["stmts"]):
                    if st["k"] == "assign":
                        d[st["pl"]["l"]].append(("assign", i, si, st))
                t = b["term"]
                if t["k"] == "call":
                    d[t["dest"]["l"]].append(("call", i, t))
            self._defs = d
        return self._defs.get(local, [])

    def local_ty(self, l):
        return self.locals[l]["ty"]

    def is_arg(self, l):
        return 1 <= l <= self.arg_count

    def local_name(self, l):
        return self.names.get(l)

    # ---- dominators / post-dominators on the normal CFG
    def dominators(self):
        n = len(self.blocks)
        live = sorted(self.reachable_blocks())
        dom = {b: set(live) for b in live}
        dom[0] = {0}
        changed = True
        while changed:
            changed = False
            for b in live:
                if b == 0:
                    continue
                ps = [p for p in self.preds(b) if p in dom]
                new = set(live)
                for p in ps:
                    new &= dom[p]
                new = new | {b}
                if new != dom[b]:
                    dom[b] = new
                    changed = True
        return dom

    def postdominators(self, removed_edges=frozenset(), exits=None):
        """post-dominator sets over live blocks; `exits` = blocks regarded as exit
        (default: blocks without successors)."""
        live = sorted(self.reachable_blocks())
        succ = {b: [s for s in self.succs(b) if (b, s) not in removed_edges] for b in live}
        if exits is None:
            exits = [b for b in live if not succ[b]]
        pdom = {b: set(live) for b in live}
        for e in exits:
            pdom[e] = {e}
        changed = True
        while changed:
            changed = False
            for b in live:
                if b in exits:
                    continue
                ss = succ[b]
                new = set(live)
                if not ss:
                    new = set()
                for s_ in ss:
                    new &= pdom[s_]
                new = new | {b}
                if new != pdom[b]:
                    pdom[b] = new
                    changed = True
        return pdom

    def control_deps(self):
        """block -> set of (branch block, successor taken) the block is control dependent on."""
        pdom = self.postdominators()
        live = self.reachable_blocks()
        cd = defaultdict(set)
        for a in live:
            ss = self.succs(a)
            if len(ss) < 2:
                continue
            for s_ in ss:
                # every block that post-dominates s_ but does not strictly post-dominate a
                for b in live:
                    if b in pdom.get(s_, ()) and not (b in pdom.get(a, ()) and b != a):
                        cd[b].add((a, s_))
        return cd


def control_deps_transitive(fn):
    """block -> set of (branch block, successor) including the branches that guard the guards"""
    cd = fn.control_deps()
    out = {}
    for b in fn.reachable_blocks():
        seen = set()
        work = list(cd.get(b, ()))
        while work:
            (a, s_) = work.pop()
            if (a, s_) in seen:
                continue
            seen.add((a, s_))
            if a != b:
                work.extend(cd.get(a, ()))
        out[b] = seen
    return out


def _rename_fields(j, ren):
    """apply {(owner, field): canonical} to place projections, aggregates and ADT definitions of the loaded facts"""
    owners = {o for (o, _n) in ren}
    for a in j["adts"]:
        if a["path"] in owners:
            for v in a.get("variants", []):
                for f in v["fields"]:
                    f["name"] = ren.get((a["path"], f["name"]), f["name"])
    stack = [j["fns"]]
    while stack:
        x = stack.pop()
        if isinstance(x, dict):
            ow = x.get("owner")
            if ow in owners and "name" in x and (ow, x["name"]) in ren:
                x["name"] = ren[(ow, x["name"])]
            if x.get("k") == "agg" and x.get("adt") in owners and isinstance(x.get("fields"), list):
                x["fields"] = [ren.get((x["adt"], n), n) for n in x["fields"]]
            stack.extend(v for v in x.values() if isinstance(v, (dict, list)))
        elif isinstance(x, list):
            stack.extend(v for v in x if isinstance(v, (dict, list)))


class Mir:
    def __init__(self, path, canonical_roles=True):
        with open(path) as f:
            raw = f.read()
        self.j = json.loads(raw)
        self.type_ren = {}
        if canonical_roles:
            # private types found by their structure are given their canonical names (textually, in this in-memory
            # copy of the facts): no rule depends on what a private type happens to be called
            from .roles import type_renames
            try:
                self.type_ren = type_renames(self.j["adts"], self.j["impls"])
            except Exception:
                self.type_ren = {}
            if self.type_ren:
                raw = re.sub(r"\b(%s)\b" % "|".join(re.escape(k) for k in self.type_ren), lambda m: self.type_ren[m.group(1)], raw)
                self.j = json.loads(raw)
            # fields of private structs, found by their type, under their canonical names (kv/roles.py FIELD_CANON)
            from .roles import field_renames
            try:
                self.field_ren = field_renames(self.j["adts"])
            except Exception:
                self.field_ren = {}
            if self.field_ren:
                _rename_fields(self.j, self.field_ren)
        self.fns = {}
        self.by_path = defaultdict(list)
        for fj in self.j["fns"]:
            fn = Fn(fj)
            self.fns[fn.key] = fn
            self.by_path[fn.path].append(fn)
        self.adts = {a["path"]: a for a in self.j["adts"]}
        self.impls = self.j["impls"]
        self.statics = self.j["statics"]
        self._cg = None
        self._closures_of = defaultdict(list)
        for fn in self.fns.values():
            if fn.kind == "Closure" and fn.parent:
                self._closures_of[fn.parent].append(fn)
        self.ren = {}
        if canonical_roles:
            self._canonical_role_names()

    def _canonical_role_names(self):
        """functions found by role (kv/roles.py: signature types, never names) are given their canonical names in
        this in-memory view — their own path, the paths of their closures, and every call or function reference that
        resolves to them — so that no rule depends on what a private function happens to be called today"""
        from .roles import Roles
        try:
            R = Roles(self)
            todo = []
            for role, cname in list(R.CANONICAL.items()):
                f = getattr(R, role)
                if f is not None and f.name != cname:
                    todo.append((f, cname))
            for role, cname in R.CANONICAL_MANY.items():
                for f in getattr(R, role):
                    if f.name != cname:
                        todo.append((f, cname))
        except Exception:
            return
        for (f, cname) in todo:
            old = f.path
            new = old[:len(old) - len(f.name)] + cname if old.endswith(f.name) else old
            if new == old:
                continue
            for g in self.fns.values():
                if g.key == f.key:
                    g.path, g.name = new, cname
                    self.ren[g.key] = new
                elif g.path.startswith(old + "::"):
                    g.path = new + g.path[len(old):]
                    self.ren[g.key] = g.path
                    if g.kind == "Closure":
                        _CLOSURE_REN[g.key] = g.path
        if self.ren:
            self.by_path = defaultdict(list)
            for g in self.fns.values():
                g.ren = self.ren
                self.by_path[g.path].append(g)

    def fn_by_path(self, path):
        l = self.by_path.get(path, [])
        return l[0] if len(l) == 1 else None

    def find_fns(self, pred):
        return [f for f in self.fns.values() if pred(f)]

    def fn_named(self, name, path_contains=None):
        out = [f for f in self.fns.values() if f.name == name and (path_contains is None or path_contains in f.path)]
        return out

    # ---- call graph over local functions
    def callgraph(self):
        if self._cg is not None:
            return self._cg
        cg = defaultdict(set)
        trait_impl_methods = defaultdict(list)  # (trait path, method name) -> [fn keys]
        for fn in self.fns.values():
            if fn.impl and fn.impl.get("trait") and fn.name:
                trait_impl_methods[(fn.impl["trait"], fn.name)].append(fn.key)

        from_impls = {}  # (source type string, target type string) -> fn key of `<U as From<T>>::from`
        for fn in self.fns.values():
            if fn.impl and fn.impl.get("trait") == "std::convert::From" and fn.name == "from" and fn.inputs:
                from_impls[(fn.inputs[0]["s"], fn.impl["self_ty"]["s"])] = fn.key

        def add_callee(src, ce):
            if ce is None:
                return
            r = ce.get("resolved")
            # std's blanket `impl<T, U: From<T>> Into<U> for T` calls the local From impl
            if (ce["path"] == "std::convert::Into::into" or (r and r["path"] == "<T as std::convert::Into<U>>::into")) and len(ce["args"]) == 2:
                k = from_impls.get((ce["args"][0], ce["args"][1]))
                if k:
                    cg[src].add(k)
            if r is not None and r["local"] and r["key"] in self.fns:
                cg[src].add(r["key"])
                return
            if ce["local"] and ce["key"] in self.fns:
                cg[src].add(ce["key"])
                return
            # unresolved trait method: class-hierarchy fallback over local impls
            tr = ce.get("trait")
            if tr and (r is None or r["path"] == ce["path"]):
                nm = ce["path"].rsplit("::", 1)[-1]
                for k in trait_impl_methods.get((tr, nm), []):
                    cg[src].add(k)

        def scan_operand(src, op):
            if op["k"] == "const":
                if "fn" in op:
                    add_callee(src, op["fn"])
                if "closure" in op and op["closure"] in self.fns:
                    cg[src].add(op["closure"])

        for fn in self.fns.values():
            live = fn.reachable_blocks()
            for i, b in enumerate(fn.blocks):
                if b["cleanup"] or i not in live:
                    continue
                for st in b["stmts"]:
                    if st["k"] != "assign":
                        continue
                    rv = st["rv"]
                    if rv["k"] == "agg":
                        if rv.get("ak") == "closure" and rv["closure"] in self.fns:
                            cg[fn.key].add(rv["closure"])
                        for o in rv["ops"]:
                            scan_operand(fn.key, o)
                    for fld in ("op", "a", "b"):
                        if fld in rv and isinstance(rv[fld], dict):
                            scan_operand(fn.key, rv[fld])
                t = b["term"]
                if t["k"] == "call":
                    add_callee(fn.key, t["callee"])
                    for a in t["args"]:
                        scan_operand(fn.key, a)
            # closure types mentioned in local declarations (zero-sized closures are never aggregated)
            for l in fn.locals:
                for ck in l["ty"].get("closures", []):
                    if ck in self.fns and ck != fn.key:
                        cg[fn.key].add(ck)
                for fk in l["ty"].get("fndefs", []):
                    if fk in self.fns:
                        cg[fn.key].add(fk)
        self._cg = cg
        return cg

    def trait_impl_fns(self):
        return [f for f in self.fns.values() if f.impl and f.impl.get("trait")]

    def reachable_from(self, root_keys, include_trait_impls=True):
        cg = self.callgraph()
        seen = set()
        st = list(root_keys)
        if include_trait_impls:
            st += [f.key for f in self.trait_impl_fns()]
        while st:
            k = st.pop()
            if k in seen or k not in self.fns:
                continue
            seen.add(k)
            st.extend(cg.get(k, ()))
        return seen

    def sccs(self, keys):
        """Tarjan over the sub call graph induced by `keys`; returns list of SCCs (lists of keys)
        that are cyclic (size>1 or self-loop)."""
        cg = self.callgraph()
        index = {}
        low = {}
        onst = set()
        stack = []
        out = []
        counter = [0]
        import sys
        sys.setrecursionlimit(10000)

        def strong(v):
            index[v] = low[v] = counter[0]
            counter[0] += 1
            stack.append(v)
            onst.add(v)
            for w in cg.get(v, ()):
                if w not in keys:
                    continue
                if w not in index:
                    strong(w)
                    low[v] = min(low[v], low[w])
                elif w in onst:
                    low[v] = min(low[v], index[w])
            if low[v] == index[v]:
                comp = []
                while True:
                    w = stack.pop()
                    onst.discard(w)
                    comp.append(w)
                    if w == v:
                        break
                if len(comp) > 1 or v in cg.get(v, ()):
                    out.append(comp)

        for v in sorted(keys):
            if v not in index:
                strong(v)
        return out


# ------------------------------------------------------------------ value expressions

class E:
    """Symbolic value expression reconstructed from MIR def-use (intra-procedural).

    kinds: param(i) | const(v) | call(path, [args], site) | agg(kind, name, [ops]) | ref(e) | deref(e)
           | field(e, name, owner) | downcast(e, variant) | index(e, i) | bin(op,a,b) | un(op,a) | cast(e)
           | discr(e) | phi([e...]) | cycle | unknown(why)
    """
    __slots__ = ("k", "a", "site")

    def __init__(self, k, *a, site=None):
        self.k = k
        self.a = a
        self.site = site

    def __repr__(self):
        if self.k == "param":
            return "param%d" % self.a[0]
        if self.k == "const":
            return "const(%s)" % (self.a[0],)
        if self.k == "call":
            return "%s(%s)" % (self.a[0], ", ".join(map(repr, self.a[1])))
        if self.k == "agg":
            return "%s{%s}" % (self.a[1], ", ".join(map(repr, self.a[2])))
        if self.k == "field":
            return "%r.%s" % (self.a[0], self.a[1])
        if self.k == "downcast":
            return "(%r as %s)" % (self.a[0], self.a[1])
        if self.k in ("ref", "deref", "cast", "discr"):
            return "%s(%r)" % (self.k, self.a[0])
        if self.k == "phi":
            return "phi[%s]" % " | ".join(map(repr, self.a[0]))
        if self.k == "bin":
            return "(%r %s %r)" % (self.a[1], self.a[0], self.a[2])
        if self.k == "un":
            return "%s(%r)" % (self.a[0], self.a[1])
        if self.k == "index":
            return "%r[%r]" % (self.a[0], self.a[1])
        return "%s%r" % (self.k, self.a)

    def walk(self):
        yield self
        for x in self.a:
            if isinstance(x, E):
                yield from x.walk()
            elif isinstance(x, (list, tuple)):
                for y in x:
                    if isinstance(y, E):
                        yield from y.walk()


class Exprs:
    """Builds E terms for locals/places/operands of one function."""

    def __init__(self, fn, max_depth=60):
        self.fn = fn
        self.max_depth = max_depth

    def operand(self, op, depth=0, stack=()):
        if op["k"] == "const":
            if "fn" in op:
                fr_ = op["fn"].get("resolved") or op["fn"]
                ren_ = getattr(self.fn, "ren", None)
                return E("const", "fn:" + (ren_[fr_["key"]] if ren_ and fr_.get("key") in ren_ else fr_["path"]))
            return E("const", op["v"])
        if op["k"] in ("copy", "move"):
            return self.place(op["pl"], depth, stack)
        return E("unknown", "operand")

    def place(self, pl, depth=0, stack=()):
        e = self.local(pl["l"], depth, stack)
        for pr in pl["p"]:
            e = self.project(e, pr)
        return e

    def project(self, e, pr):
        if pr == "deref":
            if e.k == "ref":
                return e.a[0]
            return E("deref", e)
        if isinstance(pr, dict) and "f" in pr:
            nm = pr.get("name", str(pr["f"]))
            # push the selection into aggregates
            if e.k == "agg":
                kind, name, ops = e.a[0], e.a[1], e.a[2]
                idx = pr["f"]
                if idx < len(ops):
                    return ops[idx]
            if e.k == "phi":
                return E("phi", [self.project(x, pr) for x in e.a[0]])
            return E("field", e, nm, pr.get("owner"))
        if isinstance(pr, dict) and "downcast" in pr:
            if e.k == "agg" and e.a[0] == "adt":
                return e  # aggregate of that very variant
            if e.k == "phi":
                return E("phi", [self.project(x, pr) for x in e.a[0]])
            return E("downcast", e, pr["downcast"])
        if isinstance(pr, dict) and "index" in pr:
            return E("index", e, self.local(pr["index"]))
        return E("proj", e, json.dumps(pr))

    def local(self, l, depth=0, stack=()):
        fn = self.fn
        if l in stack:
            return E("cycle", l)
        if depth > self.max_depth:
            return E("unknown", "depth")
        defs = fn.defs(l)
        outs = []
        if fn.is_arg(l):
            outs.append(E("param", l))
        st2 = stack + (l,)
        for d in defs:
            if d[0] == "assign":
                stmt = d[3]
                if stmt["pl"]["p"]:
                    # partial write (field store / deref store): treat as unknown contribution
                    outs.append(E("partial", json.dumps(stmt["pl"]["p"]), self.rvalue(stmt["rv"], depth + 1, st2)))
                    continue
                outs.append(self.rvalue(stmt["rv"], depth + 1, st2))
            else:
                t = d[2]
                if t["dest"]["p"]:
                    outs.append(E("unknown", "call into projection"))
                    continue
                c = Call(fn, d[1], t)
                args = [self.operand(a, depth + 1, st2) for a in t["args"]]
                if c.callee is None:
                    outs.append(E("call", "<indirect>", [self.operand(t["func"], depth + 1, st2)] + args, site=c))
                else:
                    outs.append(E("call", c.rpath, args, site=c))
        if not outs:
            return E("undef", l)
        if len(outs) == 1:
            return outs[0]
        return E("phi", outs)

    def rvalue(self, rv, depth, stack):
        k = rv["k"]
        if k == "use":
            return self.operand(rv["op"], depth, stack)
        if k == "copy_for_deref":
            return self.place(rv["pl"], depth, stack)
        if k == "ref":
            return E("ref", self.place(rv["pl"], depth, stack))
        if k == "rawptr":
            return E("ref", self.place(rv["pl"], depth, stack))
        if k == "agg":
            ops = [self.operand(o, depth, stack) for o in rv["ops"]]
            ak = rv["ak"]
            if ak == "adt":
                return E("agg", "adt", rv["adt"] + "::" + rv["variant"], ops)
            if ak == "closure":
                return E("agg", "closure", rv["closure"], ops)
            return E("agg", ak, ak, ops)
        if k == "cast":
            return E("cast", self.operand(rv["op"], depth, stack), rv["ck"], rv["ty"])
        if k == "bin":
            return E("bin", rv["op"], self.operand(rv["a"], depth, stack), self.operand(rv["b"], depth, stack))
        if k == "un":
            return E("un", rv["op"], self.operand(rv["a"], depth, stack))
        if k == "discr":
            return E("discr", self.place(rv["pl"], depth, stack))
        if k == "repeat":
            return E("agg", "repeat", "repeat", [self.operand(rv["op"], depth, stack)])
        return E("unknown", rv.get("dbg", k))


TRANSPARENT_CALLS = (
    # value-preserving std calls: result denotes (a copy of / a view of) the first argument
    "std::clone::Clone::clone",
    "<std::string::String as std::clone::Clone>::clone",
    "<std::vec::Vec<T, A> as std::clone::Clone>::clone",
    "<std::boxed::Box<T, A> as std::clone::Clone>::clone",
    "std::clone::impls::<impl std::clone::Clone for &T>::clone",
    "std::clone::impls::<impl std::clone::Clone for usize>::clone",
    "std::clone::impls::<impl std::clone::Clone for bool>::clone",
    "<std::vec::Vec<T, A> as std::ops::Deref>::deref",
    "<std::string::String as std::ops::Deref>::deref",
    "<std::vec::Vec<T, A> as std::ops::DerefMut>::deref_mut",
    "<T as std::borrow::ToOwned>::to_owned",
    "std::str::<impl std::borrow::ToOwned for str>::to_owned",
    "<T as std::string::ToString>::to_string",
    "<T as std::convert::Into<U>>::into",
    "<T as std::convert::From<T>>::from",
    "std::option::Option::<T>::as_ref",
    "std::hint::must_use",
    "std::slice::<impl [T]>::to_vec",
    "std::convert::AsRef::as_ref",
    "std::borrow::Borrow::borrow",
)


TEXT_CONV = (
    # value-preserving conversions between text representations (&str, String, bytes)
    "std::string::String::as_str", "std::string::String::as_bytes", "core::str::<impl str>::as_bytes",
    "<str as std::string::ToString>::to_string", "<std::string::String as std::convert::From<&str>>::from",
    "<std::string::String as std::convert::From<&std::string::String>>::from", "core::str::<impl str>::to_string",
    "std::string::String::into_bytes", "<str as std::convert::AsRef<[u8]>>::as_ref", "<std::string::String as std::convert::AsRef<str>>::as_ref",
    "<str as std::convert::AsRef<str>>::as_ref", "<std::string::String as std::convert::AsRef<[u8]>>::as_ref",
    "std::string::String::as_mut_str", "<std::string::String as std::borrow::Borrow<str>>::borrow",
)


def strip_transparent(e, extra=()):
    """peel refs, derefs, casts, value-preserving calls and local derived Clone impls"""
    while True:
        if e.k in ("ref", "deref"):
            e = e.a[0]
        elif e.k == "call" and (e.a[0] in TRANSPARENT_CALLS or e.a[0] in extra or is_clone_path(e.a[0])) and e.a[1]:
            e = e.a[1][0]
        else:
            return e


def is_clone_path(p):
    return p.endswith(" as std::clone::Clone>::clone")


# ------------------------------------------------------------------ borrow roots / loops

DEREF_CALLS = (
    "<std::vec::Vec<T, A> as std::ops::Deref>::deref",
    "<std::vec::Vec<T, A> as std::ops::DerefMut>::deref_mut",
    "<std::string::String as std::ops::Deref>::deref",
    "std::vec::Vec::<T, A>::as_mut_slice",
    "std::vec::Vec::<T, A>::as_slice",
)


def place_str(pl):
    s = "_%d" % pl["l"]
    for e in pl["p"]:
        if e == "deref":
            s = "(*%s)" % s
        elif isinstance(e, dict) and "f" in e:
            s += ".%s" % e.get("name", e["f"])
        elif isinstance(e, dict) and "downcast" in e:
            s += " as %s" % e["downcast"]
        else:
            s += "[%s]" % json.dumps(e)
    return s


def borrow_root(fn, op, depth=0):
    """Follow a reference operand back to the place it borrows.

    Returns (place, via) where `place` is the MIR place borrowed (dict) and `via` the list of
    value-view calls passed on the way (deref / deref_mut / index_mut ...), or (None, why)."""
    via = []
    cur = op
    for _ in range(40):
        if cur["k"] not in ("copy", "move"):
            return None, "not a place operand"
        pl = cur["pl"]
        # a reborrow `&mut (*_t)` or plain temp
        proj = pl["p"]
        if proj and proj != ["deref"]:
            return pl, via
        l = pl["l"]
        if fn.is_arg(l):
            return pl, via
        defs = fn.defs(l)
        if len(defs) != 1:
            return pl, via
        d = defs[0]
        if d[0] == "assign":
            rv = d[3]["rv"]
            if rv["k"] == "ref" or rv["k"] == "rawptr":
                inner = rv["pl"]
                if inner["p"] == ["deref"] and not fn.is_arg(inner["l"]):
                    # reborrow of another temp: continue with that temp
                    cur = {"k": "copy", "pl": {"l": inner["l"], "p": []}}
                    continue
                return inner, via
            if rv["k"] in ("use",) and rv["op"]["k"] in ("copy", "move"):
                cur = rv["op"]
                continue
            if rv["k"] == "copy_for_deref":
                cur = {"k": "copy", "pl": rv["pl"]}
                continue
            return pl, via
        else:
            c = Call(fn, d[1], d[2])
            if c.rpath in DEREF_CALLS and c.args:
                via.append(c.rpath)
                cur = c.args[0]
                continue
            via.append("call:" + str(c.rpath))
            return pl, via
    return None, "too deep"


def natural_loops(fn):
    """list of (header, set(blocks)) from back edges of the normal CFG"""
    dom = fn.dominators()
    loops = {}
    for a in fn.reachable_blocks():
        for h in fn.succs(a):
            if h in dom.get(a, ()):
                body = loops.setdefault(h, {h})
                st = [a]
                while st:
                    x = st.pop()
                    if x in body:
                        continue
                    body.add(x)
                    st.extend(fn.preds(x))
    return sorted(loops.items())


def reach_from(fn, start_blocks, stop=frozenset()):
    """blocks reachable from the successors of start_blocks (not including them unless on a cycle)"""
    seen = set()
    st = []
    for b in start_blocks:
        st.extend(fn.succs(b))
    while st:
        b = st.pop()
        if b in seen or b in stop:
            continue
        seen.add(b)
        st.extend(fn.succs(b))
    return seen


UNCHECKED_AS_CHECKED = False


ENTRY_AS_GET_INSERT = True
_CLOSURE_REN = {}


def entry_of(x):
    """x = the payload of an `Entry` obtained from `M.entry(K)`: returns (M, K, "HashMap"|"BTreeMap") or None"""
    x = strip_transparent(x)
    if x.k == "field":
        x = strip_transparent(x.a[0])
    if x.k == "downcast":
        x = strip_transparent(x.a[0])
    if x.k == "call" and short_path(x.a[0]).endswith(("HashMap::entry", "BTreeMap::entry")) and len(x.a[1]) == 2:
        return x.a[1][0], x.a[1][1], short_path(x.a[0]).rsplit("::", 1)[0].rsplit("::", 1)[-1]
    return None


def canon(e, depth=0):
    """canonical compact rendering of a value expression with views/copies peeled everywhere
    (refs, derefs, clones, to_owned, deref calls ...), for structural comparison in rules"""
    if depth > 40:
        return "…"
    e = strip_transparent(e)
    k = e.k
    d = depth + 1
    if k == "param":
        return "param%d" % e.a[0]
    if k == "const":
        return "const(%s)" % e.a[0]
    if k == "call":
        sp_ = short_path(e.a[0])
        if ENTRY_AS_GET_INSERT and sp_.endswith(("OccupiedEntry::get", "OccupiedEntry::get_mut", "OccupiedEntry::into_mut", "VacantEntry::insert")) and e.a[1]:
            # the entry API read as the look-up / insert it stands for:
            #   entry(M, K) is Occupied(o): o.get()      ==  (M.get(K) as Some).0
            #   entry(M, K) is Vacant(v):   v.insert(V)  ==  M.insert(K, V)   (on the miss of that same key)
            mk = entry_of(e.a[1][0])
            if mk is not None:
                if sp_.endswith("VacantEntry::insert") and len(e.a[1]) == 2:
                    return "%s::insert(%s, %s, %s)" % (mk[2], canon(mk[0], d), canon(mk[1], d), canon(e.a[1][1], d))
                if not sp_.endswith("VacantEntry::insert"):
                    return "(%s::get(%s, %s) as Some).0" % (mk[2], canon(mk[0], d), canon(mk[1], d))
        return "%s(%s)" % (sp_, ", ".join(canon(x, d) for x in e.a[1]))
    if k == "agg":
        # (a closure of a role function carries the function's canonical name, like the function itself)
        return "%s{%s}" % (short_path(_CLOSURE_REN.get(e.a[1], e.a[1]) if e.a[0] == "closure" else e.a[1]), ", ".join(canon(x, d) for x in e.a[2]))
    if k == "field":
        return "%s.%s" % (canon(e.a[0], d), e.a[1])
    if k == "downcast":
        return "(%s as %s)" % (canon(e.a[0], d), e.a[1])
    if k == "index":
        return "%s[%s]" % (canon(e.a[0], d), canon(e.a[1], d))
    if k == "phi":
        return "phi[%s]" % " | ".join(sorted(set(canon(x, d) for x in e.a[0])))
    if k == "bin":
        if UNCHECKED_AS_CHECKED and e.a[0] in ("Add", "Sub", "Mul"):
            # release-shape MIR (overflow checks off) has `x = Add(a, b)` where the checked shape has
            # `t = AddWithOverflow(a, b); assert(!t.1); x = t.0`: render both alike so that the value rules match
            return "(%s %sWithOverflow %s).0" % (canon(e.a[1], d), e.a[0], canon(e.a[2], d))
        return "(%s %s %s)" % (canon(e.a[1], d), e.a[0], canon(e.a[2], d))
    if k == "un":
        return "%s(%s)" % (e.a[0], canon(e.a[1], d))
    if k == "cast":
        return "cast(%s)" % canon(e.a[0], d)
    if k == "discr":
        return "discr(%s)" % canon(e.a[0], d)
    if k == "partial":
        return "partial(%s)" % canon(e.a[1], d)
    return "%s%r" % (k, e.a)


def _strip_generics(s):
    out = []
    depth = 0
    for ch in s:
        if ch == "<":
            depth += 1
        elif ch == ">":
            depth -= 1
        elif depth == 0:
            out.append(ch)
    return "".join(out)


def short_path(p):
    """`std::collections::HashMap::<K, V, S, A>::get` -> `HashMap::get`;
    `<data::oset::Oset<T> as std::ops::Deref>::deref` -> `Deref@Oset::deref`;
    `core::slice::<impl [T]>::len` -> `slice::len`"""
    if p.startswith("<"):
        # <Self as Trait>::method
        depth = 0
        end = None
        for i, ch in enumerate(p):
            if ch == "<":
                depth += 1
            elif ch == ">":
                depth -= 1
                if depth == 0:
                    end = i
                    break
        inner = p[1:end]
        rest = p[end + 1:]
        # split at top-level " as "
        depth = 0
        cut = None
        for i in range(len(inner)):
            if inner[i] == "<":
                depth += 1
            elif inner[i] == ">":
                depth -= 1
            elif depth == 0 and inner.startswith(" as ", i):
                cut = i
                break
        if cut is not None:
            selfty = _strip_generics(inner[:cut]).strip().lstrip("&").replace("'a ", "").replace("mut ", "").rsplit("::", 1)[-1]
            trait = _strip_generics(inner[cut + 4:]).strip().rsplit("::", 1)[-1]
            return "%s@%s%s" % (trait, selfty, _strip_generics(rest))
        return _strip_generics(inner).rsplit("::", 1)[-1] + _strip_generics(rest)
    q = _strip_generics(p).replace("::::", "::")
    parts = [x for x in q.split("::") if x]
    return "::".join(parts[-2:]) if len(parts) >= 2 else q


def change_flag_condition(ce):
    """a loop-exit test on the boolean change flag returned by a local step function, in any of its spellings:
    `f(..).0`, `f(..).changed`, its negation, or the loop-carried form `phi[f(..).flag | const(true)]` of a
    `while changed { changed = f(..).flag }`.  Returns (list of step-function names, negated) or None."""
    inner = ce
    neg = inner.startswith("Not(") and inner.endswith(")")
    if neg:
        inner = inner[4:-1]
    alts = inner[4:-1].split(" | ") if inner.startswith("phi[") and inner.endswith("]") else [inner]
    names = []
    for a_ in alts:
        if a_ in ("const(true)",):
            continue
        m = re.match(r"^\w+::(\w+)\(.*\)\.\w+$", a_)
        if not m:
            return None
        names.append(m.group(1))
    return (names, neg) if names else None


def _split_args(s, i):
    """s[i] is the '(' of a call: return (list of top-level argument strings, index after the matching ')')"""
    depth = 0
    args, cur = [], []
    j = i
    while j < len(s):
        ch = s[j]
        if ch in "([{":
            depth += 1
            if depth > 1:
                cur.append(ch)
        elif ch in ")]}":
            depth -= 1
            if depth == 0:
                a = "".join(cur).strip()
                if a:
                    args.append(a)
                return args, j + 1
            cur.append(ch)
        elif ch == "," and depth == 1:
            args.append("".join(cur).strip())
            cur = []
        else:
            cur.append(ch)
        j += 1
    return None, len(s)


def simplify_projections(s):
    """`Name{a, b}.1` -> `b` and `tuple{a}.0` -> `a`: a positional aggregate immediately projected is the projected operand"""
    for _ in range(20):
        hit = False
        for m in re.finditer(r"((?:\w+::)*\w+)\{", s):
            if m.group(1).startswith("phi"):
                continue
            args, end = _split_args(s, m.end() - 1)
            if args is None:
                continue
            mp = re.match(r"^\.(\d+)\b", s[end:])
            if not mp or int(mp.group(1)) >= len(args):
                continue
            s = s[:m.start()] + args[int(mp.group(1))] + s[end + mp.end():]
            hit = True
            break
        if not hit:
            break
    return s


def inline_helpers(mir, s, max_rounds=4, skip=(), kinds=None):
    """expand calls of small local helper functions in a canonical value string: `T::width(param1)` becomes the
    helper's own (loop-free, branch-free) result with its parameters replaced by the arguments.  This makes value rules
    insensitive to extracting or inlining a helper.  Helpers with branches, loops or ambiguous names are left alone."""
    if not hasattr(mir, "_short_index"):
        idx = {}
        for f in mir.fns.values():
            if f.kind in ("Fn", "AssocFn", "Closure") and not f.derived:
                idx.setdefault(short_path(f.path), []).append(f)
        mir._short_index = {k: v[0] for k, v in idx.items() if len(v) == 1}
        mir._ret_cache = {}
    for _ in range(max_rounds):
        changed = False
        for m in list(re.finditer(r"((?:\w+::)+(?:\w+|\{closure#\d+\}))\(", s)):
            name = m.group(1)
            f = mir._short_index.get(name)
            if f is None or name in skip or (kinds is not None and f.kind not in kinds):
                continue
            if f.key not in mir._ret_cache:
                ok = not natural_loops(f) and not any(b["term"]["k"] == "switch" for b in f.blocks if not b["cleanup"])
                r = canon(Exprs(f).local(0)) if ok else None
                if r is not None and ("phi[" in r or "cycle" in r or "partial(" in r or len(r) > 400 or r.startswith(name + "(")):
                    r = None
                mir._ret_cache[f.key] = r
            r = mir._ret_cache[f.key]
            if r is None:
                continue
            args, end = _split_args(s, m.end() - 1)
            if args is None:
                continue
            body = re.sub(r"\bparam(\d+)\b", lambda mm: "\x00%d\x00" % int(mm.group(1)), r)
            if f.kind == "Closure":
                # a called closure: first argument is its environment `name{cap0, cap1}`, captures are read as param1.K
                me = re.match(r"^%s\{(.*)\}$" % re.escape(name), args[0]) if args else None
                if not me:
                    continue
                caps, _e = _split_args("(" + me.group(1) + ")", 0)
                for k_, c_ in enumerate(caps or []):
                    body = body.replace("\x001\x00.%d" % k_, c_)
                actual = args[1:]
                if len(actual) == 1 and actual[0].startswith("tuple{") and actual[0].endswith("}"):
                    actual, _e2 = _split_args(actual[0][5:], 0)
                    actual = actual or []
                for i_, a_ in enumerate(actual):
                    body = body.replace("\x00%d\x00" % (i_ + 2), a_)
            else:
                if len(args) != len(f.inputs):
                    continue
                for i_, a_ in enumerate(args):
                    body = body.replace("\x00%d\x00" % (i_ + 1), a_)
            if "\x00" in body:
                continue
            s = simplify_projections(s[:m.start()] + body + s[end:])
            changed = True
            break
        if not changed:
            break
    return s


def filled_in_complete_loop(fn, new_suffixes, insert_suffixes):
    """`fn` returns a collection it creates empty (callee path ends with one of new_suffixes) and fills with exactly one
    insert/push call (path ends with one of insert_suffixes) that is executed once for every item of a `for` loop: the
    call is control dependent only on the loop's own `next()` test, and the loop is left only through that test.
    Returns (source iterator text, [argument texts of the insert after the receiver]) or None."""
    ex = Exprs(fn)
    if not short_path_any(canon(ex.local(0)), new_suffixes):
        return None
    ins = [c for c in fn.calls() if short_path(c.rpath or "").endswith(tuple(insert_suffixes))]
    if len(ins) != 1:
        return None
    c = ins[0]
    if not short_path_any(canon(ex.operand(c.args[0])), new_suffixes):
        return None
    cdt = control_deps_transitive(fn)
    tests = [(a, s_) for (a, s_) in cdt.get(c.bb, ()) if fn.blocks[a]["term"]["k"] == "switch"]
    if len(tests) != 1:
        return None
    a, s_ = tests[0]
    t = fn.blocks[a]["term"]
    ce = canon(ex.operand(t["discr"]))
    m = re.match(r"^discr\(Iterator@\w+::next\((.*)\)\)$", ce)
    if not m or [v for (v, tb) in t["targets"] if tb == s_] != [1]:
        return None
    loops = [(h, body) for (h, body) in natural_loops(fn) if c.bb in body]
    if len(loops) != 1 or a not in loops[0][1]:
        return None
    body = loops[0][1]
    for bi in body:
        b = fn.blocks[bi]
        if b["cleanup"]:
            continue
        for x_ in fn.succs(bi):
            if x_ in body or fn.blocks[x_]["cleanup"] or fn.blocks[x_]["term"]["k"] == "unreachable":
                continue
            if bi != a:
                return None  # another way out of the loop (break / return): not every item is inserted
    return m.group(1), [canon(ex.operand(x_)) for x_ in c.args[1:]]


def short_path_any(text, suffixes):
    return any(text == s_ + "()" or text.endswith("::" + s_ + "()") or text.startswith(s_ + "(") for s_ in suffixes)


EACH_ADAPTORS = ("::try_for_each", "::for_each")


def closure_loop_context(mir, cf):
    """cf is a closure handed to `ITER.try_for_each(..)` / `ITER.for_each(..)` in its parent: the closure body is the
    body of a loop over ITER (try_for_each stops at the first Err exactly as `?` in a `for` body does).
    Returns (parent fn, the adaptor call, canonical ITER, [canonical captured values in the parent's terms]) or None."""
    if cf.kind != "Closure" or cf.parent not in mir.fns:
        return None
    parent = mir.fns[cf.parent]
    pex = Exprs(parent)
    caps = None
    for b in parent.blocks:
        for st in b["stmts"]:
            if st["k"] == "assign" and st["rv"]["k"] == "agg" and st["rv"].get("ak") == "closure" and st["rv"]["closure"] == cf.key:
                if caps is not None:
                    return None
                caps = [canon(pex.operand(o)) for o in st["rv"]["ops"]]
    if caps is None:
        caps = []
    site = None
    for c in parent.calls():
        if not (c.rpath or "").endswith(EACH_ADAPTORS) or len(c.args) != 2:
            continue
        e = strip_transparent(pex.operand(c.args[1]))
        if e.k == "agg" and e.a[0] == "closure" and e.a[1] == cf.key:
            if site is not None:
                return None
            site = c
    if site is None:
        return None
    return parent, site, canon(pex.operand(site.args[0])), caps


def lift_closure_canon(s, cctx):
    """a canonical value of the closure body in the terms of the parent function, written the way the equivalent
    `for x in ITER { body }` renders: captures become the captured values, the closure argument the loop variable"""
    parent, site, it, caps = cctx
    nxt = "range::next" if it.startswith("Range::Range{") else "Iterator@Iter::next"
    elem = "(%s(IntoIterator@I::into_iter(%s)) as Some).0" % (nxt, it)
    def sub(m):
        if m.group(1) is not None:
            return caps[int(m.group(1))] if int(m.group(1)) < len(caps) else m.group(0)
        return elem

    # one simultaneous pass: a captured `param2` of the parent must not be taken for the closure's own argument
    return re.sub(r"\bparam1\.(\d+)\b|\bparam2\b", sub, s)


CALLABLE_RE = r"(?:[\w:]+::\{closure#\d+\}\{[^{}]*\}|const\(fn:[^()]+\))"


def callable_fn(mir, parent, text):
    """the function behind a callable argument as canon renders it — a closure of `parent` (`p::{closure#k}{caps}`) or
    a function item passed by path (`const(fn:path)`) — and the shift that makes its parameters read like a closure's
    (closure: param1 = environment, arguments from param2; function item: arguments from param1)"""
    m = re.match(r"^[\w:]+::(\{closure#\d+\})\{.*\}$", text)
    if m:
        cl = [g for g in mir.fns.values() if g.kind == "Closure" and g.parent == parent.key and g.path.endswith(m.group(1))]
        return (cl[0], 0) if len(cl) == 1 else (None, 0)
    m = re.match(r"^const\(fn:(.+)\)$", text)
    if m:
        fs = mir.by_path.get(m.group(1), [])
        fs = [g for g in fs if g.kind in ("Fn", "AssocFn")]
        return (fs[0], 1) if len(fs) == 1 else (None, 0)
    return None, 0


def shift_params(s, k):
    return re.sub(r"\bparam(\d+)\b", lambda m: "param%d" % (int(m.group(1)) + k), s) if k else s


def callable_result(mir, parent, text):
    """canonical return value of a callable argument, with parameters numbered as in a closure"""
    g, k = callable_fn(mir, parent, text)
    if g is None:
        return None
    return shift_params(canon(Exprs(g).local(0)), k)
