"""Abstract interpreter for the tokenizer's handlers (syn AST).

The current character is a concrete *class representative*; byte indices stay symbolic (linear
forms over cur / state payloads / len); the text of a pending lexeme is symbolic and the question
"is it a reserved word" is an explicit assumption (both answers are explored).  No code of the
repository is executed: predicates on characters are the checker's own definitions.
"""
from .syn import nodes, ident_of, path_str, method_chain, unparse, lit_of

# Unicode White_Space (fixed in the checker)
WHITE_SPACE = set([0x9, 0xA, 0xB, 0xC, 0xD, 0x20, 0x85, 0xA0, 0x1680] + list(range(0x2000, 0x200B)) + [0x2028, 0x2029, 0x202F, 0x205F, 0x3000])


def is_whitespace(c):
    return ord(c) in WHITE_SPACE


def is_ascii_alphabetic(c):
    return ("a" <= c <= "z") or ("A" <= c <= "Z")


def is_ascii_digit(c):
    return "0" <= c <= "9"


def is_ascii_alphanumeric(c):
    return is_ascii_alphabetic(c) or is_ascii_digit(c)


CHAR_PREDICATES = {
    "is_whitespace": is_whitespace,
    "is_ascii_alphabetic": is_ascii_alphabetic,
    "is_ascii_alphanumeric": is_ascii_alphanumeric,
    "is_ascii_digit": is_ascii_digit,
    "is_ascii_whitespace": lambda c: c in " \t\n\r\x0c",
    "is_ascii_uppercase": lambda c: "A" <= c <= "Z",
    "is_ascii_lowercase": lambda c: "a" <= c <= "z",
    "is_ascii": lambda c: ord(c) < 128,
    "is_ascii_punctuation": lambda c: ord(c) < 128 and not c.isalnum() and 33 <= ord(c) <= 126,
    "is_ascii_control": lambda c: ord(c) < 32 or ord(c) == 127,
    "is_alphabetic": lambda c: c.isalpha(),
    "is_alphanumeric": lambda c: c.isalnum(),
    "is_numeric": lambda c: c.isnumeric(),
}


class Unanalysable(Exception):
    def __init__(self, line, msg):
        Exception.__init__(self, msg)
        self.line = line
        self.msg = msg


# ---------------------------------------------------------------- values

class Lin:
    """linear form over symbolic bases + integer constant"""

    def __init__(self, terms=None, const=0):
        self.terms = {k: v for k, v in (terms or {}).items() if v != 0}
        self.const = const

    def __add__(self, o):
        t = dict(self.terms)
        for k, v in o.terms.items():
            t[k] = t.get(k, 0) + v
        return Lin(t, self.const + o.const)

    def __sub__(self, o):
        t = dict(self.terms)
        for k, v in o.terms.items():
            t[k] = t.get(k, 0) - v
        return Lin(t, self.const - o.const)

    def subst(self, m):
        out = Lin({}, self.const)
        for k, v in self.terms.items():
            rep = m.get(k)
            if rep is None:
                out = out + Lin({k: v})
            else:
                out = out + Lin({kk: vv * v for kk, vv in rep.terms.items()}, rep.const * v)
        return out

    def key(self):
        return (tuple(sorted(self.terms.items())), self.const)

    def __eq__(self, o):
        return isinstance(o, Lin) and self.key() == o.key()

    def __hash__(self):
        return hash(self.key())

    def __repr__(self):
        parts = []
        for k, v in sorted(self.terms.items()):
            parts.append(k if v == 1 else "%d*%s" % (v, k))
        if self.const or not parts:
            parts.append(str(self.const))
        return "+".join(parts).replace("+-", "-")


def L(name):
    return Lin({name: 1})


def K(n):
    return Lin({}, n)


class V:
    """tagged value"""

    def __init__(self, t, *a):
        self.t = t
        self.a = a

    def __repr__(self):
        return "%s%r" % (self.t, self.a)


def norm(v, m=None):
    """hashable normal form of a value (with optional substitution on linear forms)"""
    m = m or {}
    if isinstance(v, Lin):
        return ("lin",) + v.subst(m).key()
    if isinstance(v, V):
        return (v.t,) + tuple(norm(x, m) for x in v.a)
    if isinstance(v, (list, tuple)):
        return tuple(norm(x, m) for x in v)
    if isinstance(v, dict):
        return tuple(sorted((k, norm(x, m)) for k, x in v.items()))
    return v


# ---------------------------------------------------------------- interpreter

class Outcome:
    def __init__(self):
        self.emits = []
        self.state = None
        self.result = None  # ("ok",) | ("err", idx Lin, char-option)
        self.assume = {}
        self.finish = []  # calls of the attribute finisher: (start, end)

    def copy(self):
        o = Outcome()
        o.emits = list(self.emits)
        o.state = self.state
        o.result = self.result
        o.assume = dict(self.assume)
        o.finish = list(self.finish)
        return o


class Return(Exception):
    def __init__(self, val):
        self.val = val


class Interp:
    def __init__(self, tf, finish_name=None, assume=None, max_depth=6):
        self.tf = tf
        self.finish_name = finish_name
        self.assume = dict(assume or {})  # assumption key -> bool ; missing => explore
        self.max_depth = max_depth
        self.pending = []  # assumptions that were needed but not fixed: caller re-runs
        self.out = None

    # -- running a method with bound arguments
    def call_method(self, name, args, depth, line):
        fn = self.tf.fns.get(name)
        if fn is None:
            raise Unanalysable(line, "call of unknown method self.%s" % name)
        if depth > self.max_depth:
            raise Unanalysable(line, "re-dispatch deeper than %d" % self.max_depth)
        if name == self.finish_name:
            self.out.finish.append((args[0], args[1]))
            # summary of the finisher: either an error, or state := initial and an attribute token
            ans = self.ask(("finish-ok", len(self.out.finish)))
            if ans:
                self.out.state = V("state", self.tf.initial_state, ())
                self.out.emits.append(V("tok", "OuterAttribute", V("text", args[0], args[1]), args[0]))
                return V("ok")
            return V("err", V("finish-error"), V("finish-error"))
        params = [i for i in fn["inputs"] if "pat" in i]
        if len(params) != len(args):
            raise Unanalysable(line, "arity mismatch calling %s" % name)
        env = {}
        for p, a in zip(params, args):
            if p["pat"]["k"] != "PIdent":
                raise Unanalysable(fn["line"], "unsupported parameter pattern in %s" % name)
            env[p["pat"]["name"]] = a
        try:
            v = self.block(fn["body"], env, depth)
        except Return as r:
            v = r.val
        return v

    def ask(self, key):
        if key in self.assume:
            self.out.assume[key] = self.assume[key]
            return self.assume[key]
        self.pending.append(key)
        # default: explore True first; the driver re-runs with False
        self.out.assume[key] = True
        self.assume[key] = True
        return True

    # -- blocks / statements
    def block(self, blk, env, depth):
        env = dict(env)
        val = V("unit")
        stmts = blk["stmts"]
        for i, st in enumerate(stmts):
            k = st["k"]
            if k == "Let":
                if st.get("else") is not None:
                    raise Unanalysable(st["line"], "let-else in a handler")
                v = self.expr(st["init"], env, depth) if st.get("init") is not None else V("undef")
                self.bind(st["pat"], v, env, st["line"])
                val = V("unit")
            elif k == "ExprStmt":
                v = self.expr(st["expr"], env, depth)
                val = v if not st["semi"] else V("unit")
                if not st["semi"] and i != len(stmts) - 1 and st["expr"]["k"] not in ("If", "Match", "For", "While", "Loop", "BlockExpr"):
                    raise Unanalysable(st["line"], "value statement in the middle of a block")
                if st["expr"]["k"] in ("If", "Match") and i != len(stmts) - 1:
                    val = V("unit")
            else:
                raise Unanalysable(st["line"], "unsupported statement kind %s" % k)
        return val

    def bind(self, pat, v, env, line):
        if pat["k"] == "PIdent" and pat["sub"] is None:
            env[pat["name"]] = v
        elif pat["k"] == "PType":
            self.bind(pat["pat"], v, env, line)
        elif pat["k"] == "PWild":
            pass
        else:
            raise Unanalysable(line, "unsupported binding pattern %s" % unparse(pat))

    # -- expressions
    def expr(self, e, env, depth):
        k = e["k"]
        line = e["line"]
        if k == "Lit":
            l = e["lit"]
            if l["t"] == "char":
                return V("char", l["v"])
            if l["t"] == "int":
                return K(int(l["v"]))
            if l["t"] == "str":
                return V("str", l["v"])
            if l["t"] == "bool":
                return V("bool", l["v"])
            raise Unanalysable(line, "literal %s" % l["t"])
        if k == "Path":
            segs = e["path"]["segs"]
            if len(segs) == 1:
                n = segs[0]
                if n in env:
                    return env[n]
                if n == "None":
                    return V("none")
                if n == "self":
                    return V("self")
                raise Unanalysable(line, "unknown identifier %s" % n)
            if segs in (["NonZeroUsize", "MIN"], ["std", "num", "NonZeroUsize", "MIN"], ["core", "num", "NonZeroUsize", "MIN"]):
                return V("nz", K(1))  # the constant NonZeroUsize::MIN is 1
            # enum variant without payload: State::Main, Token::…
            return self.variant(segs, [], line)
        if k == "Call":
            f = e["func"]
            args = [self.expr(a, env, depth) for a in e["args"]]
            if f["k"] != "Path":
                raise Unanalysable(line, "call of a non-path")
            segs = f["path"]["segs"]
            ps = "::".join(segs)
            if ps == "Ok":
                return V("ok")
            if ps == "Err":
                return V("err", args[0])
            if ps == "Some":
                return V("some", args[0])
            if ps == "ByteIndex":
                if not isinstance(args[0], Lin):
                    raise Unanalysable(line, "ByteIndex of a non-numeric value")
                return V("idx", args[0])
            if ps == "NonZeroUsize::new":
                return V("nz-new", args[0])
            if len(segs) == 1 and segs[0] in self.tf.literal_tables:
                lt = self.tf.literal_tables[segs[0]]
                a = args[0]
                if lt["kind"] == "char" and isinstance(a, V) and a.t == "char":
                    v = lt["map"].get(a.a[0])
                    return V("some", V("kind", segs[0], v)) if v is not None else V("none")
                if lt["kind"] == "str":
                    # text of the pending lexeme: assumption
                    ans = self.ask(("reserved", norm(a)))
                    return V("some", V("reserved-kind", segs[0], a)) if ans else V("none")
                raise Unanalysable(line, "literal table %s applied to %r" % (segs[0], a))
            if len(segs) == 1 and segs[0] in self.tf.kind_to_token:
                kd = args[0]
                if isinstance(kd, V) and kd.t == "kind":
                    return V("tok", self.tf.kind_to_token[segs[0]].get(kd.a[1]), args[1])
                if isinstance(kd, V) and kd.t == "reserved-kind":
                    return V("tok", V("reserved-token-of", kd.a[1]), args[1])
                raise Unanalysable(line, "kind->token table %s applied to %r" % (segs[0], kd))
            if len(segs) == 2 and segs[0] == "DollarlessTerminalName" and segs[-1] == getattr(self.tf, "dollarless_ctor", None) and len(args) == 1:
                return V("dollarless", args[0])
            if len(segs) == 1 and segs[0] in self.tf.fns and segs[0][:1].islower():
                # a free helper function of the tokenizer file (e.g. a character predicate): evaluate its body
                return self.call_method(segs[0], args, depth + 1, line)
            return self.variant(segs, args, line)
        if k == "Struct":
            fields = {f["member"]: self.expr(f["expr"], env, depth) for f in e["fields"]}
            return V("struct", e["path"]["segs"][-1], fields)
        if k == "Field":
            base = self.expr(e["base"], env, depth)
            m = e["member"]
            if isinstance(base, V) and base.t == "self":
                return V("selffield", m)
            if m == "0":
                if isinstance(base, V) and base.t == "idx":
                    return base.a[0]
                if isinstance(base, V) and base.t == "count":
                    return V("nz", base.a[0])
            raise Unanalysable(line, "field access .%s on %r" % (m, base))
        if k == "Ref":
            return self.expr(e["expr"], env, depth)
        if k == "Unary":
            v = self.expr(e["expr"], env, depth)
            if e["op"] == "*":
                return v
            if e["op"] == "!":
                if isinstance(v, V) and v.t == "bool":
                    return V("bool", not v.a[0])
            raise Unanalysable(line, "unary %s" % e["op"])
        if k == "Binary":
            op = e["op"]
            if op == "||":
                l = self.expr(e["left"], env, depth)
                if self.truth(l, line):
                    return V("bool", True)
                return V("bool", self.truth(self.expr(e["right"], env, depth), line))
            if op == "&&":
                l = self.expr(e["left"], env, depth)
                if not self.truth(l, line):
                    return V("bool", False)
                return V("bool", self.truth(self.expr(e["right"], env, depth), line))
            l = self.expr(e["left"], env, depth)
            r = self.expr(e["right"], env, depth)
            if op in ("+", "-") and isinstance(l, Lin) and isinstance(r, Lin):
                return l + r if op == "+" else l - r
            if op in ("==", "!="):
                if isinstance(l, V) and isinstance(r, V) and l.t == "char" and r.t == "char":
                    return V("bool", (l.a[0] == r.a[0]) == (op == "=="))
                if isinstance(l, Lin) and isinstance(r, Lin) and not r.terms:
                    ans = self.count_eq(l, r.const, line)
                    return V("bool", ans == (op == "=="))
            raise Unanalysable(line, "binary %s on %r, %r" % (op, l, r))
        if k == "MethodCall":
            return self.method(e, env, depth)
        if k == "Index":
            base = self.expr(e["expr"], env, depth)
            idx = e["index"]
            if isinstance(base, V) and base.t == "selffield" and base.a[0] == self.tf.src_field and idx["k"] == "Range" and idx["start"] and idx["end"] and idx["limits"] == "..":
                a = self.expr(idx["start"], env, depth)
                b = self.expr(idx["end"], env, depth)
                if isinstance(a, Lin) and isinstance(b, Lin):
                    return V("text", V("idx", a), V("idx", b))
            raise Unanalysable(line, "unsupported indexing %s" % unparse(e)[:60])
        if k == "If":
            return self.if_(e, env, depth)
        if k == "Match":
            return self.match(e, env, depth)
        if k == "Return":
            raise Return(self.expr(e["expr"], env, depth) if e["expr"] else V("unit"))
        if k == "Try":
            v = self.expr(e["expr"], env, depth)
            if isinstance(v, V) and v.t == "err":
                raise Return(v)
            if isinstance(v, V) and v.t == "ok":
                return V("unit")
            raise Unanalysable(line, "`?` on %r" % v)
        if k == "Assign":
            tgt = e["left"]
            v = self.expr(e["right"], env, depth)
            if tgt["k"] == "Field" and ident_of(tgt["base"]) == "self" and tgt["member"] == self.tf.state_field:
                if not (isinstance(v, V) and v.t == "state"):
                    raise Unanalysable(line, "state assigned a non-state value %r" % v)
                self.out.state = v
                return V("unit")
            raise Unanalysable(line, "assignment to %s" % unparse(tgt))
        if k == "BlockExpr":
            return self.block(e["block"], env, depth)
        if k == "Tuple" and not e["elems"]:
            return V("unit")
        if k == "Macro" and e.get("name") == "matches" and e.get("mexpr") is not None and e.get("mpat") is not None:
            # matches!(c, 'a'..='z' | '_')  on the character under examination
            v = self.expr(e["mexpr"], env, depth)
            if isinstance(v, V) and v.t == "char":
                hit = self.pat_matches_char(e["mpat"], v.a[0], line)
                if hit and e.get("mguard") is not None:
                    env2 = dict(env)
                    if e["mpat"]["k"] == "PIdent":
                        env2[e["mpat"]["name"]] = v
                    g = self.expr(e["mguard"], env2, depth)
                    if not (isinstance(g, V) and g.t == "bool"):
                        raise Unanalysable(line, "matches! guard is not a boolean: %r" % g)
                    return g
                return V("bool", bool(hit))
            raise Unanalysable(line, "matches! on %r" % v)
        raise Unanalysable(line, "unsupported expression %s: %s" % (k, unparse(e)[:60]))

    def variant(self, segs, args, line):
        if len(segs) >= 2 and segs[-2] == self.tf.state_enum:
            return V("state", segs[-1], tuple(args))
        if len(segs) >= 2 and segs[-2] == "Token":
            return V("tok", segs[-1], *args)
        if len(segs) >= 2 and segs[-2] == "KikiErr":
            return V("kikierr", segs[-1], *args)
        if segs[-1] == "LeftBracketCount" or (len(segs) == 1 and segs[0] == self.tf.count_newtype):
            return V("count", self.count_of(args[0], line))
        raise Unanalysable(line, "unknown constructor %s" % "::".join(segs))

    def count_of(self, v, line):
        # nz values: ("nz", n) symbolic NonZero with value n (Lin over 'n')
        if isinstance(v, V) and v.t == "nz":
            return v.a[0]
        if isinstance(v, V) and v.t == "nz-unwrapped":
            return v.a[0]
        raise Unanalysable(line, "bracket count built from %r" % (v,))

    def count_eq(self, n, c, line):
        """n: Lin over base 'n' (the symbolic bracket depth, >= 1).  decide n == c under the assumption on n"""
        if not n.terms:
            return n.const == c
        if n.terms == {"n": 1}:
            # n + k == c  <=>  n == c - k
            tgt = c - n.const
            if tgt < 1:
                return False
            if tgt == 1:
                return self.ask(("depth-is-one",))
            raise Unanalysable(line, "comparison of the bracket depth with %d" % tgt)
        raise Unanalysable(line, "comparison on %r" % n)

    def truth(self, v, line):
        if isinstance(v, V) and v.t == "bool":
            return v.a[0]
        raise Unanalysable(line, "condition is not a decidable boolean: %r" % (v,))

    def method(self, e, env, depth):
        line = e["line"]
        name = e["method"]
        recv_e = e["recv"]
        # self.method(args)
        if ident_of(recv_e) == "self":
            args = [self.expr(a, env, depth) for a in e["args"]]
            return self.call_method(name, args, depth + 1, line)
        # self.out.push(tok)
        if recv_e["k"] == "Field" and ident_of(recv_e["base"]) == "self":
            fld = recv_e["member"]
            if name == "push" and fld == self.tf.out_field:
                v = self.expr(e["args"][0], env, depth)
                if not (isinstance(v, V) and v.t == "tok"):
                    raise Unanalysable(line, "pushed value is not a token: %r" % (v,))
                self.out.emits.append(v)
                return V("unit")
            if fld == self.tf.src_field and name == "len" and not e["args"]:
                return L("len")
        recv = self.expr(recv_e, env, depth)
        args = [self.expr(a, env, depth) for a in e["args"]]
        if isinstance(recv, V) and recv.t == "char":
            c = recv.a[0]
            if name == "len_utf8" and not args:
                return K(len(c.encode("utf-8")))
            if name in CHAR_PREDICATES and not args:
                return V("bool", CHAR_PREDICATES[name](c))
            raise Unanalysable(line, "unknown char method %s" % name)
        if isinstance(recv, V) and recv.t == "str" and name == "len" and not args:
            return K(len(recv.a[0].encode("utf-8")))
        if isinstance(recv, V) and recv.t in ("text", "dollarless") and name in ("to_string", "to_owned", "clone", "as_str", "as_ref", getattr(self.tf, "dollarless_raw", None)):
            return recv
        if isinstance(recv, V) and recv.t == "nz-new" and name == "unwrap":
            a = recv.a[0]
            if isinstance(a, Lin):
                return V("nz", a)
            raise Unanalysable(line, "NonZeroUsize::new of %r" % (a,))
        if isinstance(recv, V) and recv.t == "nz":
            if name == "get":
                return recv.a[0]
            if name == "saturating_add" and isinstance(args[0], Lin):
                return V("nz", recv.a[0] + args[0])
            if name == "checked_add" and isinstance(args[0], Lin):
                raise Unanalysable(line, "checked_add on the bracket depth")
        if isinstance(recv, V) and recv.t == "nzget":
            pass
        if isinstance(recv, V) and recv.t in ("some", "none") and name in ("is_some", "is_none"):
            return V("bool", (recv.t == "some") == (name == "is_some"))
        raise Unanalysable(line, "unsupported method call .%s on %r" % (name, recv))

    def if_(self, e, env, depth):
        c = e["cond"]
        if c["k"] == "LetCond":
            v = self.expr(c["expr"], env, depth)
            p = c["pat"]
            if p["k"] == "PTupleStruct" and p["path"]["segs"] == ["Some"] and len(p["elems"]) == 1:
                if isinstance(v, V) and v.t == "some":
                    env2 = dict(env)
                    self.bind(p["elems"][0], v.a[0], env2, c["line"])
                    return self.block(e["then"], env2, depth)
                if isinstance(v, V) and v.t == "none":
                    return self.else_(e, env, depth)
            raise Unanalysable(c["line"], "unsupported if-let: %s" % unparse(c)[:80])
        v = self.expr(c, env, depth)
        if self.truth(v, c["line"]):
            return self.block(e["then"], env, depth)
        return self.else_(e, env, depth)

    def else_(self, e, env, depth):
        if e["else"] is None:
            return V("unit")
        if e["else"]["k"] == "If":
            return self.if_(e["else"], env, depth)
        if e["else"]["k"] == "BlockExpr":
            return self.block(e["else"]["block"], env, depth)
        return self.expr(e["else"], env, depth)

    def match(self, e, env, depth):
        scrut_e = e["expr"]
        # match self.state { … }
        if scrut_e["k"] == "Field" and ident_of(scrut_e["base"]) == "self" and scrut_e["member"] == self.tf.state_field:
            st = self.out.state
            for a in e["arms"]:
                p = a["pat"]
                if a["guard"] is not None:
                    raise Unanalysable(a["line"], "guard on a state arm")
                if p["k"] in ("PWild", "PIdent"):
                    raise Unanalysable(a["line"], "wildcard arm in a match on the tokenizer state")
                segs = p["path"]["segs"]
                if segs[-1] != st.a[0]:
                    continue
                env2 = dict(env)
                if p["k"] == "PTupleStruct":
                    if len(p["elems"]) != len(st.a[1]):
                        raise Unanalysable(a["line"], "state pattern arity")
                    for pe, val in zip(p["elems"], st.a[1]):
                        self.bind(pe, val, env2, a["line"])
                return self.expr(a["body"], env2, depth)
            raise Unanalysable(e["line"], "no arm for state %s" % st.a[0])
        v = self.expr(scrut_e, env, depth)
        if isinstance(v, V) and v.t == "char":
            for a in e["arms"]:
                p = a["pat"]
                if self.pat_matches_char(p, v.a[0], a["line"]):
                    env2 = dict(env)
                    if p["k"] == "PIdent":
                        env2[p["name"]] = v  # `c if c.is_whitespace() => ..`: the binding is visible in the guard
                    if a["guard"] is not None:
                        g = self.expr(a["guard"], env2, depth)
                        if not self.truth(g, a["line"]):
                            continue
                    return self.expr(a["body"], env2, depth)
            raise Unanalysable(e["line"], "non-exhaustive char match")
        if isinstance(v, V) and v.t in ("some", "none"):
            # match <option> { Some(x) => .., None => .. }
            for a in e["arms"]:
                p = a["pat"]
                if a["guard"] is not None:
                    raise Unanalysable(a["line"], "guard on an Option arm")
                if p["k"] == "PTupleStruct" and p["path"]["segs"] == ["Some"] and len(p["elems"]) == 1:
                    if v.t == "some":
                        env2 = dict(env)
                        self.bind(p["elems"][0], v.a[0], env2, a["line"])
                        return self.expr(a["body"], env2, depth)
                elif (p["k"] in ("PPath", "PIdent") and unparse(p).strip() == "None"):
                    if v.t == "none":
                        return self.expr(a["body"], env, depth)
                elif p["k"] == "PWild":
                    return self.expr(a["body"], env, depth)
                else:
                    raise Unanalysable(a["line"], "unsupported Option pattern %s" % unparse(p))
            raise Unanalysable(e["line"], "non-exhaustive Option match")
        raise Unanalysable(e["line"], "unsupported match scrutinee %s" % unparse(scrut_e)[:60])

    def pat_matches_char(self, p, c, line):
        k = p["k"]
        if k == "PWild" or k == "PIdent":
            return True
        if k == "PLit" and p["lit"]["t"] == "char":
            return p["lit"]["v"] == c
        if k == "POr":
            return any(self.pat_matches_char(x, c, line) for x in p["cases"])
        if k == "PRange":
            import re
            m = re.match(r"^'(.)'\s*\.\.=\s*'(.)'$", p["src"])
            if m:
                return m.group(1) <= c <= m.group(2)
            lo, hi = p.get("lo"), p.get("hi")
            if lo and hi and lo.get("k") == "Lit" and hi.get("k") == "Lit" and lo["lit"]["t"] == "char" and hi["lit"]["t"] == "char" and len(c) == 1:
                return lo["lit"]["v"] <= c <= hi["lit"]["v"] if p.get("inclusive") else lo["lit"]["v"] <= c < hi["lit"]["v"]
        raise Unanalysable(line, "unsupported char pattern %s" % unparse(p))


def run_all(tf, finish_name, entry, make_args, state, fixed=None):
    """explore every combination of the assumptions the run asks for.
    entry: method name; make_args: list of values; state: initial V('state',…)
    returns list of Outcome"""
    results = []
    todo = [dict(fixed or {})]
    seen = set()
    while todo:
        asm = todo.pop()
        key = tuple(sorted((repr(k), v) for k, v in asm.items()))
        if key in seen:
            continue
        seen.add(key)
        it = Interp(tf, finish_name, asm)
        it.out = Outcome()
        it.out.state = state
        v = it.call_method(entry, list(make_args), 0, 0)
        if isinstance(v, V) and v.t == "ok":
            it.out.result = ("ok",)
        elif isinstance(v, V) and v.t == "err":
            it.out.result = ("err", v.a[0]) if len(v.a) == 1 else ("err",) + tuple(v.a)
        else:
            raise Unanalysable(0, "handler %s returned %r" % (entry, v))
        results.append(it.out)
        for pk in it.pending:
            alt = dict(asm)
            # fix the ones asked before this one as they were answered, flip this one
            for k2 in it.pending:
                if k2 == pk:
                    break
                alt[k2] = True
            alt[pk] = False
            todo.append(alt)
    return results
