"""Shared analysis of the table-filling stage (C04 clause, C11): the conflict detector, its callers
and the provenance of every field of the conflict error.  All role-anchored on MIR facts."""
import re

from .mir import Mir, Exprs, canon, strip_transparent, borrow_root, natural_loops, Call, place_str, control_deps_transitive, EACH_ADAPTORS, closure_loop_context, lift_closure_canon

NARROWING = ("skip", "take", "step_by", "filter", "take_while", "skip_while", "nth", "last", "find", "rev", "filter_map", "map_while", "position", "peekable", "fuse", "scan", "flat_map", "zip", "chain", "cycle")
MAP_WRITERS = ("insert", "entry", "extend", "get_mut", "remove", "remove_entry", "retain", "clear", "drain", "values_mut", "iter_mut", "get_or_insert_with", "try_insert", "get_many_mut", "get_disjoint_mut", "extract_if", "raw_entry_mut")


class Stage:
    def __init__(self, mir):
        self.mir = mir
        self.writer = None  # function aggregating the conflict error
        self.err_adt = None
        self.map_owner = None
        self.map_field = None
        self.entry = None
        self.chain = set()
        self.problems = []


def find_stage(mir, res, rule):
    st = Stage(mir)
    errs = [p for p in mir.adts if p.rsplit("::", 1)[-1] == "TableConflictErr"]
    if len(errs) != 1:
        res.floor("anchor: conflict error type", len(errs), 1)
        return None
    st.err_adt = errs[0]
    aggs = []
    for fn in mir.fns.values():
        if fn.derived:
            continue
        for i, b in enumerate(fn.blocks):
            if b["cleanup"]:
                continue
            for s_ in b["stmts"]:
                if s_["k"] == "assign" and s_["rv"]["k"] == "agg" and s_["rv"].get("adt") == st.err_adt:
                    aggs.append((fn, i, s_))
    res.inst(rule, "conflict-error-sites", "", True, "%d aggregate sites of %s" % (len(aggs), st.err_adt))
    if len(aggs) != 1:
        res.violate(rule, "conflict-error-sites", "", "the conflict error must be built in exactly one place (found %d: %s)" % (len(aggs), [a[0].path for a in aggs]))
        if not aggs:
            return None
    st.writer, st.agg_bb, st.agg_stmt = aggs[0]
    w = st.writer
    # the action map: the hash map field of `self` that the writer inserts into
    ins = [c for c in w.calls() if (c.rpath or "").startswith("std::collections::HashMap") and c.rpath.rsplit("::", 1)[-1] == "insert"]
    # the same insertion spelled with the entry API: `match map.entry(k) { Vacant(v) => v.insert(x), Occupied(o) => .. }`
    wex = Exprs(w)
    for c in w.calls():
        if (c.rpath or "").startswith("std::collections::hash_map::VacantEntry") and c.rpath.rsplit("::", 1)[-1] == "insert" and c.args:
            e = strip_transparent(wex.operand(c.args[0]))
            while e.k in ("field", "downcast"):
                e = strip_transparent(e.a[0])
            if e.k == "call" and e.site is not None and (e.site.rpath or "").startswith("std::collections::HashMap") and e.site.rpath.rsplit("::", 1)[-1] == "entry":
                ins.append(EntryInsert(c, e.site))
    if len(ins) != 1:
        res.unanalysable(rule, "writer-insert", w.where, "expected exactly one HashMap::insert in the conflict detector, found %d" % len(ins))
        return None
    st.insert = ins[0]
    root, via = borrow_root(w, st.insert.args[0])
    fs = [e for e in (root["p"] if root else []) if isinstance(e, dict) and "f" in e]
    if not fs:
        res.unanalysable(rule, "writer-map", w.where, "cannot tell which field the conflict detector inserts into")
        return None
    st.map_owner, st.map_field = fs[-1]["owner"], fs[-1]["name"]
    # entry: the pub(crate) function of the module returning Result<Table, KikiErr> called from generate
    gens = [f for f in mir.fns.values() if f.pub and f.name == "generate" and f.kind == "Fn"]
    st.generate = gens[0] if len(gens) == 1 else None
    if st.generate is None:
        res.floor("anchor: pub fn generate", len(gens), 1)
        return None
    cg = mir.callgraph()
    # functions on a call path generate -> writer
    rev = {}
    for a, bs in cg.items():
        for b_ in bs:
            rev.setdefault(b_, set()).add(a)
    up = set()
    work = [w.key]
    while work:
        k = work.pop()
        if k in up:
            continue
        up.add(k)
        work.extend(rev.get(k, ()))
    down = mir.reachable_from([st.generate.key], include_trait_impls=False)
    st.chain = (up & down) - {st.generate.key}
    return st


class EntryInsert:
    """`v.insert(x)` on the Vacant entry of `map.entry(key)`: presented like the call `map.insert(key, x)`"""

    def __init__(self, vacant_insert, entry_call):
        self.call, self.entry = vacant_insert, entry_call
        self.args = [entry_call.args[0], entry_call.args[1]] + list(vacant_insert.args[1:])
        self.bb = vacant_insert.bb
        self.where = vacant_insert.where
        self.rpath = vacant_insert.rpath


def touches_field(pl, owner, name):
    return any(isinstance(e, dict) and "f" in e and e.get("owner") == owner and e.get("name") == name for e in pl["p"])


def check_writer(st, res, rule):
    """R-C04-writer: single writer of the action map, insert only after a miss on the same key"""
    mir, w = st.mir, st.writer
    n = 0
    for fn in mir.fns.values():
        if fn.derived:
            continue
        for c in fn.calls():
            for ai, a in enumerate(c.args):
                if a["k"] not in ("copy", "move"):
                    continue
                root, via = borrow_root(fn, a)
                if root is None or isinstance(via, str) or not touches_field(root, st.map_owner, st.map_field):
                    continue
                nm = (c.rpath or "").rsplit("::", 1)[-1]
                n += 1
                ty = fn.local_ty(a["pl"]["l"]) if not a["pl"]["p"] else {}
                mutable = bool(ty.get("mut_ref"))
                res.inst(rule, "map-use|%s|%s" % (fn.path, nm), c.where, True, "mutable borrow=%s" % mutable)
                if (mutable or nm in MAP_WRITERS) and fn.key != w.key:
                    res.violate(rule, "second-writer|%s|%s" % (fn.path, nm), c.where, "the action map `%s.%s` is written (`%s`) outside the conflict detector %s: an action can be overwritten without a conflict being reported" % (st.map_owner.rsplit("::", 1)[-1], st.map_field, nm, w.path))
                if fn.key == w.key and mutable and nm not in ("insert",) and not (nm == "entry" and isinstance(st.insert, EntryInsert) and c.bb == st.insert.entry.bb):
                    res.violate(rule, "writer-other-mutation|" + nm, c.where, "the conflict detector mutates the action map through `%s`" % nm)
        # direct assignment to the field (replacing the whole map) outside constructors
        for b in fn.blocks:
            if b["cleanup"]:
                continue
            for s_ in b["stmts"]:
                if s_["k"] == "assign" and touches_field(s_["pl"], st.map_owner, st.map_field):
                    res.violate(rule, "field-assign|" + fn.path, fn.where, "the action map field is assigned directly in %s" % fn.path)
    res.floor("uses of the action map found", n, 2)
    # the insert is control dependent on the lookup of the same key having missed
    ex = Exprs(w)
    gets = [c for c in w.calls() if (c.rpath or "").startswith("std::collections::HashMap") and c.rpath.rsplit("::", 1)[-1] in ("get", "contains_key", "get_key_value")]
    ok = False
    if isinstance(st.insert, EntryInsert) and not gets:
        # entry form: the insertion happens on the Vacant case of the entry of that very key in that very map
        en = st.insert.entry
        gk = ik = canon(ex.operand(en.args[1]))
        groot, _ = borrow_root(w, en.args[0])
        same_map = groot is not None and touches_field(groot, st.map_owner, st.map_field)
        cd = w.control_deps()
        on_lookup = False
        for (a, s_) in cd.get(st.insert.bb, ()):
            t = w.blocks[a]["term"]
            if t["k"] != "switch":
                continue
            de = strip_transparent(ex.operand(t["discr"]))
            inner = strip_transparent(de.a[0]) if de.k == "discr" and de.a else None
            if inner is not None and inner.k == "call" and inner.site is not None and inner.site.bb == en.bb:
                # Entry: Occupied = 0, Vacant = 1
                vac = [bb for (v, bb) in t["targets"] if v == 1] or ([t["otherwise"]] if any(v == 0 for (v, bb) in t["targets"]) else [])
                on_lookup = s_ in vac
        st.get = en
        res.inst(rule, "insert-after-miss", st.insert.where, True, "entry(%s) of the same map=%s, insert on its Vacant case=%s" % (gk, same_map, on_lookup))
        ok = same_map and on_lookup
        st.key_expr = gk
    elif len(gets) == 1:
        g = gets[0]
        gk = canon(ex.operand(g.args[1]))
        ik = canon(ex.operand(st.insert.args[1]))
        groot, _ = borrow_root(w, g.args[0])
        same_map = groot is not None and touches_field(groot, st.map_owner, st.map_field)
        cd = w.control_deps()
        # the branch block that switches on the discriminant of the lookup result
        dep = [(a, s_) for (a, s_) in cd.get(st.insert.bb, ()) if w.blocks[a]["term"]["k"] == "switch"]
        on_lookup = False
        for (a, s_) in dep:
            d = ex.operand(w.blocks[a]["term"]["discr"])
            cs = canon(d)
            if cs.startswith("discr(HashMap::get(") or cs.startswith("discr(HashMap::get_key_value("):
                # the miss branch is the `otherwise`/None target: value 0 of Option's discriminant
                t = w.blocks[a]["term"]
                none_targets = [bb for (v, bb) in t["targets"] if v == 0] or [t["otherwise"]]
                on_lookup = s_ in none_targets or s_ == t["otherwise"] and not any(v == 0 for (v, bb) in t["targets"])
            if cs.startswith("HashMap::contains_key("):
                on_lookup = True
        st.get = g
        res.inst(rule, "insert-after-miss", st.insert.where, True, "lookup key %s, insert key %s, same map=%s, insert control-dependent on the miss=%s" % (gk, ik, same_map, on_lookup))
        ok = gk == ik and same_map and on_lookup
        st.key_expr = gk
    if not ok:
        res.violate(rule, "insert-after-miss", st.insert.where, "the insert into the action map must be control-dependent on a lookup of the very same key having returned None")
    return ok


def check_eq(st, res, rule):
    """R-C04-eq: on a hit, Ok only if the existing action equals the new one; otherwise the conflict error"""
    w = st.writer
    ex = Exprs(w)
    eqs = [c for c in w.calls() if (c.path or "") == "std::cmp::PartialEq::eq" or (c.rpath or "").endswith("std::cmp::PartialEq>::eq") or (c.path or "") == "std::cmp::PartialEq::ne"]
    if len(eqs) != 1:
        res.violate(rule, "eq-count", w.where, "expected exactly one equality test between the existing and the new action in the conflict detector, found %d" % len(eqs))
        return False
    e = eqs[0]
    a0, a1 = canon(ex.operand(e.args[0])), canon(ex.operand(e.args[1]))
    act_params = [i + 1 for i, t in enumerate(w.inputs) if t["head"].endswith("::Action")]
    lookup = "(HashMap::get(" in a0 or "(HashMap::get(" in a1
    newact = any(x == "param%d" % p for x in (a0, a1) for p in act_params)
    typ = (e.rpath or "")
    on_action = "Action" in typ
    res.inst(rule, "eq-operands", e.where, True, "%s == %s via %s" % (a0, a1, typ))
    ok = lookup and newact and on_action
    if not ok:
        res.violate(rule, "eq-operands", e.where, "the conflict test must compare the *action* stored under the key with the new action (found `%s` vs `%s` via %s)" % (a0, a1, typ))
    # which branch builds the error
    cd = w.control_deps()
    dep = [(a, s_) for (a, s_) in cd.get(st.agg_bb, ()) if w.blocks[a]["term"]["k"] == "switch" and canon(ex.operand(w.blocks[a]["term"]["discr"])).startswith(("PartialEq", "cmp::"))]
    good_branch = False
    for (a, s_) in dep:
        t = w.blocks[a]["term"]
        is_ne = (e.path or "").endswith("::ne")
        false_targets = [bb for (v, bb) in t["targets"] if v == 0]
        good_branch = (s_ in false_targets) != is_ne
    res.inst(rule, "error-on-difference", "%s" % w.where, True, "conflict error is built on the `not equal` branch: %s" % good_branch)
    if not good_branch:
        res.violate(rule, "error-on-difference", w.where, "the conflict error must be control-dependent on the equality test being false")
        ok = False
    # the error reaches the return place as Err
    return ok


def check_scan(st, res, rule):
    """R-C04-scan: the callers chain scans all states and all items, no narrowing adaptors"""
    mir = st.mir
    n = 0
    for k in sorted(st.chain):
        fn = mir.fns[k]
        if fn.key == st.writer.key:
            continue
        for c in fn.calls():
            nm = (c.rpath or "").rsplit("::", 1)[-1]
            tr = (c.callee or {}).get("trait") or ""
            if nm in NARROWING and ("Iterator" in (c.rpath or "") or "iter" in (c.rpath or "")):
                res.violate(rule, "narrowing|%s|%s" % (fn.path, nm), c.where, "`%s` on the way from the table builder to the conflict detector: not every state/item is examined" % nm)
        # a scan is a `for` loop, or `ITER.try_for_each(closure)` / `ITER.for_each(closure)` with a closure on the way
        # to the detector (the same iteration; try_for_each stops at the first Err as `?` in a loop body does)
        scans = [(h, body, None) for (h, body) in natural_loops(fn)]
        for c in fn.calls():
            if (c.rpath or "").endswith(EACH_ADAPTORS) and len(c.args) == 2:
                ce = strip_transparent(Exprs(fn).operand(c.args[1]))
                if ce.k == "agg" and ce.a[0] == "closure" and ce.a[1] in st.chain:
                    scans.append((c.bb, {c.bb}, c))
        for (h, body, each) in scans:
            n += 1
            ex = Exprs(fn)
            nexts = [fn.call_at(b) for b in body if fn.blocks[b]["term"]["k"] == "call" and (Call(fn, b, fn.blocks[b]["term"]).rpath or "").endswith("::next")]
            desc = []
            okl = False
            its = [canon(ex.operand(nx.args[0])) for nx in nexts]
            if each is not None:
                its = ["IntoIterator@I::into_iter(%s)" % canon(ex.operand(each.args[0]))]
            for it in its:
                desc.append(it)
                if re.match(r"^IntoIterator@\w+::into_iter\(Range::Range\{const\(0_usize\), (slice|Vec)::len\((Deref@Oset::deref\()?param1\.machine\.states\)?\)\}\)$", it):
                    okl = True
                if re.match(r"^IntoIterator@\w+::into_iter\((slice::iter\()?(Deref@Oset::deref\()?(Deref@Oset::deref\()?param1\.machine\.states\)?\[param\d+\.0\]\.items\)?\)?\)$", it):
                    okl = True
                # the items of states[i] with i the counter of the enclosing loop over 0..states.len() (the two scans merged)
                if re.match(r"^IntoIterator@\w+::into_iter\((slice::iter\()?(Deref@Oset::deref\()?(Deref@Oset::deref\()?param1\.machine\.states\)?\[\(range::next\(IntoIterator@\w+::into_iter\(Range::Range\{const\(0_usize\), (slice|Vec)::len\((Deref@Oset::deref\()?param1\.machine\.states\)?\)\}\)\) as Some\)\.0\]\.items\)?\)?\)$", it):
                    okl = True
                if re.match(r"^IntoIterator@\w+::into_iter\(Iterator::enumerate\(slice::iter\((Deref@Oset::deref\()?param1\.machine\.states\)?\)\)\)$", it):
                    okl = True
                mp = re.match(r"^IntoIterator@\w+::into_iter\((?:slice::iter\()?(?:Deref@Oset::deref\()?param(\d+)\.items\)?\)?\)$", it)
                if mp and fn.inputs[int(mp.group(1)) - 1]["head"].endswith("::State") and state_param_is_own_state(st, fn, int(mp.group(1))):
                    okl = True  # the state itself is handed down next to its index, both from one enumerate() element
            # the scan cannot be bypassed: no normal return is reachable from the entry without entering the loop;
            # for a loop nested in another scan loop: no way round the outer body (back to its head) without entering it
            outer = [(h2, b2) for (h2, b2, e2) in scans if e2 is None and h2 != h and h in b2 and body < b2]
            bypass = None
            if outer and each is None:
                h2, b2 = min(outer, key=lambda x_: len(x_[1]))
                t2 = fn.blocks[h2]["term"]
                # successors of the outer head that stay in its body (the `Some` edge of its `next`), followed to the back edge
                work, seen_b = [x_ for x_ in fn.succs(h2) if x_ in b2], set()
                # (the head block of a `for` calls next(); the test on its result is a few blocks later: walk from the head)
                while work:
                    x = work.pop()
                    if x in seen_b or x == h or x not in b2 or fn.blocks[x]["cleanup"]:
                        continue
                    seen_b.add(x)
                    for y in fn.succs(x):
                        if y == h2 and x != h2:
                            # reached the outer back edge without the inner loop: only acceptable through the outer
                            # loop's own exhaustion test, which leaves the body instead — so this is a bypass
                            bypass = x
                        work.append(y)
                    if bypass is not None:
                        break
            else:
                work, seen_b = [0], set()
                while work:
                    x = work.pop()
                    if x in seen_b or x == h or fn.blocks[x]["cleanup"]:
                        continue
                    seen_b.add(x)
                    if fn.blocks[x]["term"]["k"] == "return":
                        bypass = x
                        break
                    work.extend(fn.succs(x))
            if bypass is not None:
                res.violate(rule, "loop-bypass|%s" % fn.path, fn.where, "%s can return without entering its scan loop: some states/items are never examined (their actions are missing and their conflicts unreported)" % fn.path)
            res.inst(rule, "loop|%s" % fn.path, fn.where, True, "iterates %s; bypass: %s" % (desc, bypass is not None))
            if not okl:
                res.violate(rule, "loop-range|%s" % fn.path, fn.where, "loop in %s does not range over all states (0..states.len()) or over the whole item set of the state: %s" % (fn.path, desc))
    res.floor("loops on the way to the conflict detector", n, 2)


ENUM_STATES = r"\(Iterator@Enumerate::next\(IntoIterator@\w+::into_iter\(Iterator::enumerate\(slice::iter\((?:Deref@Oset::deref\()?param1\.(?:\w+\.)?states\)?\)\)\)\) as Some\)\.0"


def state_param_is_own_state(st, fn, k):
    """parameter k of fn (a `&State`) is, at every call of fn on the way to the detector, the state paired with the
    index handed down in the same call: both come from one element of `states.iter().enumerate()` over all states"""
    mir = st.mir
    sp = [i + 1 for i, t in enumerate(fn.inputs) if t["head"].endswith("::StateIndex")]
    if len(sp) != 1:
        return False
    n = 0
    for ck in st.chain:
        caller = mir.fns[ck]
        cex = None
        for c in caller.calls():
            if not (c.local and c.rkey == fn.key):
                continue
            cex = cex or Exprs(caller)
            n += 1
            a_state = canon(cex.operand(c.args[k - 1]))
            a_index = canon(cex.operand(c.args[sp[0] - 1]))
            m = re.match(r"^(%s)\.1$" % ENUM_STATES, a_state)
            if not m or a_index != "StateIndex::StateIndex{%s.0}" % m.group(1):
                return False
    return n >= 1


def value_projections(st):
    """how the action map's stored value is taken apart: (projection of the item, projection of the action) — `.0`/`.1`
    for the tuple `(&StateItem, Action)`, the field names for a small struct holding the same two things"""
    return value_projections_of(st.mir, st.map_owner, st.map_field)


def value_projections_of(mir, map_owner, map_field):
    owner = mir.adts.get(map_owner) or {}
    fty = None
    for v in owner.get("variants", []):
        for f in v["fields"]:
            if f["name"] == map_field:
                fty = f["ty"]
    if fty is None:
        return ".0", ".1"
    for T in fty.get("adts", []):
        a = mir.adts.get(T)
        if not a or a.get("kind") != "Struct" or len(a.get("variants", [])) != 1:
            continue
        fs = a["variants"][0]["fields"]
        item = [f["name"] for f in fs if "StateItem" in f["ty"].get("s", "")]
        act = [f["name"] for f in fs if f["ty"].get("s", "").endswith("table::Action")]
        if len(fs) == 2 and len(item) == 1 and len(act) == 1:
            return "." + item[0], "." + act[0]
    return ".0", ".1"


def check_key_types(st, res, rule):
    """the detector finds a conflict by looking the (state, look-ahead) key up and comparing actions: every local type
    in the action map's type must have its PartialEq / Eq / Hash derived, so that two keys are equal exactly when they
    are the same cell and two actions equal exactly when they are the same action"""
    mir = st.mir
    owner = mir.adts.get(st.map_owner) or {}
    fty = None
    for v in owner.get("variants", []):
        for f in v["fields"]:
            if f["name"] == st.map_field:
                fty = f["ty"]
    if fty is None:
        res.unanalysable(rule, "map-type", "", "cannot read the type of the action map")
        return
    n = 0
    for T in sorted(set(fty.get("adts", []))):
        if T not in mir.adts:
            continue
        for im in mir.impls:
            if im["self_ty"]["head"] != T or im.get("trait") not in ("std::cmp::PartialEq", "std::cmp::Eq", "std::hash::Hash"):
                continue
            n += 1
            res.inst(rule, "map-type|%s|%s" % (T.rsplit("::", 1)[-1], im["trait"].rsplit("::", 1)[-1]), "", True, "derived=%s" % im["derived"])
            if not im["derived"]:
                f_, l_ = parse_at_(im)
                res.violate(rule, "map-type|%s|%s" % (T.rsplit("::", 1)[-1], im["trait"].rsplit("::", 1)[-1]), "%s:%d" % (f_, l_),
                            "`%s` occurs in the action map's type but its %s is hand-written: two different cells can collide (or one cell can be looked up under two keys), so a conflict is reported where there is none or missed where there is one" % (T.rsplit("::", 1)[-1], im["trait"].rsplit("::", 1)[-1]))
    res.floor("comparison impls of the action map's key and value types", n, 4)


def parse_at_(im):
    from .mir import parse_at
    sp = im.get("span") or {}
    return parse_at(sp.get("at", "?:0:0: 0:0")) if sp else ("?", 0)


def check_guards(st, res, rule):
    """no call on the way to the conflict detector may be skipped because of what the action map already holds:
    the calls towards the detector are control-dependent only on the shape of the item / rule (and on `?` of earlier
    calls), never on a value read from the builder"""
    mir = st.mir
    n = 0
    targets = set(st.chain) | {st.writer.key}
    for k in sorted(st.chain):
        fn = mir.fns[k]
        if fn.key == st.writer.key:
            continue
        bp = [i + 1 for i, ty in enumerate(fn.inputs) if ty["head"].endswith("TableBuilder")]
        cctx = closure_loop_context(mir, fn) if fn.kind == "Closure" else None
        if cctx is not None:
            # a loop body written as a closure: its guards are read in the parent's terms
            bp = [i + 1 for i, ty in enumerate(cctx[0].inputs) if ty["head"].endswith("TableBuilder")]
        if not bp:
            continue
        ex = None
        cdt = None
        for c in fn.calls():
            if not (c.local and c.rkey in targets):
                continue
            n += 1
            ex = ex or Exprs(fn)
            cdt = cdt or control_deps_transitive(fn)
            bad = []
            for (a, s_) in cdt.get(c.bb, ()):
                t_ = fn.blocks[a]["term"]
                if t_["k"] != "switch":
                    continue
                ce = canon(ex.operand(t_["discr"]))
                if ce.startswith("discr(Try@Result::branch("):
                    continue
                if cctx is not None:
                    ce = lift_closure_canon(ce, cctx)
                if any(re.search(r"\bparam%d\b" % b, ce) for b in bp):
                    bad.append(ce)
            res.inst(rule, "guard|%s->%s" % (fn.path.rsplit("::", 1)[-1], (c.rpath or "?").rsplit("::", 1)[-1]), c.where, True, "%d builder-dependent guards" % len(bad))
            for ce in bad[:1]:
                res.violate(rule, "guard|%s->%s" % (fn.path.rsplit("::", 1)[-1], (c.rpath or "?").rsplit("::", 1)[-1]), c.where,
                            "the call of `%s` is skipped depending on what the action map already holds (`%s`): a second, different action for an occupied cell never reaches the conflict detector" % (c.rpath, ce[:160]))
    res.floor("calls on the way to the conflict detector checked for builder-dependent guards", n, 2)
