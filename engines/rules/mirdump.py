#!/usr/bin/env python3
"""developer helper: pretty-print MIR facts of functions whose path contains a substring"""
import sys, os
sys.path.insert(0, os.path.dirname(os.path.abspath(__file__)))
from kv.mir import *
def op(o):
    if o['k'] in('copy','move'): return o['k']+' '+place_str(o['pl'])
    return 'const '+o['v']
def dump(f, types=True):
    print('==',f.path,'|',f.key, f.where)
    if types:
        for i,l in enumerate(f.locals): print('  _%d: %s %s'%(i,l['ty']['s'], f.names.get(i,'')))
    for i,bl in enumerate(f.blocks):
        if bl['cleanup']: continue
        print(' bb%d:'%i)
        for st in bl['stmts']:
            if st['k']=='assign':
                rv=st['rv']
                d={}
                for k,v in rv.items():
                    if k=='k': continue
                    if isinstance(v,dict) and v.get('k') in('copy','move','const'): d[k]=op(v)
                    elif k=='pl': d[k]=place_str(v)
                    elif k=='ops': d[k]=[op(x) for x in v]
                    elif k in ('fields','adt_local'): continue
                    else: d[k]=v
                print('    ',place_str(st['pl']),'=',rv['k'],d)
        t=bl['term']
        if t['k']=='call':
            c=t['callee']
            print('     CALL',c and (c.get('resolved') or c)['path'],[op(a) for a in t['args']],'->',place_str(t['dest']),'=> bb',t['target'], ('[%s]'%t['span'].get('expn')) if t['span']['exp'] else '')
        else: print('    ',{k:(op(v) if k in('discr','cond') else v) for k,v in t.items() if k not in('span','ops')})
if __name__=='__main__':
    m=Mir(sys.argv[1])
    for f in m.fns.values():
        if any(s in f.path for s in sys.argv[2:]): dump(f, types=not os.environ.get('NOTYPES'))
