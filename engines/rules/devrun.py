#!/usr/bin/env python3
"""developer helper: run one property's rule layer on already extracted facts
   usage: devrun.py <Cxx> <factsdir> [repo] [tier]"""
import sys, os, importlib, subprocess
sys.path.insert(0, os.path.dirname(os.path.abspath(__file__)))
prop, fdir = sys.argv[1], sys.argv[2]
repo = sys.argv[3] if len(sys.argv) > 3 else "/tmp/kv-scratch/repo"
tier = sys.argv[4] if len(sys.argv) > 4 else "quick"
def run(cmd, cwd=None, env=None, timeout=1800):
    e = dict(os.environ); e["CARGO_NET_OFFLINE"] = "true"
    if env: e.update(env)
    p = subprocess.run(cmd, cwd=cwd, env=e, stdout=subprocess.PIPE, stderr=subprocess.STDOUT, timeout=timeout)
    return p.returncode, p.stdout.decode("utf-8", "replace")
ctx = {"repo": repo, "repo_orig": repo, "facts": {"mir": os.path.join(fdir, "mir.json"), "syn": os.path.join(fdir, "syn.json"), "parser_rs_changed_by_build": False},
       "tier": tier, "seed": 0, "scratch": "/tmp/kv-scratch/dev", "replay": None, "verif": "/verif", "run": run}
os.makedirs(ctx["scratch"], exist_ok=True)
import importlib.machinery, importlib.util
_l = importlib.machinery.SourceFileLoader("kvcheck", "/verif/check"); _s = importlib.util.spec_from_loader("kvcheck", _l); _m = importlib.util.module_from_spec(_s); _l.exec_module(_m)
ctx["synfacts_bin"] = _m.SYNFACTS_BIN; ctx["control_facts"] = _m.control_facts; ctx["extract_facts"] = _m.extract_facts
mod = importlib.import_module("kv.props." + prop.lower())
sys.exit(mod.check(ctx))
