//! mirfacts — rustc_private driver that dumps the type-checked program of one crate
//! (MIR bodies with resolved callees, ADT layouts, impls) as one JSON document.
//!
//! Used as RUSTC_WORKSPACE_WRAPPER under `cargo +nightly check`; argv[1] is the real
//! rustc path and is dropped. Output goes to $KIKI_VERIF_FACTS_OUT (one atomic write per
//! process) when the crate being compiled is $KIKI_VERIF_CRATE (default `kiki`).
#![feature(rustc_private)]
#![feature(box_patterns)]

extern crate rustc_abi;
extern crate rustc_driver;
extern crate rustc_hir;
extern crate rustc_interface;
extern crate rustc_middle;
extern crate rustc_session;
extern crate rustc_span;

use rustc_driver::{Callbacks, Compilation};
use rustc_hir::def::DefKind;
use rustc_hir::def_id::{DefId, LOCAL_CRATE};
use rustc_middle::mir::*;
use rustc_middle::ty::{self, Instance, Ty, TyCtxt, TypingEnv};
use rustc_span::Span;

use std::fmt::Write as _;

// ---------------------------------------------------------------- tiny JSON

#[derive(Clone)]
enum J {
    Null,
    Bool(bool),
    Num(i128),
    Str(String),
    Arr(Vec<J>),
    Obj(Vec<(&'static str, J)>),
}

fn s<T: Into<String>>(x: T) -> J {
    J::Str(x.into())
}

fn esc(out: &mut String, st: &str) {
    out.push('"');
    for c in st.chars() {
        match c {
            '"' => out.push_str("\\\""),
            '\\' => out.push_str("\\\\"),
            '\n' => out.push_str("\\n"),
            '\r' => out.push_str("\\r"),
            '\t' => out.push_str("\\t"),
            c if (c as u32) < 0x20 => {
                let _ = write!(out, "\\u{:04x}", c as u32);
            }
            c => out.push(c),
        }
    }
    out.push('"');
}

impl J {
    fn write(&self, out: &mut String) {
        match self {
            J::Null => out.push_str("null"),
            J::Bool(b) => out.push_str(if *b { "true" } else { "false" }),
            J::Num(n) => {
                let _ = write!(out, "{}", n);
            }
            J::Str(st) => esc(out, st),
            J::Arr(v) => {
                out.push('[');
                for (i, x) in v.iter().enumerate() {
                    if i > 0 {
                        out.push(',');
                    }
                    x.write(out);
                }
                out.push(']');
            }
            J::Obj(v) => {
                out.push('{');
                for (i, (k, x)) in v.iter().enumerate() {
                    if i > 0 {
                        out.push(',');
                    }
                    esc(out, k);
                    out.push(':');
                    x.write(out);
                }
                out.push('}');
            }
        }
    }
}

// ---------------------------------------------------------------- driver

struct Cb;

impl Callbacks for Cb {
    fn after_analysis<'tcx>(
        &mut self,
        _compiler: &rustc_interface::interface::Compiler,
        tcx: TyCtxt<'tcx>,
    ) -> Compilation {
        let want = std::env::var("KIKI_VERIF_CRATE").unwrap_or_else(|_| "kiki".to_string());
        let out = std::env::var("KIKI_VERIF_FACTS_OUT").ok();
        let name = tcx.crate_name(LOCAL_CRATE).to_string();
        if let Some(out) = out {
            if name == want {
                let doc = dump(tcx);
                let mut text = String::new();
                doc.write(&mut text);
                let tmp = format!("{}.tmp.{}", out, std::process::id());
                std::fs::write(&tmp, text).expect("write facts");
                std::fs::rename(&tmp, &out).expect("rename facts");
            }
        }
        Compilation::Continue
    }
}

fn main() -> std::process::ExitCode {
    let mut args: Vec<String> = std::env::args().collect();
    if args.len() > 1 && !args[1].starts_with('-') {
        // wrapper mode: argv[1] is the path of the real rustc
        args.remove(1);
    }
    rustc_driver::catch_with_exit_code(move || {
        let mut cb = Cb;
        rustc_driver::run_compiler(&args, &mut cb);
    })
}

// ---------------------------------------------------------------- helpers

fn key(tcx: TyCtxt<'_>, did: DefId) -> String {
    if did.is_local() {
        tcx.def_path(did).to_string_no_crate_verbose()
    } else {
        format!("{}{}", tcx.crate_name(did.krate), tcx.def_path(did).to_string_no_crate_verbose())
    }
}

fn span_j(tcx: TyCtxt<'_>, sp: Span) -> J {
    let sm = tcx.sess.source_map();
    let call = sp.source_callsite();
    let mut v = vec![
        ("at", s(sm.span_to_diagnostic_string(call))),
        ("exp", J::Bool(sp.from_expansion())),
    ];
    if sp.from_expansion() {
        let ed = sp.ctxt().outer_expn_data();
        v.push(("expn", s(ed.kind.descr())));
        v.push(("raw_at", s(sm.span_to_diagnostic_string(sp))));
        // does the expansion originate in another crate's macro (e.g. std's vec!, format!)?
        v.push(("def_site_local", J::Bool(ed.macro_def_id.map(|d| d.is_local()).unwrap_or(false))));
    }
    J::Obj(v)
}

fn ty_j<'tcx>(tcx: TyCtxt<'tcx>, ty: Ty<'tcx>) -> J {
    let mut adts: Vec<String> = vec![];
    let mut mut_ref = false;
    let mut has_param = false;
    let mut closures: Vec<String> = vec![];
    let mut fndefs: Vec<String> = vec![];
    for arg in ty.walk() {
        if let Some(t) = arg.as_type() {
            match t.kind() {
                ty::Adt(def, _) => {
                    let p = tcx.def_path_str(def.did());
                    if !adts.contains(&p) {
                        adts.push(p);
                    }
                }
                ty::Ref(_, _, m) => {
                    if m.is_mut() {
                        mut_ref = true;
                    }
                }
                ty::RawPtr(_, m) => {
                    if m.is_mut() {
                        mut_ref = true;
                    }
                }
                ty::Param(_) => has_param = true,
                ty::Closure(did, _) => closures.push(key(tcx, *did)),
                ty::FnDef(did, _) => fndefs.push(key(tcx, *did)),
                _ => {}
            }
        }
    }
    // head: the type after peeling references / boxes-of-nothing
    let mut head = ty;
    let mut refs = 0;
    while let ty::Ref(_, inner, _) = head.kind() {
        head = *inner;
        refs += 1;
    }
    let head_s = match head.kind() {
        ty::Adt(def, _) => tcx.def_path_str(def.did()),
        ty::Closure(did, _) => format!("closure:{}", key(tcx, *did)),
        ty::FnDef(did, _) => format!("fndef:{}", key(tcx, *did)),
        ty::Tuple(l) if l.is_empty() => "()".to_string(),
        ty::Tuple(_) => "tuple".to_string(),
        ty::Slice(_) => "slice".to_string(),
        ty::Array(..) => "array".to_string(),
        ty::Str => "str".to_string(),
        ty::Param(p) => format!("param:{}", p.name),
        ty::Bool | ty::Char | ty::Int(_) | ty::Uint(_) | ty::Float(_) => format!("{}", head),
        ty::Never => "!".to_string(),
        ty::RawPtr(..) => "rawptr".to_string(),
        ty::FnPtr(..) => "fnptr".to_string(),
        ty::Dynamic(..) => "dyn".to_string(),
        ty::Alias(..) => "alias".to_string(),
        _ => "other".to_string(),
    };
    let mut v = vec![
        ("s", s(format!("{}", ty))),
        ("head", s(head_s)),
        ("refs", J::Num(refs)),
        ("adts", J::Arr(adts.into_iter().map(s).collect())),
    ];
    if mut_ref {
        v.push(("mut_ref", J::Bool(true)));
    }
    if has_param {
        v.push(("generic", J::Bool(true)));
    }
    if !closures.is_empty() {
        v.push(("closures", J::Arr(closures.into_iter().map(s).collect())));
    }
    if !fndefs.is_empty() {
        v.push(("fndefs", J::Arr(fndefs.into_iter().map(s).collect())));
    }
    // first generic argument types of the head ADT (element types of containers)
    if let ty::Adt(_, args) = head.kind() {
        let targs: Vec<J> = args.types().map(|t| s(format!("{}", t))).collect();
        if !targs.is_empty() {
            v.push(("targs", J::Arr(targs)));
        }
    }
    J::Obj(v)
}

fn place_j<'tcx>(tcx: TyCtxt<'tcx>, body: &Body<'tcx>, pl: &Place<'tcx>) -> J {
    let mut proj: Vec<J> = vec![];
    let mut pty = rustc_middle::mir::PlaceTy::from_ty(body.local_decls[pl.local].ty);
    for elem in pl.projection.iter() {
        match elem {
            ProjectionElem::Deref => proj.push(s("deref")),
            ProjectionElem::Field(f, fty) => {
                let mut v: Vec<(&'static str, J)> = vec![("f", J::Num(f.as_usize() as i128))];
                match pty.ty.kind() {
                    ty::Adt(def, _) => {
                        let vidx = pty.variant_index.unwrap_or(rustc_abi::FIRST_VARIANT);
                        let var = def.variant(vidx);
                        if f.as_usize() < var.fields.len() {
                            v.push(("name", s(var.fields[f].name.to_string())));
                        }
                        v.push(("owner", s(tcx.def_path_str(def.did()))));
                        if def.is_enum() {
                            v.push(("variant", s(var.name.to_string())));
                        }
                    }
                    ty::Tuple(_) => v.push(("owner", s("tuple"))),
                    ty::Closure(did, _) => {
                        v.push(("owner", s(format!("closure:{}", key(tcx, *did)))));
                    }
                    _ => v.push(("owner", s("other"))),
                }
                v.push(("ty", s(format!("{}", fty))));
                proj.push(J::Obj(v));
            }
            ProjectionElem::Downcast(name, vidx) => {
                let nm = match name {
                    Some(n) => n.to_string(),
                    None => format!("#{}", vidx.as_usize()),
                };
                proj.push(J::Obj(vec![("downcast", s(nm))]));
            }
            ProjectionElem::Index(l) => {
                proj.push(J::Obj(vec![("index", J::Num(l.as_usize() as i128))]));
            }
            ProjectionElem::ConstantIndex { offset, from_end, .. } => {
                proj.push(J::Obj(vec![
                    ("cidx", J::Num(offset as i128)),
                    ("from_end", J::Bool(from_end)),
                ]));
            }
            ProjectionElem::Subslice { .. } => proj.push(s("subslice")),
            _ => proj.push(s("otherproj")),
        }
        pty = pty.projection_ty(tcx, elem);
    }
    J::Obj(vec![("l", J::Num(pl.local.as_usize() as i128)), ("p", J::Arr(proj))])
}

fn callee_j<'tcx>(
    tcx: TyCtxt<'tcx>,
    owner: DefId,
    did: DefId,
    args: ty::GenericArgsRef<'tcx>,
) -> J {
    let mut v: Vec<(&'static str, J)> = vec![
        ("path", s(tcx.def_path_str(did))),
        ("key", s(key(tcx, did))),
        ("full", s(tcx.def_path_str_with_args(did, args))),
        ("args", J::Arr(args.iter().map(|a| s(format!("{}", a))).collect())),
        ("kind", s(format!("{:?}", tcx.def_kind(did)))),
        ("local", J::Bool(did.is_local())),
    ];
    if let Some(first) = args.types().next() {
        v.push(("self_ty", ty_j(tcx, first)));
    }
    if matches!(tcx.def_kind(did), DefKind::Fn | DefKind::AssocFn) {
        let sig = tcx.fn_sig(did).skip_binder().skip_binder();
        if !sig.safety().is_safe() {
            v.push(("unsafe", J::Bool(true)));
        }
    }
    // trait method? record the trait
    if let Some(trait_did) = tcx.trait_of_assoc(did) {
        v.push(("trait", s(tcx.def_path_str(trait_did))));
    }
    if let Some(impl_did) = tcx.impl_of_assoc(did) {
        let self_ty = tcx.type_of(impl_did).instantiate_identity().skip_norm_wip();
        v.push(("impl_self", s(format!("{}", self_ty))));
        if let Some(tr) = tcx.impl_opt_trait_ref(impl_did) {
            let tr = tr.instantiate_identity().skip_norm_wip();
            v.push(("impl_trait", s(tcx.def_path_str(tr.def_id))));
        }
    }
    let env = TypingEnv::post_analysis(tcx, owner);
    if matches!(tcx.def_kind(did), DefKind::Fn | DefKind::AssocFn) {
        if let Ok(Some(inst)) = Instance::try_resolve(tcx, env, did, args) {
            let rdid = inst.def_id();
            let mut r: Vec<(&'static str, J)> = vec![
                ("path", s(tcx.def_path_str(rdid))),
                ("key", s(key(tcx, rdid))),
                ("full", s(tcx.def_path_str_with_args(rdid, inst.args))),
                ("local", J::Bool(rdid.is_local())),
                ("ikind", s(format!("{:?}", std::mem::discriminant(&inst.def)).replace("Discriminant", ""))),
                ("kind", s(format!("{:?}", tcx.def_kind(rdid)))),
            ];
            let ik = match inst.def {
                ty::InstanceKind::Item(_) => "item",
                ty::InstanceKind::Intrinsic(_) => "intrinsic",
                ty::InstanceKind::Virtual(..) => "virtual",
                ty::InstanceKind::ClosureOnceShim { .. } => "closure_once_shim",
                ty::InstanceKind::FnPtrShim(..) => "fnptr_shim",
                ty::InstanceKind::CloneShim(..) => "clone_shim",
                ty::InstanceKind::DropGlue(..) => "drop_glue",
                ty::InstanceKind::ReifyShim(..) => "reify_shim",
                _ => "other_shim",
            };
            r[4] = ("ikind", s(ik));
            if matches!(tcx.def_kind(rdid), DefKind::Fn | DefKind::AssocFn) {
                if let Some(impl_did) = tcx.impl_of_assoc(rdid) {
                    let self_ty = tcx.type_of(impl_did).instantiate_identity().skip_norm_wip();
                    r.push(("impl_self", s(format!("{}", self_ty))));
                    if let ty::Adt(def, _) = self_ty.kind() {
                        r.push(("impl_self_adt", s(tcx.def_path_str(def.did()))));
                    }
                    if let Some(tr) = tcx.impl_opt_trait_ref(impl_did) {
                        let tr = tr.instantiate_identity().skip_norm_wip();
                        r.push(("impl_trait", s(tcx.def_path_str(tr.def_id))));
                    }
                }
            }
            v.push(("resolved", J::Obj(r)));
        }
    }
    J::Obj(v)
}

fn operand_j<'tcx>(tcx: TyCtxt<'tcx>, owner: DefId, body: &Body<'tcx>, op: &Operand<'tcx>) -> J {
    match op {
        Operand::Copy(p) => J::Obj(vec![("k", s("copy")), ("pl", place_j(tcx, body, p))]),
        Operand::Move(p) => J::Obj(vec![("k", s("move")), ("pl", place_j(tcx, body, p))]),
        Operand::Constant(box c) => {
            let cty = c.const_.ty();
            let mut v: Vec<(&'static str, J)> = vec![
                ("k", s("const")),
                ("ty", s(format!("{}", cty))),
                ("v", s(format!("{}", c.const_))),
            ];
            match cty.kind() {
                ty::FnDef(did, args) => {
                    v.push(("fn", callee_j(tcx, owner, *did, args)));
                }
                ty::Closure(did, _) => {
                    v.push(("closure", s(key(tcx, *did))));
                }
                _ => {}
            }
            if let Some(bits) = c.const_.try_eval_scalar_int(tcx, TypingEnv::post_analysis(tcx, owner)) {
                if bits.size().bytes() <= 16 && bits.size().bytes() > 0 {
                    v.push(("int", J::Num(bits.to_bits_unchecked() as i128)));
                }
            }
            J::Obj(v)
        }
        #[allow(unreachable_patterns)]
        _ => J::Obj(vec![("k", s("otherop")), ("dbg", s(format!("{:?}", op)))]),
    }
}

fn rvalue_j<'tcx>(tcx: TyCtxt<'tcx>, owner: DefId, body: &Body<'tcx>, rv: &Rvalue<'tcx>) -> J {
    let op = |o: &Operand<'tcx>| operand_j(tcx, owner, body, o);
    let pl = |p: &Place<'tcx>| place_j(tcx, body, p);
    match rv {
        Rvalue::Use(o, ..) => J::Obj(vec![("k", s("use")), ("op", op(o))]),
        Rvalue::Repeat(o, n) => {
            J::Obj(vec![("k", s("repeat")), ("op", op(o)), ("n", s(format!("{}", n)))])
        }
        Rvalue::Ref(_, bk, p) => {
            let b = match bk {
                BorrowKind::Shared => "shared",
                BorrowKind::Fake(_) => "fake",
                BorrowKind::Mut { .. } => "mut",
            };
            J::Obj(vec![("k", s("ref")), ("bk", s(b)), ("pl", pl(p))])
        }
        Rvalue::RawPtr(kind, p) => J::Obj(vec![
            ("k", s("rawptr")),
            ("kind", s(format!("{:?}", kind))),
            ("pl", pl(p)),
        ]),
        Rvalue::Cast(ck, o, t) => J::Obj(vec![
            ("k", s("cast")),
            ("ck", s(format!("{:?}", ck))),
            ("op", op(o)),
            ("ty", s(format!("{}", t))),
        ]),
        Rvalue::BinaryOp(bop, box (a, b)) => J::Obj(vec![
            ("k", s("bin")),
            ("op", s(format!("{:?}", bop))),
            ("a", op(a)),
            ("b", op(b)),
        ]),
        Rvalue::UnaryOp(uop, a) => {
            J::Obj(vec![("k", s("un")), ("op", s(format!("{:?}", uop))), ("a", op(a))])
        }
        Rvalue::Discriminant(p) => J::Obj(vec![("k", s("discr")), ("pl", pl(p))]),
        Rvalue::CopyForDeref(p) => J::Obj(vec![("k", s("copy_for_deref")), ("pl", pl(p))]),
        Rvalue::Aggregate(box ak, ops) => {
            let mut v: Vec<(&'static str, J)> = vec![("k", s("agg"))];
            match ak {
                AggregateKind::Array(t) => {
                    v.push(("ak", s("array")));
                    v.push(("elem_ty", s(format!("{}", t))));
                }
                AggregateKind::Tuple => v.push(("ak", s("tuple"))),
                AggregateKind::Adt(did, vidx, _args, _, active) => {
                    let def = tcx.adt_def(*did);
                    let var = def.variant(*vidx);
                    v.push(("ak", s("adt")));
                    v.push(("adt", s(tcx.def_path_str(*did))));
                    v.push(("adt_local", J::Bool(did.is_local())));
                    v.push(("variant", s(var.name.to_string())));
                    v.push((
                        "fields",
                        J::Arr(var.fields.iter().map(|f| s(f.name.to_string())).collect()),
                    ));
                    if active.is_some() {
                        v.push(("union", J::Bool(true)));
                    }
                }
                AggregateKind::Closure(did, _) => {
                    v.push(("ak", s("closure")));
                    v.push(("closure", s(key(tcx, *did))));
                }
                _ => v.push(("ak", s("otheragg"))),
            }
            v.push(("ops", J::Arr(ops.iter().map(|o| op(o)).collect())));
            J::Obj(v)
        }
        other => J::Obj(vec![("k", s("other")), ("dbg", s(format!("{:?}", other)))]),
    }
}

fn body_j<'tcx>(tcx: TyCtxt<'tcx>, did: DefId, body: &Body<'tcx>) -> J {
    let mut locals: Vec<J> = vec![];
    for (_l, decl) in body.local_decls.iter_enumerated() {
        let mut v = vec![("ty", ty_j(tcx, decl.ty))];
        if decl.mutability.is_mut() {
            v.push(("mut", J::Bool(true)));
        }
        locals.push(J::Obj(v));
    }
    let mut dbg: Vec<J> = vec![];
    for vdi in body.var_debug_info.iter() {
        if let VarDebugInfoContents::Place(p) = &vdi.value {
            dbg.push(J::Obj(vec![
                ("name", s(vdi.name.to_string())),
                ("pl", place_j(tcx, body, p)),
                ("arg", match vdi.argument_index {
                    Some(i) => J::Num(i as i128),
                    None => J::Null,
                }),
            ]));
        }
    }
    let mut blocks: Vec<J> = vec![];
    for (_bb, data) in body.basic_blocks.iter_enumerated() {
        let mut stmts: Vec<J> = vec![];
        for st in data.statements.iter() {
            match &st.kind {
                StatementKind::Assign(box (p, rv)) => {
                    stmts.push(J::Obj(vec![
                        ("k", s("assign")),
                        ("pl", place_j(tcx, body, p)),
                        ("rv", rvalue_j(tcx, did, body, rv)),
                        ("span", span_j(tcx, st.source_info.span)),
                    ]));
                }
                StatementKind::SetDiscriminant { place, variant_index } => {
                    stmts.push(J::Obj(vec![
                        ("k", s("set_discr")),
                        ("pl", place_j(tcx, body, place)),
                        ("variant", J::Num(variant_index.as_usize() as i128)),
                    ]));
                }
                StatementKind::StorageDead(l) => {
                    stmts.push(J::Obj(vec![
                        ("k", s("storage_dead")),
                        ("l", J::Num(l.as_usize() as i128)),
                    ]));
                }
                StatementKind::Intrinsic(box i) => {
                    stmts.push(J::Obj(vec![("k", s("intrinsic")), ("dbg", s(format!("{:?}", i)))]));
                }
                _ => {}
            }
        }
        let term = data.terminator();
        let tspan = span_j(tcx, term.source_info.span);
        let bbn = |b: BasicBlock| J::Num(b.as_usize() as i128);
        let unwind_j = |u: &UnwindAction| match u {
            UnwindAction::Cleanup(b) => bbn(*b),
            _ => J::Null,
        };
        let t = match &term.kind {
            TerminatorKind::Goto { target } => {
                J::Obj(vec![("k", s("goto")), ("target", bbn(*target))])
            }
            TerminatorKind::SwitchInt { discr, targets } => {
                let mut ts: Vec<J> = vec![];
                for (val, bb) in targets.iter() {
                    ts.push(J::Arr(vec![J::Num(val as i128), bbn(bb)]));
                }
                J::Obj(vec![
                    ("k", s("switch")),
                    ("discr", operand_j(tcx, did, body, discr)),
                    ("targets", J::Arr(ts)),
                    ("otherwise", bbn(targets.otherwise())),
                    ("span", tspan),
                ])
            }
            TerminatorKind::Return => J::Obj(vec![("k", s("return"))]),
            TerminatorKind::Unreachable => J::Obj(vec![("k", s("unreachable"))]),
            TerminatorKind::UnwindResume => J::Obj(vec![("k", s("resume"))]),
            TerminatorKind::UnwindTerminate(_) => J::Obj(vec![("k", s("terminate"))]),
            TerminatorKind::Drop { place, target, unwind, .. } => J::Obj(vec![
                ("k", s("drop")),
                ("pl", place_j(tcx, body, place)),
                ("target", bbn(*target)),
                ("unwind", unwind_j(unwind)),
            ]),
            TerminatorKind::Call { func, args, destination, target, unwind, fn_span, .. } => {
                let mut v: Vec<(&'static str, J)> = vec![("k", s("call"))];
                let callee = match func {
                    Operand::Constant(box c) => match c.const_.ty().kind() {
                        ty::FnDef(cd, cargs) => callee_j(tcx, did, *cd, cargs),
                        _ => J::Null,
                    },
                    _ => J::Null,
                };
                v.push(("callee", callee));
                v.push(("func", operand_j(tcx, did, body, func)));
                v.push((
                    "args",
                    J::Arr(args.iter().map(|a| operand_j(tcx, did, body, &a.node)).collect()),
                ));
                v.push(("dest", place_j(tcx, body, destination)));
                v.push(("target", match target {
                    Some(b) => bbn(*b),
                    None => J::Null,
                }));
                v.push(("unwind", unwind_j(unwind)));
                v.push(("span", tspan));
                v.push(("fn_span", span_j(tcx, *fn_span)));
                J::Obj(v)
            }
            TerminatorKind::Assert { cond, expected, msg, target, unwind } => {
                let (kind, detail) = match &**msg {
                    AssertKind::BoundsCheck { .. } => ("BoundsCheck", String::new()),
                    AssertKind::Overflow(op, ..) => ("Overflow", format!("{:?}", op)),
                    AssertKind::OverflowNeg(_) => ("OverflowNeg", String::new()),
                    AssertKind::DivisionByZero(_) => ("DivisionByZero", String::new()),
                    AssertKind::RemainderByZero(_) => ("RemainderByZero", String::new()),
                    AssertKind::MisalignedPointerDereference { .. } => {
                        ("MisalignedPointerDereference", String::new())
                    }
                    AssertKind::NullPointerDereference => ("NullPointerDereference", String::new()),
                    _ => ("OtherAssert", String::new()),
                };
                let mut ops: Vec<J> = vec![];
                match &**msg {
                    AssertKind::BoundsCheck { len, index } => {
                        ops.push(operand_j(tcx, did, body, len));
                        ops.push(operand_j(tcx, did, body, index));
                    }
                    AssertKind::Overflow(_, a, b) => {
                        ops.push(operand_j(tcx, did, body, a));
                        ops.push(operand_j(tcx, did, body, b));
                    }
                    AssertKind::DivisionByZero(a) | AssertKind::RemainderByZero(a) | AssertKind::OverflowNeg(a) => {
                        ops.push(operand_j(tcx, did, body, a));
                    }
                    _ => {}
                }
                J::Obj(vec![
                    ("k", s("assert")),
                    ("cond", operand_j(tcx, did, body, cond)),
                    ("expected", J::Bool(*expected)),
                    ("akind", s(kind)),
                    ("detail", s(detail)),
                    ("ops", J::Arr(ops)),
                    ("target", bbn(*target)),
                    ("unwind", unwind_j(unwind)),
                    ("span", tspan),
                ])
            }
            TerminatorKind::FalseEdge { real_target, .. } => {
                J::Obj(vec![("k", s("goto")), ("target", bbn(*real_target))])
            }
            TerminatorKind::FalseUnwind { real_target, .. } => {
                J::Obj(vec![("k", s("goto")), ("target", bbn(*real_target))])
            }
            other => J::Obj(vec![("k", s("otherterm")), ("dbg", s(format!("{:?}", other)))]),
        };
        blocks.push(J::Obj(vec![
            ("stmts", J::Arr(stmts)),
            ("term", t),
            ("cleanup", J::Bool(data.is_cleanup)),
        ]));
    }
    J::Obj(vec![
        ("arg_count", J::Num(body.arg_count as i128)),
        ("locals", J::Arr(locals)),
        ("debug", J::Arr(dbg)),
        ("blocks", J::Arr(blocks)),
    ])
}

fn fn_j<'tcx>(tcx: TyCtxt<'tcx>, did: DefId) -> J {
    let kind = tcx.def_kind(did);
    let mut v: Vec<(&'static str, J)> = vec![
        ("key", s(key(tcx, did))),
        ("path", s(tcx.def_path_str(did))),
        ("kind", s(format!("{:?}", kind))),
        ("span", span_j(tcx, tcx.def_span(did))),
    ];
    if let Some(n) = tcx.opt_item_name(did) {
        v.push(("name", s(n.to_string())));
    }
    let root = tcx.typeck_root_def_id(did);
    if root != did {
        v.push(("root", s(key(tcx, root))));
        v.push(("parent", s(key(tcx, tcx.parent(did)))));
    }
    if matches!(kind, DefKind::Fn | DefKind::AssocFn) {
        v.push(("pub", J::Bool(tcx.visibility(did).is_public())));
        let sig = tcx.fn_sig(did).instantiate_identity().skip_norm_wip().skip_binder();
        v.push(("inputs", J::Arr(sig.inputs().iter().map(|t| ty_j(tcx, *t)).collect())));
        v.push(("output", ty_j(tcx, sig.output())));
        v.push(("unsafe", J::Bool(!sig.safety().is_safe())));
        if let Some(impl_did) = tcx.impl_of_assoc(did) {
            let self_ty = tcx.type_of(impl_did).instantiate_identity().skip_norm_wip();
            let mut iv: Vec<(&'static str, J)> = vec![
                ("key", s(key(tcx, impl_did))),
                ("self_ty", ty_j(tcx, self_ty)),
                ("derived", J::Bool(tcx.is_automatically_derived(impl_did))),
            ];
            if let Some(tr) = tcx.impl_opt_trait_ref(impl_did) {
                let tr = tr.instantiate_identity().skip_norm_wip();
                iv.push(("trait", s(tcx.def_path_str(tr.def_id))));
                iv.push(("trait_full", s(format!("{}", tr))));
            }
            v.push(("impl", J::Obj(iv)));
        }
        if let Some(tr) = tcx.trait_of_assoc(did) {
            v.push(("in_trait", s(tcx.def_path_str(tr))));
        }
    }
    let body = tcx.optimized_mir(did);
    v.push(("body", body_j(tcx, did, body)));
    J::Obj(v)
}

fn dump(tcx: TyCtxt<'_>) -> J {
    let mut fns: Vec<J> = vec![];
    let mut skipped: Vec<J> = vec![];
    for ldid in tcx.hir_body_owners() {
        let did = ldid.to_def_id();
        let kind = tcx.def_kind(did);
        match kind {
            DefKind::Fn | DefKind::AssocFn | DefKind::Closure => {
                if tcx.is_mir_available(did) {
                    fns.push(fn_j(tcx, did));
                } else {
                    skipped.push(J::Obj(vec![
                        ("key", s(key(tcx, did))),
                        ("kind", s(format!("{:?}", kind))),
                        ("why", s("no mir")),
                    ]));
                }
            }
            _ => skipped.push(J::Obj(vec![
                ("key", s(key(tcx, did))),
                ("kind", s(format!("{:?}", kind))),
                ("why", s("not a fn")),
                ("span", span_j(tcx, tcx.def_span(did))),
            ])),
        }
    }

    let mut adts: Vec<J> = vec![];
    let mut impls: Vec<J> = vec![];
    let mut statics: Vec<J> = vec![];
    for ldid in tcx.hir_crate_items(()).definitions() {
        let did = ldid.to_def_id();
        match tcx.def_kind(did) {
            DefKind::Struct | DefKind::Enum | DefKind::Union => {
                let def = tcx.adt_def(did);
                let mut variants: Vec<J> = vec![];
                for var in def.variants().iter() {
                    let mut fields: Vec<J> = vec![];
                    for f in var.fields.iter() {
                        let fty = tcx.type_of(f.did).instantiate_identity().skip_norm_wip();
                        fields.push(J::Obj(vec![
                            ("name", s(f.name.to_string())),
                            ("pub", J::Bool(tcx.visibility(f.did).is_public())),
                            ("vis", s(format!("{:?}", tcx.visibility(f.did)))),
                            ("ty", ty_j(tcx, fty)),
                        ]));
                    }
                    variants.push(J::Obj(vec![
                        ("name", s(var.name.to_string())),
                        ("fields", J::Arr(fields)),
                    ]));
                }
                adts.push(J::Obj(vec![
                    ("path", s(tcx.def_path_str(did))),
                    ("key", s(key(tcx, did))),
                    ("kind", s(format!("{:?}", tcx.def_kind(did)))),
                    ("pub", J::Bool(tcx.visibility(did).is_public())),
                    ("span", span_j(tcx, tcx.def_span(did))),
                    ("variants", J::Arr(variants)),
                ]));
            }
            DefKind::Impl { of_trait } => {
                let self_ty = tcx.type_of(did).instantiate_identity().skip_norm_wip();
                let mut v: Vec<(&'static str, J)> = vec![
                    ("key", s(key(tcx, did))),
                    ("of_trait", J::Bool(of_trait)),
                    ("self_ty", ty_j(tcx, self_ty)),
                    ("derived", J::Bool(tcx.is_automatically_derived(did))),
                    ("span", span_j(tcx, tcx.def_span(did))),
                ];
                if let Some(tr) = tcx.impl_opt_trait_ref(did) {
                    let tr = tr.instantiate_identity().skip_norm_wip();
                    v.push(("trait", s(tcx.def_path_str(tr.def_id))));
                    v.push(("trait_full", s(format!("{}", tr))));
                }
                let items: Vec<J> = tcx
                    .associated_items(did)
                    .in_definition_order()
                    .map(|it| {
                        J::Obj(vec![
                            ("name", s(it.name().to_string())),
                            ("key", s(key(tcx, it.def_id))),
                            ("kind", s(format!("{:?}", tcx.def_kind(it.def_id)))),
                        ])
                    })
                    .collect();
                v.push(("items", J::Arr(items)));
                impls.push(J::Obj(v));
            }
            DefKind::Static { mutability, .. } => {
                statics.push(J::Obj(vec![
                    ("key", s(key(tcx, did))),
                    ("ty", ty_j(tcx, tcx.type_of(did).instantiate_identity().skip_norm_wip())),
                    ("mut", J::Bool(mutability.is_mut())),
                    ("span", span_j(tcx, tcx.def_span(did))),
                ]));
            }
            _ => {}
        }
    }

    J::Obj(vec![
        ("crate", s(tcx.crate_name(LOCAL_CRATE).to_string())),
        ("rustc", s(rustc_session::config::host_tuple().to_string())),
        ("fns", J::Arr(fns)),
        ("skipped_bodies", J::Arr(skipped)),
        ("adts", J::Arr(adts)),
        ("impls", J::Arr(impls)),
        ("statics", J::Arr(statics)),
    ])
}
