//! Known-bad input for the C14 rules: every zero-expected rule must fire on this crate.
use std::collections::{HashMap, HashSet};

#[derive(Debug)]
pub struct RustSrc(pub String);

#[derive(Debug)]
pub enum KikiErr {
    Bad(Box<TableConflictErr>),
}

#[derive(Debug)]
pub struct TableConflictErr {
    pub seen: HashMap<String, usize>, // R-C14-types
}

pub fn generate(src: &str) -> Result<RustSrc, KikiErr> {
    let names: HashSet<String> = src.split(' ').map(str::to_owned).collect();
    let ordered: Vec<String> = names.iter().cloned().collect(); // R-C14-iter: collect into Vec
    let first = names.iter().next().cloned(); // R-C14-iter: next outside a loop
    let mut log = Vec::new();
    for n in &names {
        log.push(n.clone()); // R-C14-iter: non-keyed effect in a loop over a hash set
    }
    let t = std::time::Instant::now(); // R-C14-pure
    let addr = &ordered as *const Vec<String> as usize; // R-C14-pure: pointer exposure
    Ok(RustSrc(format!("{:?}{:?}{:?}{:?}{}", ordered, first, log, t, addr)))
}
