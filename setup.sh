#!/bin/sh
# Builds the analysis engines from files on disk only (offline) and warms the dependency cache.
set -eu
cd "$(dirname "$0")"
export CARGO_NET_OFFLINE=true
for e in mirfacts synfacts; do
  if [ -d engines/$e ]; then
    (cd engines/$e && cargo build --release --offline)
  fi
done
# warm: one fact extraction (compiles /repo's dependencies once into .cache/target)
./check C18 >/dev/null 2>&1 || true
exit 0
