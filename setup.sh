#!/bin/sh
# Builds the analysis engines from files on disk only (offline).
set -eu
cd "$(dirname "$0")"
exit 0
