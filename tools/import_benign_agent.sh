#!/bin/bash
# developer helper: re-verify an agent's behaviour-preserving refactors in its own scratch worktree (the unedited suite
# passes, no generated file changes) and import the confirmed ones into selftest/benign_independent/.
# usage: KV_OUT=/tmp/wt-out6 tools/import_benign_agent.sh <Dk>
id=$1; out=${KV_OUT:-/tmp/wt-out6}; wt=/tmp/wt/$id
for k in 1 2 3 4 5 6; do
  p=$out/$id/patch$k.diff
  [ -f $p ] || continue
  ( cd $wt && git checkout -q -- . && git clean -fdq -e Cargo.lock && git apply --whitespace=nowarn $p ) || { echo "== $id-$k DOES NOT APPLY"; continue; }
  res=$(cd $wt && CARGO_NET_OFFLINE=true cargo test --workspace --no-fail-fast --offline 2>&1 | grep "test result" | awk '{p+=$4; f+=$6} END {print p" passed "f" failed"}')
  st=$(cd $wt && git status --short | grep -v "^ M kiki/src\|^ M kiki/build.rs\|^?? kiki/src\|^ D kiki/src\|Cargo.lock" | tr '\n' ' ')
  gen=$(cd $wt && git status --short | grep "kiki/src/parser.rs" | tr '\n' ' ')
  ( cd $wt && git checkout -q -- . && git clean -fdq -e Cargo.lock )
  echo "== $id-$k suite: $res; other files touched: [$st] parser.rs: [$gen]"
  if [ "$res" = "118 passed 0 failed" ] && [ -z "$st" ] && [ -z "$gen" ]; then
    cp $p /verif/selftest/benign_independent/$id-$k.diff
    cp $out/$id/meta$k.json /verif/selftest/benign_independent/$id-$k.meta.json
  else
    echo "   NOT IMPORTED"
  fi
done
