#!/bin/bash
# developer helper: verify an agent's seeded changes and run the property's own check on each
# usage: KV_OUT=/tmp/wt-out3 tools/process_agent.sh <dir-id> <Cxx>
id=$1; own=$2; out=${KV_OUT:-/tmp/wt-out3}
for k in 1 2 3; do
  [ -f $out/$id/patch$k.diff ] || continue
  [ -f $out/$id/verify$k.json ] || KV_OUT=$out python3 /verif/tools/verify_mutant.py $id $k 2>&1 | grep -v WARNING
  echo "== $id-$k vs $own"
  /verif/tools/trymut.sh $out/$id/patch$k.diff $own 2>&1 | grep -v "^WARNING\|^VIOLATION\|^KNOWN" | cut -c1-280 | head -4
done
