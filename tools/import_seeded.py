#!/usr/bin/env python3
"""copy confirmed seeded changes from the agents' output directory into /verif/seeded/<id>/"""
import json, os, shutil, sys
src = os.environ.get("KV_OUT", "/tmp/wt-out")
ROUND = int(os.environ.get("KV_ROUND", "1"))
dst = "/verif/seeded"
for pid in sorted(os.listdir(src)):
    d = os.path.join(src, pid)
    if not os.path.isdir(d):
        continue
    for k in ("1", "2", "3", "4", "5", "6"):
        vf = os.path.join(d, "verify%s.json" % k)
        if not os.path.exists(vf):
            continue
        v = json.load(open(vf))
        if not v.get("confirmed"):
            print("skip (not confirmed)", pid, k)
            continue
        m = json.load(open(os.path.join(d, "meta%s.json" % k)))
        sid = "%s-%s" % (pid, k) if ROUND == 1 else "%s-r%d-%s" % (pid, ROUND, k)
        o = os.path.join(dst, sid)
        os.makedirs(o, exist_ok=True)
        shutil.copy(os.path.join(d, "patch%s.diff" % k), os.path.join(o, "patch.diff"))
        shutil.copy(os.path.join(d, "demo%s.rs" % k), os.path.join(o, "demo.rs"))
        meta = {
            "id": sid,
            "round": ROUND,
            "property": m.get("property", pid),
            "breaks": m.get("summary"),
            "needs_to_manifest": m.get("needs_to_manifest"),
            "files_changed": m.get("files_changed"),
            "demo_path": m.get("demo_path"),
            "demo_cmd": m.get("demo_cmd"),
            "author": "independent sub-agent given only the property text and a scratch worktree",
            "confirmed_by_me": {
                "how": "tools/verify_mutant.py in a scratch worktree of /repo at the fix commits: git apply; cargo test --workspace --no-fail-fast --offline; demo with patch; git apply -R; demo without patch",
                "suite_passed": v.get("suite_passed"), "suite_failed": v.get("suite_failed"),
                "demo_with_patch_rc": v.get("demo_with_patch_rc"), "demo_without_patch_rc": v.get("demo_without_patch_rc"),
                "git_status_with_patch": v.get("git_status_with_patch"),
            },
            "agent_ran": m.get("ran"),
        }
        old = os.path.join(o, "meta.json")
        if os.path.exists(old):
            prev = json.load(open(old))
            for keep in ("detected_by", "notes"):
                if keep in prev:
                    meta[keep] = prev[keep]
        json.dump(meta, open(old, "w"), indent=1)
        print("imported", sid)
