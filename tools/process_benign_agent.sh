#!/bin/bash
# developer helper: re-verify an agent's behaviour-preserving refactors (suite passes, generated files untouched)
# and run every registered check on each.  usage: KV_OUT=/tmp/wt-out5 tools/process_benign_agent.sh <Bk>
id=$1; out=${KV_OUT:-/tmp/wt-out5}; wt=/tmp/wt/$id
checks=$(python3 -c "import json;print(' '.join(c['property_id'] for c in json.load(open('/verif/MANIFEST.json'))['checks']))")
for k in 1 2 3 4 5 6; do
  p=$out/$id/patch$k.diff
  [ -f $p ] || continue
  ( cd $wt && git checkout -q -- . && git clean -fdq && git apply --whitespace=nowarn $p ) || { echo "== $id-$k DOES NOT APPLY"; continue; }
  res=$(cd $wt && CARGO_NET_OFFLINE=true cargo test --workspace --no-fail-fast --offline 2>&1 | grep "test result" | awk '{p+=$4; f+=$6} END {print p" passed "f" failed"}')
  st=$(cd $wt && git status --short | grep -v "^ M kiki/src\|^ M kiki/build.rs\|^?? kiki/src" | tr '\n' ' ')
  ( cd $wt && git checkout -q -- . && git clean -fdq )
  kind=$(python3 -c "import json;print(json.load(open('$out/$id/meta$k.json')).get('kind','?'))" 2>/dev/null)
  echo "== $id-$k [$kind] suite: $res; other files touched: [$st]"
  /verif/tools/trymut.sh $p $checks 2>&1 | grep -v "^WARNING\|^VIOLATION\|^KNOWN\|^OK property" | cut -c1-260 | head -6
done
