#!/bin/bash
# developer helper: apply a patch to a scratch copy of /repo and run checks against the copy
# usage: tools/trymut.sh <patch.diff> <Cxx> [<Cyy> ...]
set -u
patch=$1; shift
d=$(mktemp -d /tmp/kv-mut.XXXXXX)
rsync -a --exclude /target --exclude .git /repo/ $d/
( cd $d && git init -q . 2>/dev/null && git apply --whitespace=nowarn "$patch" ) || { echo "PATCH DOES NOT APPLY: $patch"; rm -rf $d; exit 3; }
rm -rf $d/.git
rc=0
for p in "$@"; do
  /verif/check $p --repo $d ${TIER:+--tier $TIER} || rc=$?
done
rm -rf $d
exit $rc
