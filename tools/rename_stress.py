#!/usr/bin/env python3
"""developer helper: mass-rename stress test.  Renames every function / method defined in kiki/src (outside the
generated parser, tests, trait impls and the public entry points) to <name>_rn, consistently in all of kiki/src, on a
scratch copy of /repo; iterates `cargo check` to drop names that cannot be renamed textually (clash with std method
names, names captured in format strings).  The result is a behaviour-preserving variant on which every check must stay
silent: any alarm is a dependence of a rule on a private name.
usage: tools/rename_stress.py <out-dir> [--only <path-substring>]   (prints the renamed names; leaves the tree in out-dir)"""
import json, os, re, subprocess, sys, tempfile
V = os.path.dirname(os.path.dirname(os.path.abspath(__file__)))
out = sys.argv[1]
only = sys.argv[sys.argv.index("--only") + 1] if "--only" in sys.argv else None
suffix = "_rn"
KEEP = {"generate", "get_grammar_hash", "main", "new", "from", "fmt", "eq", "ne", "cmp", "partial_cmp", "clone", "hash", "deref", "into_iter", "from_iter", "index", "try_from", "next", "default", "len", "is_empty", "iter", "insert", "contains", "extend", "get", "push", "pop", "to_string", "name", "start", "end", "raw", "update", "parse", "into", "as_ref", "type_name"}

subprocess.run(["rsync", "-a", "--delete", "--exclude", "/target", "--exclude", ".git", "/repo/", out + "/"], check=True)
src_root = os.path.join(out, "kiki", "src")
files = []
for d, _, fs in os.walk(src_root):
    for f in fs:
        if f.endswith(".rs") and f != "parser.rs":
            files.append(os.path.join(d, f))

TOK = re.compile(r'''(?P<lc>//[^\n]*)|(?P<bc>/\*.*?\*/)|(?P<raw>r(?P<h>#*)".*?"(?P=h))|(?P<str>"(?:\\.|[^"\\])*")|(?P<chr>'(?:\\.|[^'\\])')|(?P<lt>'[A-Za-z_]\w*)|(?P<id>[A-Za-z_]\w*)|(?P<o>.)''', re.S)

def defined_names(text, in_oset):
    names = set()
    # strip test modules crudely: everything after `#[cfg(test)]`
    cut = text.find("#[cfg(test)]")
    body = text if cut < 0 else text[:cut]
    # trait impl blocks are skipped: `impl <Trait> for`
    depth = 0
    skip_until = None
    i = 0
    for m in re.finditer(r"impl\b[^{;]*\{|\bfn\s+([A-Za-z_]\w*)|\{|\}", body):
        t = m.group(0)
        if t.startswith("impl"):
            depth += 1
            if re.search(r"\bfor\b", t) and skip_until is None and not re.search(r"impl\s+Indent\s+for", t):
                skip_until = depth - 1
        elif t == "{":
            depth += 1
        elif t == "}":
            depth -= 1
            if skip_until is not None and depth <= skip_until:
                skip_until = None
        elif m.group(1):
            if skip_until is None and not in_oset:
                names.add(m.group(1))
    return names

cands = set()
captured = set()
test_names = set()
for f in files:
    text = open(f).read()
    is_test_file = "/tests/" in f or f.endswith("/tests.rs")
    cut = text.find("#[cfg(test)]")
    tail = text if is_test_file else (text[cut:] if cut >= 0 else "")
    # test functions name snapshot files: never renamed
    test_names |= set(re.findall(r"\bfn\s+([A-Za-z_]\w*)", tail))
    if is_test_file or (only and only not in f):
        continue
    cands |= defined_names(text, f.endswith("oset.rs"))
cands -= test_names
extra = sys.argv[sys.argv.index("--names") + 1].split(",") if "--names" in sys.argv else []
if "--names-only" in sys.argv:
    cands = set()
cands |= set(extra)
KEEP -= set(extra)
for f in files:
    text = open(f).read()
    for m in TOK.finditer(text):
        if m.group("str") or m.group("raw"):
            captured |= set(re.findall(r"\{([A-Za-z_]\w*)", m.group(0)))
cands -= KEEP
cands -= captured
cands = {c for c in cands if not c.startswith("test")}

def apply(names):
    subprocess.run(["rsync", "-a", "--exclude", "/target", "--exclude", ".git", "/repo/kiki/src/", src_root + "/"], check=True)
    for f in files:
        text = open(f).read()
        outp = []
        for m in TOK.finditer(text):
            if m.group("id") and m.group("id") in names:
                outp.append(m.group("id") + suffix)
            else:
                outp.append(m.group(0))
        open(f, "w").write("".join(outp))

names = set(cands)
for rnd in range(12):
    apply(names)
    r = subprocess.run(["cargo", "check", "--offline", "-p", "kiki@7.1.0", "--tests", "--message-format=short"], cwd=out, stdout=subprocess.PIPE, stderr=subprocess.STDOUT, env=dict(os.environ, CARGO_NET_OFFLINE="true", CARGO_TARGET_DIR=os.path.join(tempfile.gettempdir(), "kv-rename-target")))
    txt = r.stdout.decode("utf-8", "replace")
    if r.returncode == 0:
        break
    bad = set(x[:-len(suffix)] for x in re.findall(r"`(\w+%s)`" % suffix, txt))
    if not bad:
        print(txt[-3000:])
        sys.exit(3)
    print("round %d: dropping %s" % (rnd, sorted(bad)), flush=True)
    names -= bad
else:
    print("did not converge")
    sys.exit(3)
# the build scripts must not have regenerated anything
subprocess.run(["rsync", "-a", "/repo/kiki/src/parser.rs", os.path.join(src_root, "parser.rs")], check=True)
print("renamed %d functions: %s" % (len(names), " ".join(sorted(names))))
