#!/usr/bin/env python3
"""regenerate seeded/MATRIX.md from seeded/*/meta.json (no checks are run)"""
import json, os
V = os.path.dirname(os.path.dirname(os.path.abspath(__file__)))
rows = []
for sid in sorted(os.listdir(os.path.join(V, "seeded"))):
    mp = os.path.join(V, "seeded", sid, "meta.json")
    if os.path.exists(mp):
        m = json.load(open(mp))
        rows.append((sid, m["property"], m.get("detected_by") or {}, m.get("round", 1), (m.get("breaks") or "")[:110].replace("|", "/").replace("\n", " ")))
with open(os.path.join(V, "seeded", "MATRIX.md"), "w") as f:
    f.write("# Seeded changes x checks\n\nEach row is a change to kylejlin/kiki written by an independent sub-agent that was given only the property text and a scratch worktree. Every one was confirmed here (tools/verify_mutant.py): it applies, the workspace compiles, all 118 tests pass, its demonstration fails with the change and passes without it. `own` = reported by the check of the property it was written against. Produced by tools/run_seeded.py (checks run on a patched scratch copy, never in /repo).\n\n")
    own = sum(1 for r in rows if r[1] in r[2])
    anyc = sum(1 for r in rows if r[2])
    f.write("Totals: %d changes; %d reported by their own property's check; %d reported by at least one check.\n\n" % (len(rows), own, anyc))
    f.write("| id | round | property | own | detected by (rules) | what it breaks |\n|---|---|---|---|---|---|\n")
    for (sid, prop, det, rnd, what) in rows:
        f.write("| %s | %s | %s | %s | %s | %s |\n" % (sid, rnd, prop, "yes" if prop in det else "**no**", "; ".join("%s: %s" % (k, ", ".join(v[:4])) for k, v in sorted(det.items())) or "—", what))
print(len(rows), "rows")
