#!/usr/bin/env python3
"""Behaviour-preserving edits (selftest/benign/*.diff) must leave every check silent.
For each: apply to a scratch copy, confirm it compiles and the workspace tests pass (cargo test, in the
scratch copy with its own target dir), run every registered check against the copy.  Writes selftest/benign/RESULTS.md."""
import json, os, re, shutil, subprocess, sys, tempfile
V = os.path.dirname(os.path.dirname(os.path.abspath(__file__)))
checks = [c["property_id"] for c in json.load(open(os.path.join(V, "MANIFEST.json")))["checks"]]
bd = os.path.join(V, "selftest", "benign")
names = sys.argv[1:] or sorted(f[:-5] for f in os.listdir(bd) if f.endswith(".diff"))
tgt = tempfile.mkdtemp(prefix="kv-benign-target-")
rows = []
env = dict(os.environ, CARGO_NET_OFFLINE="true", CARGO_TARGET_DIR=tgt)
try:
    for n in names:
        tmp = tempfile.mkdtemp(prefix="kv-benign-")
        try:
            subprocess.run(["rsync", "-a", "--exclude", "/target", "--exclude", ".git", "/repo/", tmp + "/"], check=True)
            subprocess.run(["git", "init", "-q", "."], cwd=tmp, check=True)
            r = subprocess.run(["git", "apply", "--whitespace=nowarn", os.path.join(bd, n + ".diff")], cwd=tmp)
            shutil.rmtree(os.path.join(tmp, ".git"), ignore_errors=True)
            if r.returncode != 0:
                rows.append((n, "does not apply", "-", {}))
                continue
            p = subprocess.run(["cargo", "test", "--workspace", "--no-fail-fast", "--offline"], cwd=tmp, env=env, stdout=subprocess.PIPE, stderr=subprocess.STDOUT)
            o = p.stdout.decode("utf-8", "replace")
            passed = sum(int(x) for x in re.findall(r"test result: \w+\. (\d+) passed", o))
            failed = sum(int(x) for x in re.findall(r"test result: \w+\. \d+ passed; (\d+) failed", o))
            compiled = "error: could not compile" not in o
            alarms = {}
            # the e2e build script rewrites examples in the scratch copy; restore them so the checks see the patched tree only
            for c in checks:
                q = subprocess.run([os.path.join(V, "check"), c, "--repo", tmp], stdout=subprocess.PIPE, stderr=subprocess.STDOUT)
                if q.returncode != 0:
                    out = q.stdout.decode("utf-8", "replace")
                    alarms[c] = [l for l in out.splitlines() if ": R-" in l or "floor" in l or "CHECK-BROKEN" in l][:3]
            rows.append((n, "compiles" if compiled else "DOES NOT COMPILE", "%d passed, %d failed" % (passed, failed), alarms))
            print(n, compiled, passed, failed, "ALARMS " + json.dumps(alarms)[:400] if alarms else "silent", flush=True)
        finally:
            shutil.rmtree(tmp, ignore_errors=True)
finally:
    shutil.rmtree(tgt, ignore_errors=True)
for c in checks:
    subprocess.run([os.path.join(V, "check"), c], stdout=subprocess.DEVNULL, stderr=subprocess.DEVNULL)
if not sys.argv[1:]:
    with open(os.path.join(bd, "RESULTS.md"), "w") as f:
        f.write("# Benign variants\n\nBehaviour-preserving edits of kylejlin/kiki; every check must stay silent on each (tools/run_benign.py).\n\n| variant | build | tests | checks raising an alarm |\n|---|---|---|---|\n")
        for (n, b, t, al) in rows:
            f.write("| %s | %s | %s | %s |\n" % (n, b, t, "; ".join("%s: %s" % (k, v[0][:120] if v else "") for k, v in al.items()) or "none"))
