#!/usr/bin/env python3
"""Run every registered check on every independently written behaviour-preserving refactor
(selftest/benign_independent/*.diff, written by sub-agents that never saw /verif) and write RESULTS.md.
usage: tools/run_independent_benign.py [name ...]"""
import json, os, re, shutil, subprocess, sys, tempfile
from concurrent.futures import ThreadPoolExecutor
V = os.path.dirname(os.path.dirname(os.path.abspath(__file__)))
checks = [c["property_id"] for c in json.load(open(os.path.join(V, "MANIFEST.json")))["checks"]]
bd = os.path.join(V, "selftest", "benign_independent")
names = sys.argv[1:] or sorted(f[:-5] for f in os.listdir(bd) if f.endswith(".diff"))
def one(n):
    tmp = tempfile.mkdtemp(prefix="kv-ind-")
    try:
        subprocess.run(["rsync", "-a", "--exclude", "/target", "--exclude", ".git", "/repo/", tmp + "/"], check=True)
        subprocess.run(["git", "init", "-q", "."], cwd=tmp, check=True)
        r = subprocess.run(["git", "apply", "--whitespace=nowarn", os.path.join(bd, n + ".diff")], cwd=tmp)
        shutil.rmtree(os.path.join(tmp, ".git"), ignore_errors=True)
        if r.returncode != 0:
            return (n, None)
        alarms = {}
        for c in checks:
            q = subprocess.run([os.path.join(V, "check"), c, "--repo", tmp, "--dry"], stdout=subprocess.PIPE, stderr=subprocess.STDOUT)
            out = q.stdout.decode("utf-8", "replace")
            if q.returncode != 0:
                m = re.findall(r"^DRY rc=\d+ (.*)$", out, re.M)
                alarms[c] = json.loads(m[-1]) if m else [["?", out[-200:]]]
        return (n, alarms)
    finally:
        shutil.rmtree(tmp, ignore_errors=True)
with ThreadPoolExecutor(max_workers=4) as pool:
    rows = list(pool.map(one, names))
silent = sum(1 for (n, a) in rows if a == {})
for (n, a) in rows:
    print(n, "SILENT" if a == {} else ("does not apply" if a is None else {c: sorted({x[0] for x in v}) for c, v in a.items()}), flush=True)
print("silent: %d of %d" % (silent, len(rows)))
if not sys.argv[1:]:
    with open(os.path.join(bd, "RESULTS.md"), "w") as f:
        f.write("# Independently written behaviour-preserving refactors\n\nWritten by sub-agents that saw only a scratch worktree of kylejlin/kiki (never /verif); each keeps the 118 tests passing and was argued (and differentially tested by its author) to be behaviour-preserving. Every check should stay silent on each. This table is the honest measure of over-strictness (tools/run_independent_benign.py).\n\nSilent on all checks: %d of %d.\n\n| refactor | kind | checks raising an alarm (rules) |\n|---|---|---|\n" % (silent, len(rows)))
        for (n, a) in rows:
            kind = json.load(open(os.path.join(bd, n + ".meta.json"))).get("kind", "?")[:110]
            f.write("| %s | %s | %s |\n" % (n, kind.replace("|", "/"), "none" if a == {} else "; ".join("%s: %s" % (c, ", ".join(sorted({x[0] for x in v}))) for c, v in sorted(a.items()))))
