#!/usr/bin/env python3
"""Run every registered check against every seeded change (on a scratch copy of /repo, never in /repo)
and record which checks report a violation.  Writes seeded/<id>/meta.json["detected_by"] and seeded/MATRIX.md.
usage: tools/run_seeded.py [id ...]"""
import json, os, re, shutil, subprocess, sys, tempfile
V = os.path.dirname(os.path.dirname(os.path.abspath(__file__)))
checks = [c["property_id"] for c in json.load(open(os.path.join(V, "MANIFEST.json")))["checks"]]
ids = sys.argv[1:] or sorted(os.listdir(os.path.join(V, "seeded")))
rows = []
for sid in ids:
    d = os.path.join(V, "seeded", sid)
    if not os.path.isdir(d):
        continue
    meta = json.load(open(os.path.join(d, "meta.json")))
    tmp = tempfile.mkdtemp(prefix="kv-seed-")
    try:
        subprocess.run(["rsync", "-a", "--exclude", "/target", "--exclude", ".git", "/repo/", tmp + "/"], check=True)
        subprocess.run(["git", "init", "-q", "."], cwd=tmp, check=True)
        r = subprocess.run(["git", "apply", "--whitespace=nowarn", os.path.join(d, "patch.diff")], cwd=tmp)
        shutil.rmtree(os.path.join(tmp, ".git"), ignore_errors=True)
        if r.returncode != 0:
            print(sid, "PATCH DOES NOT APPLY")
            continue
        det = {}
        for c in checks:
            p = subprocess.run([os.path.join(V, "check"), c, "--repo", tmp], stdout=subprocess.PIPE, stderr=subprocess.STDOUT)
            out = p.stdout.decode("utf-8", "replace")
            rules = sorted(set(re.findall(r"^\S+(?: \(template line \d+\))?: (R-[\w-]+|floor|control): ", out, re.M)))
            if p.returncode == 1:
                det[c] = rules
            elif p.returncode == 2:
                det[c] = ["CHECK-BROKEN"]
        meta["detected_by"] = det
        own = meta["property"]
        meta["detected_by_own_property_check"] = own in det
        json.dump(meta, open(os.path.join(d, "meta.json"), "w"), indent=1)
        rows.append((sid, own, det))
        print(sid, "own" if own in det else "---", {k: v[:3] for k, v in det.items()}, flush=True)
    finally:
        shutil.rmtree(tmp, ignore_errors=True)
# restore evidence of the unchanged tree
for c in checks:
    subprocess.run([os.path.join(V, "check"), c], stdout=subprocess.DEVNULL, stderr=subprocess.DEVNULL)
if not sys.argv[1:]:
    with open(os.path.join(V, "seeded", "MATRIX.md"), "w") as f:
        f.write("# Seeded changes x checks\n\nEach row: a change written by an independent sub-agent (given only the property text), confirmed to compile, pass the 118 tests and fail its own demonstration. `own` = caught by the check of the property it was written against.\n\n| id | property | own | detected by (rules) |\n|---|---|---|---|\n")
        for (sid, own, det) in rows:
            f.write("| %s | %s | %s | %s |\n" % (sid, own, "yes" if own in det else "**no**", "; ".join("%s: %s" % (k, ", ".join(v[:4])) for k, v in sorted(det.items())) or "—"))
