#!/usr/bin/env python3
"""Confirm a seeded change independently, in its scratch worktree:
   (1) applies, (2) workspace compiles and all 118 tests pass, (3) demo fails with it, (4) demo passes without it.
   usage: verify_mutant.py <Cxx> <k>   -> writes /tmp/wt-out/<Cxx>/verify<k>.json"""
import json, os, re, subprocess, sys, shutil
pid, k = sys.argv[1], sys.argv[2]
wt = "/tmp/wt/%s" % pid
out = "%s/%s" % (os.environ.get("KV_OUT", "/tmp/wt-out"), pid)
meta = json.load(open("%s/meta%s.json" % (out, k)))
env = dict(os.environ); env["CARGO_NET_OFFLINE"] = "true"
def sh(cmd, timeout=1800):
    p = subprocess.run(cmd, shell=True, cwd=wt, env=env, stdout=subprocess.PIPE, stderr=subprocess.STDOUT, timeout=timeout)
    return p.returncode, p.stdout.decode("utf-8", "replace")
res = {"property": pid, "k": k}
sh("git checkout -- . && git clean -fdq")
rc, o = sh("git apply --whitespace=nowarn %s/patch%s.diff" % (out, k))
res["applies"] = rc == 0
if rc != 0:
    res["error"] = o[-500:]
else:
    rc, o = sh("cargo test --workspace --no-fail-fast --offline 2>&1")
    passed = sum(int(x) for x in re.findall(r"test result: \w+\. (\d+) passed", o))
    failed = sum(int(x) for x in re.findall(r"test result: \w+\. \d+ passed; (\d+) failed", o))
    res["suite_rc"] = rc; res["suite_passed"] = passed; res["suite_failed"] = failed
    rc2, st = sh("git status --short")
    res["git_status_with_patch"] = st.strip().splitlines()
    demo_path = meta["demo_path"]
    os.makedirs(os.path.dirname(os.path.join(wt, demo_path)), exist_ok=True)
    shutil.copy("%s/demo%s.rs" % (out, k), os.path.join(wt, demo_path))
    cmd = meta["demo_cmd"]
    rc, o = sh(cmd + " 2>&1", timeout=1800)
    res["demo_with_patch_rc"] = rc
    res["demo_with_patch_tail"] = o[-1500:]
    sh("git apply -R --whitespace=nowarn %s/patch%s.diff" % (out, k))
    rc, o = sh(cmd + " 2>&1", timeout=1800)
    res["demo_without_patch_rc"] = rc
    res["demo_without_patch_tail"] = o[-600:]
    os.unlink(os.path.join(wt, demo_path))
sh("git checkout -- . && git clean -fdq")
res["confirmed"] = bool(res.get("applies") and res.get("suite_passed") == 118 and res.get("suite_failed") == 0 and res.get("demo_with_patch_rc", 0) != 0 and res.get("demo_without_patch_rc", 1) == 0)
json.dump(res, open("%s/verify%s.json" % (out, k), "w"), indent=1)
print(pid, k, "CONFIRMED" if res["confirmed"] else "NOT CONFIRMED", res.get("suite_passed"), res.get("suite_failed"), res.get("demo_with_patch_rc"), res.get("demo_without_patch_rc"))
